"""Input construction for the felt-sx executor: symbolic values generated from the PARSED struct definitions, their JSON form
(serde layout of the real structs, consumed by /verif/replay_e2) and evaluation under a model."""
import z3

from rsparse import Unsupported
from symex import F, RList, ResultV, P
from sxval import SF, SI, BI, NZ, SStruct, EnumV, BITS, zi
from common import hx


class Builder(object):
    def __init__(self, ex):
        self.ex = ex
        self.world = ex.world
        self.vars = []       # (name, kind, z3 const)

    def felt(self, name):
        v = self.ex.sym_felt(name)
        self.vars.append((name, "felt", v.t))
        return v

    def integer(self, name, bits=64, hi=None):
        v = self.ex.sym_int(name, bits, hi)
        self.vars.append((name, "int", v.t))
        return v

    def value(self, ty, mod, name, shape):
        """symbolic value of the type written `ty` in module `mod`.  shape: {path: length | concrete value | callable(name)}"""
        ty = ty.strip()
        if name in shape and not isinstance(shape[name], int):
            s = shape[name]
            return s(name) if callable(s) else s
        if ty.startswith("&"):
            ty = ty.lstrip("&").replace("mut ", "").strip()
        if ty == "Felt":
            return self.felt(name)
        if ty in BITS:
            if name in shape:
                return shape[name]
            return self.integer(name, BITS[ty])
        if ty == "bool":
            b = z3.Bool(name)
            self.vars.append((name, "bool", b))
            return b
        if ty.startswith("Vec <") or ty.startswith("Vec<") or ty.startswith("["):
            inner = ty[ty.index("<") + 1: ty.rindex(">")].strip() if ty.startswith("Vec") else ty[1:-1].strip()
            if name not in shape:
                raise Unsupported(mod.file, 0, "no length given for vector %s : %s" % (name, ty))
            n = shape[name]
            return RList([self.value(inner, mod, "%s[%d]" % (name, i), shape) for i in range(n)])
        if ty.startswith("Option"):
            inner = ty[ty.index("<") + 1: ty.rindex(">")].strip()
            if shape.get(name + "?", False):
                return ResultV("Some", self.value(inner, mod, name, shape))
            return ResultV("None")
        r = self.world.resolve_type(ty, mod)
        if r is None:
            raise Unsupported(mod.file, 0, "cannot resolve type %s of %s" % (ty, name))
        kind, sname, m = r
        if kind == "struct":
            return self.struct(m, sname, name, shape)
        if kind == "tuple":
            inner = m.tuple_structs[sname].replace("pub ", "").strip()
            v = self.value(inner, m, name, shape)
            if isinstance(v, RList):
                v.rtype = sname
                v.mod = m
                return v
            return SStruct(sname, {"0": v}, m)
        raise Unsupported(mod.file, 0, "cannot build a symbolic %s (%s)" % (ty, kind))

    def struct(self, mod, sname, name, shape):
        if sname not in mod.struct_fields:
            raise Unsupported(mod.file, 0, "struct %s not found" % sname)
        fields = {}
        for f in mod.struct_fields[sname]:
            fields[f] = self.value(mod.struct_field_types[sname][f], mod, (name + "." + f) if name else f, shape)
        return SStruct(sname, fields, mod)


# ---------------------------------------------------------------- evaluation under a model
def mval(model, t):
    """python int / bool value of a z3 term under `model` (common.ModelProxy or z3 model)"""
    if isinstance(t, (int, bool)):
        return t
    ex = getattr(model, "extra", None)
    if ex and t.get_id() in ex:
        return ex[t.get_id()]
    v = model.eval(t, True)
    if v is None:
        return None
    if z3.is_int_value(v):
        return v.as_long()
    if z3.is_true(v):
        return True
    if z3.is_false(v):
        return False
    return None


def concretize(v, model, default=0):
    """replace every symbolic leaf by its model value (missing -> default)"""
    if isinstance(v, SF):
        x = mval(model, v.t)
        return F(default if x is None else x)
    if isinstance(v, SI):
        x = mval(model, v.t)
        return default if x is None else x
    if isinstance(v, z3.BoolRef):
        x = mval(model, v)
        return bool(x)
    if isinstance(v, RList):
        r = RList([concretize(x, model, default) for x in v], rtype=v.rtype)
        if hasattr(v, "mod"):
            r.mod = v.mod
        return r
    if isinstance(v, list):
        return RList([concretize(x, model, default) for x in v])
    if isinstance(v, SStruct):
        return SStruct(v.name, dict((k, concretize(x, model, default)) for k, x in v.fields.items()), v.mod)
    if isinstance(v, ResultV):
        return ResultV(v.kind, concretize(v.value, model, default) if v.value is not None else None)
    if isinstance(v, tuple):
        return tuple(concretize(x, model, default) for x in v)
    if isinstance(v, dict):
        return dict((k, concretize(x, model, default)) for k, x in v.items())
    if isinstance(v, NZ):
        return NZ(concretize(v.v, model, default), v.checked)
    if isinstance(v, BI):
        return BI(concretize(SI(v.v, 0), model, default) if not isinstance(v.v, int) else v.v)
    return v


def leaf_terms(v, out=None):
    """z3 terms of all symbolic leaves of a value (to be evaluated in the solver process: check(.., eval_terms=..))"""
    out = [] if out is None else out
    if isinstance(v, (SF, SI)):
        if not z3.is_int_value(v.t):
            out.append(v.t)
    elif isinstance(v, z3.ExprRef):
        out.append(v)
    elif isinstance(v, (list, tuple)):
        for x in v:
            leaf_terms(x, out)
    elif isinstance(v, SStruct):
        for x in v.fields.values():
            leaf_terms(x, out)
    elif isinstance(v, dict):
        for x in v.values():
            leaf_terms(x, out)
    elif isinstance(v, ResultV):
        if v.value is not None:
            leaf_terms(v.value, out)
    elif isinstance(v, NZ):
        leaf_terms(v.v, out)
    elif isinstance(v, BI) and not isinstance(v.v, int):
        out.append(v.v)
    return out


def to_json(v):
    """serde JSON of a CONCRETE value (Felt -> hex string, integers -> numbers, Vec -> array, struct -> object, None -> null)"""
    if isinstance(v, F):
        return hx(v.v)
    if isinstance(v, bool):
        return v
    if isinstance(v, int):
        return v
    if isinstance(v, list):
        return [to_json(x) for x in v]
    if isinstance(v, SStruct):
        return dict((k, to_json(x)) for k, x in v.fields.items())
    if isinstance(v, ResultV):
        return to_json(v.value) if v.kind in ("Some", "Ok") else None
    if isinstance(v, tuple):
        return [to_json(x) for x in v]
    if isinstance(v, NZ):
        return to_json(v.v)
    if v == ():
        return None
    raise TypeError("cannot serialise %r" % (v,))


def random_fill(v, r, small=None):
    """concrete copy of a symbolic structure with seeded random leaves (small: callable(name-less) -> bound)"""
    class M(object):
        def eval(self, t, c=True):
            if z3.is_bool(t):
                return z3.BoolVal(r.random() < 0.5)
            return z3.IntVal(r.randrange(P) if small is None else r.randrange(small))
    return concretize(v, M())


def outcome_label(out):
    """comparable summary of an executor outcome: ('ok',) | ('err', [variant chain]) | ('panic', file, line)"""
    if out.kind == "ok":
        return ("ok",)
    if out.kind == "err":
        return ("err", out.value.chain() if isinstance(out.value, EnumV) else [repr(out.value)])
    if out.kind == "panic":
        return ("panic", out.site[0], out.site[1], out.msg)
    return (out.kind, out.msg)


import re
_ID = re.compile(r"[A-Za-z_][A-Za-z0-9_]*")

def native_label(ans):
    """same summary for a replay_e2 answer"""
    if "ok" in ans:
        return ("ok",)
    if "err" in ans:
        s = ans["err"]
        chain = []
        # variant chain = identifiers that directly precede '(' or '{' or stand alone, from the outside in
        depth_text = s
        while True:
            m = _ID.match(depth_text.strip())
            if not m:
                break
            chain.append(m.group(0))
            rest = depth_text.strip()[m.end():].strip()
            if rest.startswith("("):
                depth_text = rest[1:]
            else:
                break
        return ("err", chain)
    if "panic" in ans:
        return ("panic", ans.get("file"), ans.get("line"), ans["panic"])
    return ("bad", str(ans))


def same_outcome(py, nat):
    """executor label vs native label"""
    if py[0] != nat[0]:
        return False
    if py[0] == "ok":
        return True
    if py[0] == "err":
        a, b = py[1], nat[1]
        return a == b or (a and b and a[:len(b)] == b) or (a and b and b[:len(a)] == a)
    if py[0] == "panic":
        if nat[1] and str(py[1]).endswith(str(nat[1])):
            return int(py[2]) == int(nat[2])
        return True          # panic raised inside a library frame: only the fact of the panic is comparable
    return False
