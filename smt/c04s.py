"""C04S / C05S - Merkle vector decommitment (vector/decommit.rs) and table decommitment (table/decommit.rs) executed by felt-sx against
an independent tree builder and honest-witness generator written from the statement."""
import itertools
import time

import z3

import common
from common import Stats, check, finish, guarded, obligation, replay, hx, rng, P
from rsparse import Unsupported
from symex import F, RList, ResultV, LoopBound
from sx import Exec, ASSUMPTIONS
from sxlib import concretize, to_json, mval, leaf_terms
from sxval import SF, SI, SStruct, EnumV, ByteChunk, Hasher, DigestSlice, zi, deep_copy
from sxworld import DEFAULT_FEATURES
import sxh
from sxh import H

VARIANTS = ("keccak_160_lsb", "keccak_248_lsb", "blake2s_160_lsb", "blake2s_248_lsb")
FN_V = [sxh.F_VDECOMMIT + "::vector_commitment_decommit", sxh.F_VDECOMMIT + "::compute_root_from_queries", sxh.F_VDECOMMIT + "::hash_friendly_unfriendly"]
FN_T = [sxh.F_TDECOMMIT + "::table_decommit", sxh.F_TDECOMMIT + "::generate_vector_queries"] + FN_V


def features_of(variant):
    base = set(DEFAULT_FEATURES) - {"keccak_160_lsb", "keccak", "blake2s"}
    return frozenset(base | {variant, "keccak" if variant.startswith("keccak") else "blake2s"})


def vworld(variant):
    return sxh.world("recursive", features=features_of(variant))


def lay(variant):
    return ["recursive"] + ([variant] if variant != "keccak_160_lsb" else [])


# ------------------------------------------------------------------------------------------------ the statement's tree (independent of the Rust)
class Tree(object):
    """node at depth d-1 = hash of its two children at depth d; the hash is Poseidon iff n_friendly >= d, else the masked byte hash of the
    two 32-byte encodings (family / truncation of the cfg variant).  Works on symbolic terms (ex without oracle) and on concrete values
    (ex with the real-hash oracle)."""
    def __init__(self, ex, variant, h, leaves, nf):
        self.ex, self.h, self.nf = ex, h, nf
        self.family = "keccak" if variant.startswith("keccak") else "blake2s"
        self.lo = 12 if variant.endswith("160_lsb") else 1
        self.levels = {h: list(leaves)}
        for d in range(h, 0, -1):
            cur = self.levels[d]
            self.levels[d - 1] = [self.node_hash(cur[2 * j], cur[2 * j + 1], d) for j in range(len(cur) // 2)]
        self.root = self.levels[0][0]

    def masked(self, tokens):
        hs = Hasher(self.family)
        hs.tokens.extend(tokens)
        d = self.ex.finalize(hs, 0)
        return self.ex.felt_from_bytes(DigestSlice(d, self.lo, 32), 0)

    def node_hash(self, x, y, d):
        ex = self.ex
        nf = self.nf
        if isinstance(nf, (int, F)):
            nfv = nf if isinstance(nf, int) else nf.v
            if nfv >= d:
                return ex.hash2("poseidon2", x, y, 0)
            return self.masked([ByteChunk("felt", x), ByteChunk("felt", y)])
        a = ex.hash2("poseidon2", x, y, 0)
        b = self.masked([ByteChunk("felt", x), ByteChunk("felt", y)])
        return SF(z3.If(zi(nf) >= d, zi(a), zi(b)))

    def witness(self, indices):
        """all siblings of the subtree spanned by the queried leaves, bottom layer up, left to right"""
        out = []
        level = sorted(set(indices))
        for d in range(self.h, 0, -1):
            s = set(level)
            for idx in level:
                if (idx ^ 1) not in s:
                    out.append(self.levels[d][idx ^ 1])
            level = sorted(set(i // 2 for i in level))
        return out


def index_sets(h, kmax=3):
    for k in range(1, kmax + 1):
        for c in itertools.combinations(range(2**h), k):
            yield c


def vec_commitment(h_, h, nf, root, name="com"):
    com = h_.struct(sxh.F_VTYPES, "Commitment", name, {})
    sxh.set_path(com, "config.height", F(h))
    sxh.set_path(com, "config.n_verifier_friendly_commitment_layers", nf)
    com.fields["commitment_hash"] = root
    return com


def vec_queries(h_, idxs, values):
    m = h_.w.mod(sxh.F_VTYPES)
    return RList([SStruct("Query", {"index": F(i), "value": v}, m) for i, v in zip(idxs, values)])


def vec_witness(h_, auth):
    return SStruct("Witness", {"authentications": RList(list(auth))}, h_.w.mod(sxh.F_VTYPES))


def vreq(com, qs, wit):
    return {"fn": "vector_commitment_decommit", "commitment": to_json(com), "queries": to_json(qs), "witness": to_json(wit)}


def run_vector(w, h, idxs, mode, variant):
    """mode: 'bind' (arbitrary claimed values and authentications, root = built), 'honest' (honest values + witness, root symbolic),
    ('corrupt', j) / 'missing'"""
    ex = Exec(w, int_bound=8)
    hold = {}
    def entry(ex):
        h_ = H(ex)
        leaves = h_.felts("leaf", 2**h)
        nf = h_.felt("nf")
        ex.assume(zi(nf) <= h + 1)
        tree = Tree(ex, variant, h, leaves, nf)
        k = len(idxs)
        hw = tree.witness(idxs)
        if mode == "bind":
            vals = h_.felts("claim", k)
            auth = h_.felts("auth", h * k)
            root = tree.root
        else:
            vals = RList([leaves[i] for i in idxs])
            auth = RList(list(hw))
            root = h_.felt("root")
            if isinstance(mode, tuple):
                c = h_.felt("corrupted")
                hold["corrupt"] = (c, auth[mode[1]])
                auth[mode[1]] = c
            elif mode == "missing":
                del auth[-1:]
        com = vec_commitment(h_, h, nf, root)
        qs = vec_queries(h_, idxs, vals)
        wit = vec_witness(h_, auth)
        hold.update(leaves=leaves, nf=nf, vals=deep_copy(vals), auth=deep_copy(auth), root=root, built=tree.root, n_needed=len(hw),
                    com=deep_copy(com), qs=deep_copy(qs), wit=deep_copy(wit))
        return h_.call(sxh.F_VDECOMMIT, "vector_commitment_decommit", [com, qs, wit])
    outs = ex.explore(entry, max_paths=400, budget_s=120)
    return ex, outs, hold


def native_honest(orc, w, variant, h, idxs, nfv, r, tweak=None):
    """honest tree with REAL hashes (concrete executor run of the statement's builder); returns the native request"""
    exo = Exec(w, hash_oracle=orc)
    leaves = [F(r.randrange(P)) for _ in range(2**h)]
    tree = Tree(exo, variant, h, leaves, nfv)
    vals = [leaves[i] for i in idxs]
    auth = tree.witness(idxs)
    root = tree.root
    if tweak == "other_root":
        root = F(root.v + 1)
    elif tweak == "corrupt" and auth:
        auth[0] = F(auth[0].v + 1)
    elif tweak == "missing" and auth:
        auth = auth[:-1]
    elif tweak == "wrong_value":
        vals[0] = F(vals[0].v + 1)
    cfg = {"height": hx(h), "n_verifier_friendly_commitment_layers": hx(nfv)}
    return {"fn": "vector_commitment_decommit", "commitment": {"config": cfg, "commitment_hash": hx(root.v)},
            "queries": [{"index": hx(i), "value": hx(v.v)} for i, v in zip(idxs, vals)], "witness": {"authentications": [hx(a.v) for a in auth]}}


def ob_c04(kind, variant, heights):
    desc = {
        "bind": "root built from arbitrary leaves, ANY claimed values and ANY authentication vector (length h*k): Ok => every claimed value equals the leaf at its index",
        "complete": "honest values + honest witness => Ok exactly for the built root (Err for any other root; never a panic)",
        "corrupt": "one needed sibling changed, or the last needed sibling missing => Err",
    }[kind]
    ob = obligation("C04S.%s.%s" % (kind, variant), desc, FN_V,
                    "feature %s; heights %s, 1..3 queries at every sorted distinct in-range index set (enumerated), n_friendly symbolic in 0..=h+1, leaves / "
                    "values / witnesses symbolic; tree builder and witness generator written from the statement; hashes collision-free UF" % (variant, list(heights)))
    def body(ob):
        st = Stats()
        w = vworld(variant)
        notes = []
        orc = common.HashOracle(lay(variant))
        r = rng("C04S." + kind)
        try:
            for h in heights:
                n_sets, n_paths = 0, 0
                for idxs in index_sets(h):
                    n_sets += 1
                    modes = {"bind": ["bind"], "complete": ["honest"], "corrupt": None}[kind]
                    if modes is None:
                        ex0, outs0, hold0 = run_vector(w, h, idxs, "honest", variant)
                        modes = [("corrupt", j) for j in range(hold0["n_needed"])] + (["missing"] if hold0["n_needed"] else [])
                    for mode in modes:
                        ex, outs, hold = run_vector(w, h, idxs, mode, variant)
                        n_paths += len(outs)
                        base = ex.base + ex.axioms
                        goals = []
                        for o in outs:
                            if kind == "bind" and o.kind == "ok":
                                goals.append(z3.And(*(o.pc + [z3.Or(*[zi(v) != zi(hold["leaves"][i]) for v, i in zip(hold["vals"], idxs)])])))
                            elif kind == "complete":
                                same = zi(hold["root"]) == zi(hold["built"])
                                if o.kind == "ok":
                                    goals.append(z3.And(*(o.pc + [z3.Not(same)])))
                                else:
                                    goals.append(z3.And(*(o.pc + [same])))
                                    if o.kind != "err":
                                        goals.append(z3.And(*o.pc))
                            elif kind == "corrupt" and o.kind != "err":
                                extra = [zi(hold["root"]) == zi(hold["built"])]
                                if "corrupt" in hold:
                                    extra.append(zi(hold["corrupt"][0]) != zi(hold["corrupt"][1]))
                                goals.append(z3.And(*(o.pc + extra)))
                        if not goals:
                            continue
                        v, model = check(base + [z3.Or(*goals)], st, timeout_s=90, want_model=True, xcheck=False, eval_terms=leaf_terms(hold))
                        if v == "unsat":
                            continue
                        if v != "sat":
                            return finish(ob, "inconclusive", st, detail="h=%d indices %s mode %s undecided" % (h, idxs, mode))
                        # ---- native confirmation with real hashes
                        nfv = mval(model, zi(hold["nf"]))
                        nfv = nfv if isinstance(nfv, int) and 0 <= nfv <= h + 1 else 1
                        tweak = {"bind": "wrong_value", "complete": None, "corrupt": "missing" if mode == "missing" else "corrupt"}[kind]
                        trials = []
                        for nf_try in [nfv] + [x for x in range(0, h + 2) if x != nfv]:
                            req = native_honest(orc, w, variant, h, idxs, nf_try, r, tweak)
                            ans = replay([req], lay(variant))[0]
                            bad = ("ok" not in ans) if kind == "complete" else ("ok" in ans)
                            trials.append((nf_try, str(ans)[:120]))
                            if bad:
                                rep = {"reproduced": True, "request": req, "real_output": ans,
                                       "expected": "Ok" if kind == "complete" else "Err"}
                                what = {"bind": "a claimed value different from the committed leaf is accepted",
                                        "complete": "the honest values and witness are NOT accepted for the built root",
                                        "corrupt": "accepted although %s" % ("the last needed sibling is missing" if mode == "missing" else "a needed sibling was changed")}[kind]
                                return finish(ob, "violated", st, detail="h=%d indices %s n_friendly=%d: %s; real function: %s" % (h, list(idxs), nf_try, what, str(ans)[:160]),
                                              cex={"height": h, "indices": list(idxs), "n_friendly": nf_try, "request": req}, replay_rec=rep)
                        if kind == "complete":
                            # other-root direction
                            req = native_honest(orc, w, variant, h, idxs, nfv, r, "other_root")
                            ans = replay([req], lay(variant))[0]
                            if "ok" in ans:
                                return finish(ob, "violated", st, detail="h=%d indices %s: accepted for a root different from the built one" % (h, list(idxs)),
                                              cex={"request": req}, replay_rec={"reproduced": True, "request": req, "real_output": ans})
                        return finish(ob, "inconclusive", st, detail="solver counterexample at h=%d indices %s mode %s does not reproduce with real hashes (%s)" % (
                            h, list(idxs), mode, trials[:3]))
                notes.append("h=%d: %d index sets, %d paths" % (h, n_sets, n_paths))
            # translator validation / native completeness on seeded honest trees
            reqs, exp = [], []
            for h in heights:
                sets = list(index_sets(h))
                for idxs in [sets[0], sets[len(sets) // 2], sets[-1]]:
                    for nfv in range(0, h + 2):
                        reqs.append(native_honest(orc, w, variant, h, idxs, nfv, r))
                        exp.append(True)
                        reqs.append(native_honest(orc, w, variant, h, idxs, nfv, r, "other_root"))
                        exp.append(False)
            ans = replay(reqs, lay(variant))
            wrong = [(q, a) for q, a, e in zip(reqs, ans, exp) if ("ok" in a) != e]
            if wrong:
                q, a = wrong[0]
                if kind == "complete":
                    return finish(ob, "violated", st, detail="native honest tree (height %s, %d queries) gives %s" % (q["commitment"]["config"]["height"], len(q["queries"]), str(a)[:160]),
                                  cex={"request": q}, replay_rec={"reproduced": True, "request": q, "real_output": a})
                return finish(ob, "inconclusive", st, detail="the statement's tree builder and the real function disagree natively (%d of %d): %s" % (len(wrong), len(reqs), str(wrong[0][1])[:160]))
        finally:
            orc.close()
        return finish(ob, "holds", st, detail="; ".join(notes) + "; %d native honest / other-root instances agree" % len(reqs))
    return guarded(ob, body)


def ob_c04_report(variant):
    ob = obligation("C04S.precondition_report.%s" % variant, "report (no judgement beyond the statement): behaviour on unsorted / duplicate / out-of-range indices",
                    FN_V, "height 2, honest tree with real hashes; the statement's precondition is `sorted, distinct, in range`")
    def body(ob):
        w = vworld(variant)
        orc = common.HashOracle(lay(variant))
        r = rng("C04S.report")
        try:
            out = []
            for label, idxs in (("unsorted [2,1]", (2, 1)), ("duplicate [1,1]", (1, 1)), ("out of range [5]", (5,)), ("out of range [1,4]", (1, 4)), ("reversed siblings [3,2]", (3, 2))):
                exo = Exec(w, hash_oracle=orc)
                leaves = [F(r.randrange(P)) for _ in range(4)]
                tree = Tree(exo, variant, 2, leaves, 1)
                inr = [i for i in idxs if i < 4]
                auth = tree.witness(sorted(set(inr))) if inr else []
                req = {"fn": "vector_commitment_decommit", "commitment": {"config": {"height": "0x2", "n_verifier_friendly_commitment_layers": "0x1"},
                                                                       "commitment_hash": hx(tree.root.v)},
                       "queries": [{"index": hx(i), "value": hx(leaves[i % 4].v)} for i in idxs], "witness": {"authentications": [hx(a.v) for a in auth] + ["0x1", "0x2"]}}
                ans = replay([req], lay(variant))[0]
                out.append("%s -> %s" % (label, "Ok" if "ok" in ans else ("Err(%s)" % ans["err"].split("{")[0].split("(")[0].strip() if "err" in ans else "panic: " + str(ans.get("panic"))[:60])))
        finally:
            orc.close()
        return finish(ob, "holds", None, detail="; ".join(out), solver="- (native observation, informational)")
    return guarded(ob, body)


# =============================================================================================== C05S
MONT = "MONTGOMERY_R"


def mont_const(w):
    ex = Exec(w)
    m = w.mod(sxh.F_TDECOMMIT)
    ex.mod, ex.file = m, m.file
    v = ex.const_value(MONT, 0)
    if not isinstance(v, F):
        raise Unsupported(m.file, 0, "constant MONTGOMERY_R not found")
    return v


def row_hash(ex, tree, cells, mont, friendly):
    """statement: single column unhashed; Poseidon-many of cells*R iff friendly, else masked hash of the concatenated 32-byte encodings"""
    mc = [ex.f_mul(mont, c) for c in cells]
    if len(mc) == 1:
        return mc[0]
    a = lambda: ex.hash_many(mc, 0)
    b = lambda: tree.masked([ByteChunk("felt", x) for x in mc])
    if isinstance(friendly, bool):
        return a() if friendly else b()
    return SF(z3.If(friendly, zi(a()), zi(b())))


def table_commitment(h_, ncols, h, nf, root):
    t = h_.struct(sxh.F_TTYPES, "Commitment", "tc", {})
    sxh.set_path(t, "config.n_columns", ncols)
    sxh.set_path(t, "config.vector.height", F(h))
    sxh.set_path(t, "config.vector.n_verifier_friendly_commitment_layers", nf)
    sxh.set_path(t, "vector_commitment.config", deep_copy(t.fields["config"].fields["vector"]))
    sxh.set_path(t, "vector_commitment.commitment_hash", root)
    return t


def treq(c):
    return {"fn": "table_decommit", "commitment": to_json(c["com"]), "queries": to_json(c["qs"]), "decommitment": to_json(c["dec"]), "witness": to_json(c["wit"])}


def run_table(w, variant, h, idxs, ncols, mode, n_values=None, ncols_symbolic=False):
    """mode 'bind': table of 2^h rows committed by the statement's builder, arbitrary claimed cells / authentications; 'honest': honest cells
    and witness, root symbolic; 'length': everything symbolic, lengths as given"""
    ex = Exec(w, int_bound=8)
    hold = {}
    mont = mont_const(w)
    def entry(ex):
        h_ = H(ex)
        nf = h_.felt("nf")
        ex.assume(zi(nf) <= h + 2)
        k = len(idxs)
        tm = h_.w.mod(sxh.F_TTYPES)
        vm = h_.w.mod(sxh.F_VTYPES)
        if mode == "length":
            nc = h_.felt("n_columns")
            vals = h_.felts("cell", n_values)
            root = h_.felt("root")
            auth = h_.felts("auth", h * max(k, 1))
            hold.update(nc=nc)
        else:
            nc = F(ncols)
            table = [[h_.felt("t%d_%d" % (r_, c_)) for c_ in range(ncols)] for r_ in range(2**h)]
            dummy = Tree(ex, variant, 0, [F(0)], nf)
            rows = [row_hash(ex, dummy, row, mont, zi(nf) >= h + 1) for row in table]
            tree = Tree(ex, variant, h, rows, nf)
            hw = tree.witness(idxs)
            if mode == "bind":
                vals = h_.felts("cell", k * ncols)
                auth = h_.felts("auth", h * k)
                root = tree.root
            else:
                vals = RList([table[i][c_] for i in idxs for c_ in range(ncols)])
                auth = RList(list(hw))
                root = h_.felt("root")
            hold.update(table=table, built=tree.root)
        com = table_commitment(h_, nc, h, nf, root)
        qs = RList([F(i) for i in idxs])
        dec = SStruct("Decommitment", {"values": RList(list(vals))}, tm)
        wit = SStruct("Witness", {"vector": SStruct("Witness", {"authentications": RList(list(auth))}, vm)}, tm)
        hold.update(nf=nf, vals=deep_copy(vals), root=root, com=deep_copy(com), qs=deep_copy(qs), dec=deep_copy(dec), wit=deep_copy(wit))
        return h_.call(sxh.F_TDECOMMIT, "table_decommit", [com, qs, dec, wit])
    outs = ex.explore(entry, max_paths=400, budget_s=120)
    return ex, outs, hold


def native_table(orc, w, variant, h, idxs, ncols, nfv, r, tweak=None):
    exo = Exec(w, hash_oracle=orc)
    mont = mont_const(w)
    table = [[F(r.randrange(P)) for _ in range(ncols)] for _ in range(2**h)]
    dummy = Tree(exo, variant, 0, [F(0)], nfv)
    rows = [row_hash(exo, dummy, row, mont, nfv >= h + 1) for row in table]
    tree = Tree(exo, variant, h, rows, nfv)
    vals = [table[i][c] for i in idxs for c in range(ncols)]
    if tweak == "swap_columns" and ncols >= 2:
        vals[0], vals[1] = vals[1], vals[0]
    elif tweak == "swap_rows" and len(idxs) >= 2:
        vals[0], vals[ncols] = vals[ncols], vals[0]
    elif tweak == "wrong_cell":
        vals[-1] = F(vals[-1].v + 1)
    vc = {"height": hx(h), "n_verifier_friendly_commitment_layers": hx(nfv)}
    return {"fn": "table_decommit", "commitment": {"config": {"n_columns": hx(ncols), "vector": vc}, "vector_commitment": {"config": dict(vc), "commitment_hash": hx(tree.root.v)}},
            "queries": [hx(i) for i in idxs], "decommitment": {"values": [hx(v.v) for v in vals]}, "witness": {"vector": {"authentications": [hx(a.v) for a in tree.witness(idxs)]}}}


def ob_c05_row(variant, max_cols):
    ob = obligation("C05S.row.%s" % variant, "vector height 0: table_decommit is Ok <=> root == row hash of cells*MONTGOMERY_R (single column unhashed; Poseidon-many iff "
                    "n_friendly >= 1, else the masked hash of the concatenated 32-byte encodings); a row differing in any cell from the committed one is rejected",
                    FN_T, "feature %s; n_columns in 1..=%d; cells, root, n_friendly symbolic; x -> x*R injective (field law on the constant-multiplication UF)" % (variant, max_cols))
    def body(ob):
        st = Stats()
        w = vworld(variant)
        orc = common.HashOracle(lay(variant))
        r = rng("C05S.row")
        notes = []
        try:
            for nc in range(1, max_cols + 1):
                # (i) exactness: honest cells, symbolic root
                ex, outs, hold = run_table(w, variant, 0, (0,), nc, "honest")
                same = zi(hold["root"]) == zi(hold["built"])
                goals = []
                for o in outs:
                    goals.append(z3.And(*(o.pc + [z3.Not(same) if o.kind == "ok" else same])))
                    if o.kind not in ("ok", "err"):
                        goals.append(z3.And(*o.pc))
                v1, m1 = check(ex.base + ex.axioms + [z3.Or(*goals)], st, timeout_s=60, xcheck=False)
                # (ii) binding: arbitrary claimed cells against the built root
                ex2, outs2, hold2 = run_table(w, variant, 0, (0,), nc, "bind")
                g2 = [z3.And(*(o.pc + [z3.Or(*[zi(v) != zi(t) for v, t in zip(hold2["vals"], hold2["table"][0])])])) for o in outs2 if o.kind == "ok"]
                v2 = "unsat"
                if g2:
                    v2, m2 = check(ex2.base + ex2.axioms + [z3.Or(*g2)], st, timeout_s=60, xcheck=False)
                notes.append("n_columns=%d: exact %s, bind %s" % (nc, v1, v2))
                if v1 == "unsat" and v2 == "unsat":
                    continue
                if "inconclusive" in (v1, v2):
                    return finish(ob, "inconclusive", st, detail="; ".join(notes))
                for nfv in (0, 1, 2):
                    for tweak, want_ok in ((None, True), ("wrong_cell", False), ("swap_columns", False)):
                        if tweak == "swap_columns" and nc < 2:
                            continue
                        req = native_table(orc, w, variant, 0, (0,), nc, nfv, r, tweak)
                        ans = replay([req], lay(variant))[0]
                        if ("ok" in ans) != want_ok:
                            rep = {"reproduced": True, "request": req, "real_output": ans, "expected": "Ok" if want_ok else "Err"}
                            return finish(ob, "violated", st, detail="n_columns=%d n_friendly=%d %s: real function gives %s" % (nc, nfv, tweak or "honest row", str(ans)[:140]),
                                          cex={"n_columns": nc, "request": req}, replay_rec=rep)
                return finish(ob, "inconclusive", st, detail="solver counterexample does not reproduce with real hashes; " + "; ".join(notes))
            reqs, exp = [], []
            for nc in range(1, max_cols + 1):
                for nfv in (0, 1):
                    for tweak, want_ok in ((None, True), ("wrong_cell", False)):
                        reqs.append(native_table(orc, w, variant, 0, (0,), nc, nfv, r, tweak))
                        exp.append(want_ok)
            ans = replay(reqs, lay(variant))
            wrong = [(q, a) for q, a, e in zip(reqs, ans, exp) if ("ok" in a) != e]
            if wrong:
                return finish(ob, "inconclusive", st, detail="statement's row hash and the real function disagree natively: %s" % str(wrong[0][1])[:200])
        finally:
            orc.close()
        return finish(ob, "holds", st, detail="; ".join(notes) + "; %d native rows (honest / one cell changed) agree" % len(reqs))
    return guarded(ob, body)


def ob_c05_length(variant):
    ob = obligation("C05S.length.%s" % variant, "values.len() != n_columns * n_queries => Err(DecommitmentLength) (n_columns that do not fit u32 => Err(TryFromBigInt)); "
                    "never a panic, never a later error or Ok", FN_T,
                    "n_columns a symbolic felt (incl. 0 and >= 2^32), 0..2 queries, values.len() in 0..=4, height 0 and 1")
    def body(ob):
        st = Stats()
        w = vworld(variant)
        notes = []
        for h in (0, 1):
            for idxs in ((), (0,), (0, 1)) if h == 1 else ((), (0,)):
                for nv in range(0, 5):
                    ex, outs, hold = run_table(w, variant, h, idxs, None, "length", n_values=nv)
                    nc = zi(hold["nc"])
                    mismatch = z3.And(nc < 2**32, nc * len(idxs) != nv)
                    goals = []
                    for o in outs:
                        chain = o.value.chain() if (o.kind == "err" and isinstance(o.value, EnumV)) else []
                        is_len = o.kind == "err" and chain[:1] == ["DecommitmentLength"]
                        is_conv = o.kind == "err" and chain[:1] == ["TryFromBigInt"]
                        if not is_len:
                            goals.append((o, z3.And(*(o.pc + [mismatch]))))
                        if not is_conv:
                            goals.append((o, z3.And(*(o.pc + [nc >= 2**32]))))
                    if not goals:
                        continue
                    v, model = check(ex.base + ex.axioms + [z3.Or(*[g for _, g in goals])], st, timeout_s=60, want_model=True, xcheck=False, eval_terms=leaf_terms(hold))
                    if v == "unsat":
                        continue
                    if v != "sat":
                        return finish(ob, "inconclusive", st, detail="h=%d queries=%d values=%d undecided" % (h, len(idxs), nv))
                    c = concretize(hold, model)
                    req = treq(c)
                    ans = replay([req], lay(variant))[0]
                    ncv = c["nc"].v
                    want = "TryFromBigInt" if ncv >= 2**32 else ("DecommitmentLength" if ncv * len(idxs) != nv else None)
                    got = ans.get("err", "ok" if "ok" in ans else "panic")
                    rep = {"reproduced": want is not None and not str(got).startswith(want),
                           "request": req, "real_output": ans, "expected": "Err(%s)" % want if want else "no length error"}
                    return finish(ob, "violated" if rep["reproduced"] else "inconclusive", st,
                                  detail="n_columns=%d, %d queries, %d values: real function gives %s, expected %s" % (ncv, len(idxs), nv, str(ans)[:120], rep["expected"]),
                                  cex={"n_columns": ncv, "n_queries": len(idxs), "n_values": nv, "request": req}, replay_rec=rep)
                notes.append("h=%d q=%d ok" % (h, len(idxs)))
        return finish(ob, "holds", st, detail="; ".join(notes))
    return guarded(ob, body)


def ob_c05_delegate(variant, heights):
    ob = obligation("C05S.delegate.%s" % variant, "height 1-2, two queried rows: table_decommit against the root of the statement's tree over the row hashes is Ok only if "
                    "every claimed cell is the committed one in its row and column (moved / swapped cells rejected); honest cells + honest witness are accepted "
                    "exactly for that root", FN_T, "feature %s; heights %s, n_columns in {1,2}, all index pairs, n_friendly symbolic; table contents symbolic" % (variant, list(heights)))
    def body(ob):
        st = Stats()
        w = vworld(variant)
        orc = common.HashOracle(lay(variant))
        r = rng("C05S.delegate")
        notes = []
        try:
            for h in heights:
                for nc in (1, 2):
                    for idxs in itertools.combinations(range(2**h), 2):
                        ex, outs, hold = run_table(w, variant, h, idxs, nc, "bind")
                        committed = [hold["table"][i][c] for i in idxs for c in range(nc)]
                        g = [z3.And(*(o.pc + [z3.Or(*[zi(v) != zi(t) for v, t in zip(hold["vals"], committed)])])) for o in outs if o.kind == "ok"]
                        v1 = "unsat"
                        if g:
                            v1, _ = check(ex.base + ex.axioms + [z3.Or(*g)], st, timeout_s=90, xcheck=False)
                        ex2, outs2, hold2 = run_table(w, variant, h, idxs, nc, "honest")
                        same = zi(hold2["root"]) == zi(hold2["built"])
                        g2 = []
                        for o in outs2:
                            g2.append(z3.And(*(o.pc + [z3.Not(same) if o.kind == "ok" else same])))
                            if o.kind not in ("ok", "err"):
                                g2.append(z3.And(*o.pc))
                        v2, _ = check(ex2.base + ex2.axioms + [z3.Or(*g2)], st, timeout_s=90, xcheck=False)
                        if v1 == "unsat" and v2 == "unsat":
                            continue
                        if "inconclusive" in (v1, v2):
                            return finish(ob, "inconclusive", st, detail="h=%d n_columns=%d rows %s undecided (%s, %s)" % (h, nc, idxs, v1, v2))
                        for nfv in range(0, h + 3):
                            for tweak, want_ok in ((None, True), ("wrong_cell", False), ("swap_rows", False), ("swap_columns", False)):
                                if tweak == "swap_columns" and nc < 2:
                                    continue
                                req = native_table(orc, w, variant, h, idxs, nc, nfv, r, tweak)
                                ans = replay([req], lay(variant))[0]
                                if ("ok" in ans) != want_ok:
                                    rep = {"reproduced": True, "request": req, "real_output": ans, "expected": "Ok" if want_ok else "Err"}
                                    return finish(ob, "violated", st, detail="h=%d n_columns=%d rows %s n_friendly=%d %s: real function gives %s" % (
                                        h, nc, list(idxs), nfv, tweak or "honest", str(ans)[:140]), cex={"request": req}, replay_rec=rep)
                        return finish(ob, "inconclusive", st, detail="solver counterexample (h=%d, n_columns=%d, rows %s: bind %s, exact %s) does not reproduce natively" % (h, nc, idxs, v1, v2))
                    notes.append("h=%d n_columns=%d: %d row pairs" % (h, nc, len(list(itertools.combinations(range(2**h), 2)))))
            reqs, exp = [], []
            for h in heights:
                for nfv in range(0, h + 3):
                    for tweak, want_ok in ((None, True), ("swap_rows", False), ("swap_columns", False), ("wrong_cell", False)):
                        reqs.append(native_table(orc, w, variant, h, (0, 2**h - 1), 2, nfv, r, tweak))
                        exp.append(want_ok)
            ans = replay(reqs, lay(variant))
            wrong = [(q, a) for q, a, e in zip(reqs, ans, exp) if ("ok" in a) != e]
            if wrong:
                q, a = wrong[0]
                return finish(ob, "violated", st, detail="native table instance: real function gives %s" % str(a)[:160], cex={"request": q},
                              replay_rec={"reproduced": True, "request": q, "real_output": a})
        finally:
            orc.close()
        return finish(ob, "holds", st, detail="; ".join(notes) + "; %d native instances (honest / swapped rows / swapped columns / changed cell) agree" % len(reqs))
    return guarded(ob, body)


def run(prop, tier, variants=None):
    if variants is None:
        variants = ["keccak_160_lsb"] if tier == "quick" else list(VARIANTS)
    obs = []
    for v in variants:
        if v not in VARIANTS:
            raise SystemExit("unknown hash variant %s (choose from %s)" % (v, ", ".join(VARIANTS)))
        if prop == "C04S":
            hs = (1, 2, 3)      # height 4 was tried for the thorough tier: no verdict for one hash variant in 65 min
            obs += [ob_c04("bind", v, hs), ob_c04("complete", v, hs), ob_c04("corrupt", v, hs if tier == "thorough" else (1, 2)), ob_c04_report(v)]
        else:
            obs += [ob_c05_row(v, 4 if tier == "quick" else 16), ob_c05_length(v), ob_c05_delegate(v, (1, 2))]
    return {"property": prop, "tier": tier, "engine": "felt-sx", "assumptions": ASSUMPTIONS, "obligations": obs,
            "outside": ["heights above 3", "more than 3 queries (C04S) / 2 queried rows (C05S delegate)",
                        "hash collisions (the UF families are collision-free by assumption)"]}
