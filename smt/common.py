"""Shared plumbing of engine E2: repo location, solver wrapper (verdict discipline), native
replay driver, obligation records."""
import hashlib
import json
import os
import random
import re
import shutil
import subprocess
import sys
import tempfile
import time

import z3

P = 2**251 + 17 * 2**192 + 1
REPO = os.path.abspath(os.environ.get("VERIF_REPO", "/repo"))
VERIF = os.path.dirname(os.path.dirname(os.path.abspath(__file__)))
SEED = int(os.environ.get("VERIF_SEED", "0") or 0)
XCHECK = os.environ.get("VERIF_XCHECK", "1") != "0"      # cross-check unsat verdicts with the binaries
Z3_BIN = "/usr/bin/z3"
CVC5_BIN = shutil.which("cvc5") or "cvc5"
RETRY = os.environ.get("VERIF_RETRY", "1") != "0"
XCHECK_S = float(os.environ.get("VERIF_XCHECK_S", "5"))      # time limit of each cross-checking binary

QUICK_LAYOUTS = ["dex", "recursive", "recursive_with_poseidon", "small", "starknet"]
ALL_LAYOUTS = QUICK_LAYOUTS + ["starknet_with_keccak", "dynamic"]


def repo_path(rel):
    return os.path.join(REPO, rel)


def rng(tag):
    return random.Random("%d/%s" % (SEED, tag))


def hx(v):
    return "%#x" % (v % P)


def inv(v):
    v %= P
    if v == 0:
        raise ZeroDivisionError("inverse of 0 mod p")
    return pow(v, P - 2, P)


def bin_version(cmd):
    try:
        out = subprocess.run(cmd, capture_output=True, text=True, timeout=20).stdout
        m = re.search(r"(\d+\.\d+\.\d+)", out)
        return m.group(1) if m else "?"
    except Exception:
        return "?"

_versions = {}
def solver_versions():
    if not _versions:
        _versions["z3py"] = z3.get_version_string()
        _versions["z3bin"] = bin_version([Z3_BIN, "--version"])
        _versions["cvc5"] = bin_version([CVC5_BIN, "--version"])
    return _versions


# --------------------------------------------------------------------------- solver wrapper
class Stats(object):
    def __init__(self):
        self.queries = 0
        self.seconds = 0.0
        self.xchecks = 0
        self.notes = []


def _run_bin(cmd, text, timeout_s):
    """returns 'sat' | 'unsat' | 'unknown' | 'error' | 'timeout'"""
    with tempfile.NamedTemporaryFile("w", suffix=".smt2", delete=False) as f:
        f.write(text)
        name = f.name
    try:
        r = subprocess.run(cmd + [name], capture_output=True, text=True, timeout=timeout_s + 5)
        out = (r.stdout or "") + (r.stderr or "")
        if "(error" in out or "error" in (r.stderr or "").lower():
            return "error"
        first = (r.stdout or "").strip().split("\n")[0].strip() if r.stdout.strip() else ""
        if first in ("sat", "unsat", "unknown"):
            return first
        if "timeout" in out:
            return "timeout"
        return "error"
    except subprocess.TimeoutExpired:
        return "timeout"
    finally:
        os.unlink(name)


class ModelProxy(object):
    """model values shipped back from the forked solver process: {constant name: z3 value}"""
    def __init__(self, raw):
        self.vals = {}
        for name, v in raw.items():
            if v[0] == "int":
                self.vals[name] = z3.IntVal(v[1])
            elif v[0] == "real":
                self.vals[name] = z3.RatVal(v[1], v[2])
            elif v[0] == "bv":
                self.vals[name] = z3.BitVecVal(v[1], v[2])
            elif v[0] == "bool":
                self.vals[name] = z3.BoolVal(v[1])
            else:
                self.vals[name] = None          # algebraic number etc.: not representable as a rational
    def __getitem__(self, const):
        return self.vals.get(const.decl().name())
    def eval(self, expr, model_completion=True):
        if z3.is_const(expr) and expr.decl().kind() == z3.Z3_OP_UNINTERPRETED:
            v = self.vals.get(expr.decl().name())
            if v is None and model_completion and expr.decl().name() not in self.vals:
                srt = expr.sort()
                if srt == z3.IntSort(): return z3.IntVal(0)
                if srt == z3.RealSort(): return z3.RatVal(0, 1)
                if z3.is_bv_sort(srt): return z3.BitVecVal(0, srt.size())
            return v
        subs = []
        for c in _consts_of(expr):
            v = self.eval(c, model_completion)
            if v is None:
                return None
            subs.append((c, v))
        return z3.simplify(z3.substitute(expr, *subs)) if subs else z3.simplify(expr)


def _consts_of(expr):
    seen, out, stack = set(), [], [expr]
    while stack:
        e = stack.pop()
        if e.get_id() in seen:
            continue
        seen.add(e.get_id())
        if z3.is_const(e) and e.decl().kind() == z3.Z3_OP_UNINTERPRETED:
            out.append(e)
        else:
            stack.extend(e.children())
    return out


def _child_solve(assertions, timeout_s, want_model, logic, wfd, attempt=0, eval_terms=None):
    import pickle
    out = {"verdict": "inconclusive", "note": None, "model": None, "extra": None}
    try:
        if attempt:
            ctx2 = z3.Context()
            assertions = [a.translate(ctx2) for a in reversed(assertions)]
            if eval_terms:
                eval_terms = [t.translate(ctx2) for t in eval_terms]
            s = z3.Solver(ctx=ctx2) if logic is None else z3.SolverFor(logic, ctx=ctx2)
            s.set("random_seed", 7 * attempt)
        else:
            s = z3.Solver() if logic is None else z3.SolverFor(logic)
        s.set("timeout", int(timeout_s * 1000))
        for a in assertions:
            s.add(a)
        r = s.check()
        if r == z3.sat:
            out["verdict"] = "sat"
            if want_model:
                m, vals = s.model(), {}
                for d in m.decls():
                    if d.arity() != 0:
                        continue
                    v = m[d]
                    if z3.is_int_value(v): vals[d.name()] = ("int", v.as_long())
                    elif z3.is_rational_value(v): vals[d.name()] = ("real", v.numerator_as_long(), v.denominator_as_long())
                    elif z3.is_bv_value(v): vals[d.name()] = ("bv", v.as_long(), v.size())
                    elif z3.is_true(v) or z3.is_false(v): vals[d.name()] = ("bool", z3.is_true(v))
                    else: vals[d.name()] = ("other", str(v)[:80])
                out["model"] = vals
                if eval_terms:
                    ex = []
                    for t in eval_terms:
                        v = m.eval(t, True)
                        if z3.is_int_value(v): ex.append(v.as_long())
                        elif z3.is_true(v) or z3.is_false(v): ex.append(z3.is_true(v))
                        else: ex.append(None)
                    out["extra"] = ex
        elif r == z3.unsat:
            out["verdict"] = "unsat"
        else:
            out["note"] = "z3: %s (%s)" % (r, s.reason_unknown())
    except z3.Z3Exception as ex:
        out["note"] = "z3 exception: %s" % ex
    except BaseException as ex:        # noqa
        out["note"] = "solver process error: %r" % (ex,)
    try:
        data = pickle.dumps(out)
        os.write(wfd, len(data).to_bytes(8, "little"))
        off = 0
        while off < len(data):
            off += os.write(wfd, data[off:off + 65536])
    finally:
        os._exit(0)


def _forked_solve(assertions, timeout_s, want_model, logic, attempt=0, eval_terms=None):
    """z3py in a forked child with a HARD wall-clock limit (z3's own timeout is cooperative and some nlsat steps ignore it)"""
    import pickle
    import select
    import signal
    rfd, wfd = os.pipe()
    pid = os.fork()
    if pid == 0:
        os.close(rfd)
        _child_solve(assertions, timeout_s, want_model, logic, wfd, attempt, eval_terms)
        os._exit(0)
    os.close(wfd)
    deadline = time.time() + timeout_s + 5
    buf = b""
    need = None
    result = None
    try:
        while True:
            left = deadline - time.time()
            if left <= 0:
                break
            rd, _, _ = select.select([rfd], [], [], min(left, 1.0))
            if not rd:
                continue
            chunk = os.read(rfd, 1 << 20)
            if not chunk:
                break
            buf += chunk
            if need is None and len(buf) >= 8:
                need = int.from_bytes(buf[:8], "little")
            if need is not None and len(buf) >= 8 + need:
                result = pickle.loads(buf[8:8 + need])
                break
    finally:
        os.close(rfd)
        try:
            os.kill(pid, signal.SIGKILL)
        except OSError:
            pass
        try:
            os.waitpid(pid, 0)
        except OSError:
            pass
    if result is None:
        return {"verdict": "inconclusive", "note": "hard timeout after %ds (solver process killed)" % int(timeout_s + 5), "model": None}
    return result


def check(assertions, stats, timeout_s=60, want_model=False, xcheck=None, logic=None, eval_terms=None):
    """Decide the conjunction of `assertions`.

    returns (verdict, model) with verdict in 'sat' | 'unsat' | 'inconclusive'.
    'inconclusive' covers unknown, timeout (cooperative or hard), solver exceptions, any `(error`, and a
    disagreement between the deciding solver (z3py) and the cross-checking binaries."""
    t0 = time.time()
    assertions = list(assertions)
    eval_terms = list(eval_terms) if eval_terms else None
    res = _forked_solve(assertions, timeout_s, want_model, logic, 0, eval_terms)
    if res["verdict"] == "inconclusive" and RETRY:
        # z3's nlsat is sensitive to term numbering; one retry in a fresh context with other seeds
        first = res["note"]
        res = _forked_solve(assertions, timeout_s, want_model, logic, 1, eval_terms)
        if res["verdict"] != "inconclusive":
            stats.notes.append("first attempt gave no verdict (%s); retry in a fresh context decided" % first)
        elif first and not res["note"]:
            res["note"] = first
    verdict = res["verdict"]
    if res["note"]:
        stats.notes.append(res["note"])
    model = ModelProxy(res["model"]) if (verdict == "sat" and want_model and res["model"] is not None) else None
    if model is not None:
        model.extra = {}
        if eval_terms and res.get("extra"):
            for t, v in zip(eval_terms, res["extra"]):
                model.extra[t.get_id()] = v
            model._keep = eval_terms
    stats.queries += 1
    stats.seconds += time.time() - t0
    do_x = XCHECK if xcheck is None else xcheck
    if do_x and verdict in ("sat", "unsat"):
        try:
            s = z3.Solver() if logic is None else z3.SolverFor(logic)
            for a in assertions:
                s.add(a)
            text = s.to_smt2()
        except z3.Z3Exception as ex:
            stats.notes.append("to_smt2 failed: %s" % ex)
            return "inconclusive", None
        if len(text) < 4_000_000:
            t1 = time.time()
            xt = min(timeout_s, XCHECK_S)
            ct = min(timeout_s, XCHECK_S)
            jobs = {"z3-" + solver_versions()["z3bin"]: ([Z3_BIN, "-smt2", "-T:%d" % int(xt)], text, xt)}
            if os.environ.get("VERIF_XCHECK_CVC5", "1") != "0":
                lg = "(set-logic ALL)\n"
                jobs["cvc5-" + solver_versions()["cvc5"]] = (
                    [CVC5_BIN, "--tlimit=%d" % int(ct * 1000)], lg + re.sub(r"\(set-info[^\n]*\n", "", text), ct)
            from concurrent.futures import ThreadPoolExecutor
            with ThreadPoolExecutor(max_workers=2) as ex:
                futs = dict((who, ex.submit(_run_bin, *job)) for who, job in jobs.items())
                answers = dict((who, f.result()) for who, f in futs.items())
            stats.seconds += time.time() - t1
            stats.xchecks += 1
            for who, ans in answers.items():
                if ans in ("sat", "unsat") and ans != verdict:
                    stats.notes.append("DISAGREEMENT: z3py=%s %s=%s" % (verdict, who, ans))
                    return "inconclusive", None
                if ans == "error" and who.startswith("z3-"):
                    stats.notes.append("cross-check %s printed (error" % who)
                    return "inconclusive", None
                if ans not in ("sat", "unsat"):
                    note = "cross-check %s: %s" % (who, ans)
                    if note not in stats.notes:
                        stats.notes.append(note)
    return verdict, model


def model_value_to_fp(val):
    """z3 model value (rational) -> residue mod p, or None if it is not a rational / has a
    denominator divisible by p."""
    if val is None:
        return None
    try:
        if z3.is_int_value(val):
            return val.as_long() % P
        if z3.is_rational_value(val):
            n, d = val.numerator_as_long(), val.denominator_as_long()
            if d % P == 0:
                return None
            return n * inv(d) % P
    except Exception:
        return None
    return None


# --------------------------------------------------------------------------- native replay
class ReplayUnavailable(Exception):
    pass

_replay_bins = {}

def _crate_dir_for_repo():
    """/verif/replay_e2 links /repo; for another VERIF_REPO a scratch copy with rewritten
    path dependencies is generated under /verif/.build."""
    src = os.path.join(VERIF, "replay_e2")
    if REPO == "/repo":
        return src, os.path.join(VERIF, ".build", "replay_e2")
    tag = hashlib.sha1(REPO.encode()).hexdigest()[:10]
    base = os.path.join(VERIF, ".build", "replay_e2_alt", tag)
    crate = os.path.join(base, "crate")
    os.makedirs(os.path.join(crate, "src"), exist_ok=True)
    toml = open(os.path.join(src, "Cargo.toml")).read().replace('"/repo/crates/', '"%s/crates/' % REPO)
    open(os.path.join(crate, "Cargo.toml"), "w").write(toml)
    for f in os.listdir(os.path.join(src, "src")):
        if f.endswith(".rs"):
            shutil.copy(os.path.join(src, "src", f), os.path.join(crate, "src", f))
    lock = os.path.join(REPO, "Cargo.lock")
    shutil.copy(lock if os.path.exists(lock) else os.path.join(src, "Cargo.lock"), os.path.join(crate, "Cargo.lock"))
    return crate, os.path.join(base, "target")


def replay_binary(layouts=()):
    """Build (cached by cargo) the replay binary with the given layout features; returns its path."""
    feats = ",".join(sorted(layouts))
    if feats in _replay_bins:
        return _replay_bins[feats]
    crate, target = _crate_dir_for_repo()
    lock_src = os.path.join(REPO, "Cargo.lock")
    if REPO == "/repo" and os.path.exists(lock_src):
        # keep the copy next to Cargo.toml in sync with the repository's lock file
        dst = os.path.join(crate, "Cargo.lock")
        try:
            if not os.path.exists(dst):
                shutil.copy(lock_src, dst)
        except OSError:
            pass
    env = dict(os.environ, RUSTUP_TOOLCHAIN="1.82.0", CARGO_NET_OFFLINE="true")
    cmd = ["cargo", "build", "--offline", "--target-dir", target, "--manifest-path", os.path.join(crate, "Cargo.toml")]
    # explicit feature set: layouts + exactly one Stone version + exactly one commitment hash variant
    HASHV = ("keccak_160_lsb", "keccak_248_lsb", "blake2s_160_lsb", "blake2s_248_lsb")
    fl = [f for f in sorted(layouts)]
    if "stone6" not in fl and "stone5" not in fl:
        fl.append("stone5")
    if not any(h in fl for h in HASHV):
        fl.append("keccak_160_lsb")
    cmd += ["--no-default-features", "--features", ",".join(fl)]
    t0 = time.time()
    try:
        r = subprocess.run(cmd, capture_output=True, text=True, env=env, timeout=1500)
    except subprocess.TimeoutExpired:
        raise ReplayUnavailable("cargo build timed out")
    if r.returncode != 0:
        raise ReplayUnavailable("cargo build failed:\n" + r.stderr[-3000:])
    built = os.path.join(target, "debug", "replay_e2")
    bindir = os.path.join(target, "bin")
    os.makedirs(bindir, exist_ok=True)
    out = os.path.join(bindir, "replay_e2-" + (hashlib.sha1(feats.encode()).hexdigest()[:8] if feats else "base"))
    tmp = out + ".tmp%d" % os.getpid()
    shutil.copy2(built, tmp)
    os.replace(tmp, out)
    _replay_bins[feats] = out
    return out


def replay(requests, layouts=(), timeout_s=300):
    """Evaluate the real Rust functions.  `requests` is a list of request dicts; returns the
    list of answers ({"ok":..} | {"err":..} | {"panic":..} | {"bad_request":..})."""
    binary = replay_binary(layouts)
    try:
        r = subprocess.run([binary], input=json.dumps(requests), capture_output=True, text=True, timeout=timeout_s)
    except subprocess.TimeoutExpired:
        raise ReplayUnavailable("replay binary timed out after %ds" % timeout_s)
    if r.returncode != 0:
        raise ReplayUnavailable("replay binary failed (exit %d): %s" % (r.returncode, (r.stderr or r.stdout)[-2000:]))
    try:
        out = json.loads(r.stdout)
    except ValueError:
        raise ReplayUnavailable("replay binary printed non-JSON: %r" % r.stdout[:500])
    if not isinstance(out, list) or len(out) != len(requests):
        raise ReplayUnavailable("replay answer shape mismatch")
    return out


class HashOracle(object):
    """real Poseidon / Pedersen / Keccak / Blake2s through `replay_e2 --serve` (concrete runs of the felt-sx executor)"""
    def __init__(self, layouts=()):
        self.binary = replay_binary(layouts)
        self.proc = subprocess.Popen([self.binary, "--serve"], stdin=subprocess.PIPE, stdout=subprocess.PIPE, text=True, bufsize=1)
        self.calls = 0
        self.cache = {}
    def ask(self, req):
        key = json.dumps(req, sort_keys=True)
        if key in self.cache:
            return self.cache[key]
        self.proc.stdin.write(key + "\n")
        self.proc.stdin.flush()
        line = self.proc.stdout.readline()
        if not line:
            raise ReplayUnavailable("hash oracle process died")
        ans = json.loads(line)
        self.calls += 1
        if "ok" not in ans:
            raise ReplayUnavailable("hash oracle: %s" % ans)
        self.cache[key] = ans["ok"]
        return ans["ok"]
    def hash2(self, family, a, b):
        fn = {"poseidon2": "poseidon_hash", "pedersen": "pedersen_hash"}[family]
        return int(self.ask({"fn": fn, "a": hx(a), "b": hx(b)}), 16)
    def hash_many(self, vals):
        return int(self.ask({"fn": "poseidon_hash_many", "values": [hx(v) for v in vals]}), 16)
    def digest(self, family, raw):
        fn = {"keccak": "keccak256", "blake2s": "blake2s256"}[family]
        return bytes.fromhex(self.ask({"fn": fn, "bytes": raw.hex()}))
    def close(self):
        try:
            self.proc.stdin.close()
            self.proc.wait(timeout=5)
        except Exception:
            self.proc.kill()


def ok_int(ans):
    """{"ok": "0x.."} -> int, else None"""
    if isinstance(ans, dict) and isinstance(ans.get("ok"), str):
        return int(ans["ok"], 16)
    return None


# --------------------------------------------------------------------------- obligations
def obligation(oid, desc, functions, bounds):
    return {"id": oid, "desc": desc, "functions": list(functions), "bounds": bounds,
            "verdict": "inconclusive", "solver": None, "queries": 0, "solver_s": 0.0,
            "detail": "", "cex": None, "replay": None}


def finish(ob, verdict, stats, detail="", cex=None, replay_rec=None, solver=None):
    v = solver_versions()
    ob["verdict"] = verdict
    if solver is None:
        solver = "z3 %s (python API)" % v["z3py"]
        if stats is not None and stats.xchecks:
            solver += "; unsat/sat verdicts cross-checked with z3 %s and cvc5 %s binaries" % (v["z3bin"], v["cvc5"])
    ob["solver"] = solver
    if stats is not None:
        ob["queries"] = stats.queries
        ob["solver_s"] = round(stats.seconds, 3)
        notes = "; ".join(stats.notes[:8])
        if notes:
            detail = (detail + " | " if detail else "") + "solver notes: " + notes
    ob["detail"] = detail
    ob["cex"] = cex
    ob["replay"] = replay_rec
    return ob


def rel(path):
    """path relative to the repository root (for the `functions` lists)"""
    path = os.path.abspath(path)
    return os.path.relpath(path, REPO) if path.startswith(REPO) else path


def guarded(ob, fn):
    """Run fn(ob) turning parser/executor failures into an inconclusive verdict."""
    from rsparse import Unsupported
    from symex import LoopBound, RustPanic
    try:
        return fn(ob)
    except Unsupported as u:
        return finish(ob, "inconclusive", None, detail="source left the parsed subset: %s" % u, solver="-")
    except LoopBound as l:
        return finish(ob, "inconclusive", None, detail="loop bound: %s" % l, solver="-")
    except RustPanic as p:
        return finish(ob, "inconclusive", None, detail="symbolic execution reached a panic: %s" % p, solver="-")
    except ReplayUnavailable as r:
        return finish(ob, "inconclusive", None, detail="native replay unavailable: %s" % r, solver="-")
    except FileNotFoundError as f:
        return finish(ob, "inconclusive", None, detail="source file missing: %s" % f, solver="-")
