"""C14 - public-input validation is exact; program / output hashes follow the memory layout (felt-sx executor)."""
import time

import z3

import common
from common import Stats, check, finish, guarded, obligation, replay, hx, rng, P
from rsparse import Unsupported
from symex import F, RList, ResultV
from sx import Exec, ASSUMPTIONS
from sxlib import Builder, concretize, to_json, random_fill, mval, outcome_label, native_label, same_outcome
from sxval import SF, SI, SStruct, EnumV, zi
from sxworld import World, DEFAULT_FEATURES

STATIC_LAYOUTS = ["recursive", "dex", "recursive_with_poseidon", "small", "starknet", "starknet_with_keccak"]
# memory cells per builtin instance (Cairo builtin definitions; NOT read from the validation code)
CELLS = {"PEDERSEN": 3, "RANGE_CHECK": 1, "ECDSA": 2, "BITWISE": 5, "EC_OP": 7, "KECCAK": 16, "POSEIDON": 6,
         "RANGE_CHECK96": 1, "ADD_MOD": 7, "MUL_MOD": 7}
NON_BUILTIN = ("PROGRAM", "EXECUTION", "OUTPUT", "N_SEGMENTS")
DOMAINS = "crates/air/src/domains.rs"
PUBMEM = "crates/air/src/public_memory.rs"
T_MAX = 120


def layout_world(layout):
    feats = (DEFAULT_FEATURES - {"recursive"}) | {layout}
    return World(layout=layout, features=feats)


def layout_consts(w):
    """integer constants of the layout's mod.rs (top level and `segments::`)"""
    ex = Exec(w)
    ex.mod, ex.file = w.layout_mod, w.layout_mod.file
    out = {}
    for name in w.layout_mod.consts:
        if name.startswith("tests::"):
            continue
        try:
            v = ex.eval(w.layout_mod.consts[name], [{}])
        except Unsupported:
            continue
        if isinstance(v, int) and not isinstance(v, bool):
            out[name] = v
        elif isinstance(v, F):
            out[name] = v.v
    return out


def builtin_table(consts):
    """[(builtin name, segment index, cells per instance, row ratio)] from the layout's parsed constants"""
    tab = []
    for name, idx in sorted(consts.items()):
        if not name.startswith("segments::"):
            continue
        b = name.split("::")[1]
        if b in NON_BUILTIN:
            continue
        if b not in CELLS:
            raise Unsupported("?", 0, "builtin segment %s has no known instance size" % b)
        ratio = consts.get(b + "_BUILTIN_ROW_RATIO", consts.get(b + "_ROW_RATIO"))
        if ratio is None:
            raise Unsupported("?", 0, "no ROW_RATIO constant for builtin %s" % b)
        tab.append((b, idx, CELLS[b], ratio))
    return tab


def build_validate_inputs(ex, w, n_segments):
    b = Builder(ex)
    pm = w.mod(PUBMEM)
    pi = b.struct(pm, "PublicInput", "pi", {"pi.segments": n_segments, "pi.main_page": 0, "pi.continuous_page_headers": 0})
    dm = w.mod(DOMAINS)
    sd = b.struct(dm, "StarkDomains", "sd", {})
    t = b.integer("t", hi=T_MAX)
    ex.assume(zi(sd.fields["trace_domain_size"]) == zi(ex.f_pow(F(2), t, 0)))
    ex.assume(zi(sd.fields["log_trace_domain_size"]) == t.t)
    return b, pi, sd, t


def spec_validate(ex, consts, tab, pi, sd, n_segments, with_output, reading="felt"):
    """the statement's predicate over the integers.  reading: 'felt' = usage is (stop - begin) mod p; 'int' = additionally begin <= stop"""
    tl = zi(sd.fields["trace_domain_size"])
    lg = zi(pi.fields["log_n_steps"])
    cl = []
    cl.append(("log_n_steps < 0x50", lg < 0x50))
    h = consts["CPU_COMPONENT_HEIGHT"] * consts["CPU_COMPONENT_STEP"]
    pw = zi(ex.f_pow(F(2), SF(lg), 0))
    cl.append(("2^log_n_steps * CPU_COMPONENT_HEIGHT * CPU_COMPONENT_STEP == trace_length", z3.And(lg <= 256, pw * h == tl)))
    cl.append(("segment count == N_SEGMENTS", z3.BoolVal(n_segments == consts["segments::N_SEGMENTS"])))
    cl.append(("layout code", zi(pi.fields["layout"]) == consts["LAYOUT_CODE"]))
    mn, mx = zi(pi.fields["range_check_min"]), zi(pi.fields["range_check_max"])
    cl.append(("0 <= rc_min < rc_max <= 0xffff", z3.And(mn >= 0, mn < mx, mx <= 0xffff)))
    segs = pi.fields["segments"]
    for bname, idx, cells, ratio in tab:
        if idx >= len(segs):
            cl.append(("%s segment present" % bname, z3.BoolVal(False)))
            continue
        d = zi(segs[idx].fields["stop_ptr"]) - zi(segs[idx].fields["begin_addr"])
        if reading == "felt":
            d = z3.If(d < 0, d + P, d)
        cl.append(("%s: usage (stop-begin)/%d is a whole number of instances <= floor(trace_length/%d)" % (bname, cells, ratio),
                   z3.And(d >= 0, d % cells == 0, d / cells <= tl / ratio)))
    if with_output:
        idx = consts["segments::OUTPUT"]
        if idx < len(segs):
            d = zi(segs[idx].fields["stop_ptr"]) - zi(segs[idx].fields["begin_addr"])
            cl.append(("OUTPUT: 0 <= stop-begin < 2^128", z3.And(d >= 0, d < 2**128)))
        else:
            cl.append(("OUTPUT segment present", z3.BoolVal(False)))
    return cl


def native_validate_request(layout, pi, sd):
    return {"fn": "validate_public_input", "layout": layout, "public_input": to_json(pi), "stark_domains": to_json(sd)}


def explore_validate(w, layout, n_segments):
    ex = Exec(w, types={"Layout": (w.layout_mod, "Layout")})
    hold = {}
    fn = w.layout_mod.methods.get(("Layout", "validate_public_input"))
    if fn is None:
        raise Unsupported(w.layout_mod.file, 0, "validate_public_input not found")
    def entry(ex):
        b, pi, sd, t = build_validate_inputs(ex, w, n_segments)
        hold.update(b=b, pi=pi, sd=sd, t=t)
        return ex.call_fn(fn, w.layout_mod, [pi, sd], fn.line)
    outs = ex.explore(entry, max_paths=300, budget_s=240)
    return ex, outs, hold


def tv_validate(w, layout, consts, tab, n=3):
    """translator validation: seeded concrete inputs (near-valid, so that deep branches are reached) through both implementations"""
    r = rng("C14.tv." + layout)
    fn = w.layout_mod.methods[("Layout", "validate_public_input")]
    bad = []
    orc = None
    for k in range(n):
        ex = Exec(w, types={"Layout": (w.layout_mod, "Layout")})
        hold = {}
        def entry(ex):
            b, pi, sd, t = build_validate_inputs(ex, w, consts["segments::N_SEGMENTS"])
            lg = r.randrange(0, 30)
            tl = 2**lg * consts["CPU_COMPONENT_HEIGHT"] * consts["CPU_COMPONENT_STEP"]
            pi = random_fill(pi, r)
            sd = random_fill(sd, r)
            if k > 0:
                pi.fields["log_n_steps"] = F(lg)
                sd.fields["trace_domain_size"] = F(tl)
                pi.fields["layout"] = F(consts["LAYOUT_CODE"])
                pi.fields["range_check_min"] = F(r.randrange(0, 100))
                pi.fields["range_check_max"] = F(r.randrange(100, 0xffff))
                for bname, idx, cells, ratio in tab:
                    base = r.randrange(2**20)
                    uses = r.randrange(0, max(1, tl // ratio) + (2 if k == 2 else 0))
                    pi.fields["segments"][idx].fields["begin_addr"] = F(base)
                    pi.fields["segments"][idx].fields["stop_ptr"] = F(base + cells * uses + (1 if (k == 2 and bname == tab[-1][0]) else 0))
                o = consts["segments::OUTPUT"]
                pi.fields["segments"][o].fields["begin_addr"] = F(1000)
                pi.fields["segments"][o].fields["stop_ptr"] = F(1010)
            hold.update(pi=pi, sd=sd)
            return ex.call_fn(fn, w.layout_mod, [pi, sd], fn.line)
        out = ex.run_concrete(entry)
        ans = replay([native_validate_request(layout, hold["pi"], hold["sd"])], [layout])[0]
        if not same_outcome(outcome_label(out), native_label(ans)):
            bad.append("input %d: executor %s vs real %s" % (k, out.label(), ans))
    return n, bad


def ob_validate(layout, direction):
    sound = direction.startswith("sound")
    reading = "int" if direction in ("sound_int", "complete") else "felt"
    ob = obligation("C14.a.%s.%s" % (layout, direction),
                    (("validate_public_input returns Ok ONLY IF the statement's predicate holds; builtin usage read as "
                      + ("the integer stop - begin (so begin <= stop is required)" if reading == "int" else "(stop - begin) mod p")) if sound else
                     "validate_public_input returns Ok WHENEVER the statement's integer predicate (plus 0 <= output usage < 2^128) holds; never panics"),
                    ["crates/air/src/layout/%s/mod.rs::validate_public_input" % layout],
                    "all numbers symbolic felts; segments.len() in {N-1, N, N+1}; trace_domain_size = 2^t, t symbolic in 0..=%d; predicate built from the "
                    "layout's parsed `pub const`s and the Cairo builtin instance sizes" % T_MAX)
    def body(ob):
        st = Stats()
        w = layout_world(layout)
        consts = layout_consts(w)
        tab = builtin_table(consts)
        N = consts["segments::N_SEGMENTS"]
        n_tv, bad = tv_validate(w, layout, consts, tab)
        if bad:
            return finish(ob, "inconclusive", st, detail="translator validation FAILED: " + "; ".join(bad))
        notes = []
        divisors_seen = set()
        for nseg in (N, N - 1, N + 1):
            ex, outs, hold = explore_validate(w, layout, nseg)
            cl = spec_validate(ex, consts, tab, hold["pi"], hold["sd"], nseg, with_output=not sound, reading=reading)
            spec = z3.And(*[c for _, c in cl])
            base = ex.base + ex.axioms
            oks = [o for o in outs if o.kind == "ok"]
            if sound:
                goal = z3.Or(*[z3.And(*(o.pc + [z3.Not(spec)])) for o in oks]) if oks else z3.BoolVal(False)
            else:
                nonok = [o for o in outs if o.kind != "ok"]
                goal = z3.Or(*[z3.And(*(o.pc + [spec])) for o in nonok]) if nonok else z3.BoolVal(False)
            v, model = check(base + [goal], st, timeout_s=150, want_model=True)
            kinds = {}
            for o in outs:
                kinds[o.label().split("(")[0]] = kinds.get(o.label().split("(")[0], 0) + 1
            notes.append("segments=%d: %d paths %s -> %s" % (nseg, len(outs), kinds, v))
            if v == "unsat":
                continue
            if v != "sat":
                return finish(ob, "inconclusive", st, detail="; ".join(notes))
            pi, sd = concretize(hold["pi"], model), concretize(hold["sd"], model)
            req = native_validate_request(layout, pi, sd)
            ans = replay([req], [layout])[0]
            failed = [name for name, c in cl if mval(model, c) is False]
            tval = mval(model, hold["t"].t)
            if sound:
                rep = {"reproduced": "ok" in ans, "request": req, "real_output": ans, "expected": "Err (predicate clause(s) false: %s)" % failed}
                det = "accepted although: %s (trace_length = 2^%s)" % ("; ".join(failed), tval)
            else:
                rep = {"reproduced": "ok" not in ans, "request": req, "real_output": ans, "expected": "Ok (every clause of the predicate holds)"}
                det = "rejected / panicked although the predicate holds (trace_length = 2^%s)" % tval
            cex = {"trace_length_log2": tval, "violated_clauses": failed, "request": req}
            return finish(ob, "violated" if rep["reproduced"] else "inconclusive", st,
                          detail=det + "; " + "; ".join(notes) + ("" if rep["reproduced"] else " -- NOT reproduced natively (encoding problem)"),
                          cex=cex, replay_rec=rep)
        return finish(ob, "holds", st, detail="; ".join(notes) + "; builtins %s; translator validated on %d seeded inputs" % (
            ["%s:cells=%d,row_ratio=%d" % (b, c, r) for b, _, c, r in tab], n_tv))
    return guarded(ob, body)


def ob_divisors(layout):
    ob = obligation("C14.a.%s.divisors" % layout, "the instance-size divisors used by validate_public_input are the Cairo builtin cell counts "
                    "(derived from the executed code, reported)", ["crates/air/src/layout/%s/mod.rs::validate_public_input" % layout],
                    "divisors observed as field_div by a constant on the accepting path")
    def body(ob):
        w = layout_world(layout)
        consts = layout_consts(w)
        tab = builtin_table(consts)
        # run the accepting path with a recording hook on field_div
        seen = []
        class Rec(Exec):
            def f_div(self, a, b, line):
                if isinstance(b, F):
                    seen.append((self.file, line, b.v))
                return Exec.f_div(self, a, b, line)
        ex = Rec(w, types={"Layout": (w.layout_mod, "Layout")})
        fn = w.layout_mod.methods[("Layout", "validate_public_input")]
        N = consts["segments::N_SEGMENTS"]
        def entry(ex):
            del seen[:]
            b, pi, sd, t = build_validate_inputs(ex, w, N)
            return ex.call_fn(fn, w.layout_mod, [pi, sd], fn.line)
        out, ctx = ex.run_once(entry, [])
        k = 0
        while out is not None and out.kind != "ok" and k < 200:
            # walk to the accepting path: flip the last forked decision
            tr = ctx.trace
            idx = [i for i, (d, f) in enumerate(tr) if f]
            if not idx:
                break
            pref = [d for d, f in tr[:idx[-1]]] + [not tr[idx[-1]][0]]
            out, ctx = ex.run_once(entry, pref)
            k += 1
        if out is None or out.kind != "ok":
            return finish(ob, "inconclusive", None, detail="no accepting path found", solver="-")
        ratios = set(r for _, _, _, r in tab)
        cells_used = sorted(v for _, _, v in seen if v not in ratios)
        expected = sorted(c for _, _, c, _ in tab if c != 1)
        lines = ", ".join("line %d: /%d" % (l, v) for _, l, v in seen)
        if cells_used == expected:
            return finish(ob, "holds", None, detail="field_div constants on the accepting path: %s; instance sizes %s match %s" % (
                lines, cells_used, dict((b, c) for b, _, c, _ in tab)), solver="- (structural comparison of executed constants)")
        return finish(ob, "inconclusive", None, detail="field_div constants %s differ from the expected instance sizes %s (decided by the "
                      ".sound/.complete obligations)" % (lines, expected), solver="-")
    return guarded(ob, body)


# ------------------------------------------------------------------------------------------ verify_public_input
def build_verify_inputs(ex, w, M, n_segments, headers=0):
    b = Builder(ex)
    pm = w.mod(PUBMEM)
    pi = b.struct(pm, "PublicInput", "pi", {"pi.segments": n_segments, "pi.main_page": M, "pi.continuous_page_headers": headers})
    return b, pi


def chain(ex, vals):
    h = F(0)
    for v in vals:
        h = ex.hash2("pedersen", h, v, 0)
    return ex.hash2("pedersen", h, F(len(vals)), 0)


def verify_spec(ex, consts, pi, M):
    """returns (fits, content(ph, oh), addresses) as z3 formulas over the inputs; case split over (program length, output length)"""
    segs = pi.fields["segments"]
    pc0 = zi(segs[consts["segments::PROGRAM"]].fields["begin_addr"])
    fp0 = zi(segs[consts["segments::EXECUTION"]].fields["begin_addr"])
    ob_ = zi(segs[consts["segments::OUTPUT"]].fields["begin_addr"])
    oe = zi(segs[consts["segments::OUTPUT"]].fields["stop_ptr"])
    # lengths and addresses as the verifier computes them: in the field (canonical representative of the difference / sum)
    def modp(x):
        return z3.If(x < 0, x + P, z3.If(x >= P, x - P, x))
    plen, olen = modp(modp(fp0 - 2) - pc0), modp(oe - ob_)
    page = pi.fields["main_page"]
    cases = []
    for k in range(M + 1):
        for j in range(M - k + 1):
            cases.append((k, j))
    fits = z3.Or(*[z3.And(plen == k, olen == j) for k, j in cases])
    def content(ph, oh):
        alts = []
        for k, j in cases:
            eph = chain(ex, [page[i].fields["value"] for i in range(k)])
            eoh = chain(ex, [page[M - j + i].fields["value"] for i in range(j)])
            alts.append(z3.And(plen == k, olen == j, zi(ph) == zi(eph), zi(oh) == zi(eoh)))
        return z3.Or(*alts)
    addr_alts = []
    for k, j in cases:
        cs = [plen == k, olen == j]
        cs += [zi(page[i].fields["address"]) == modp(pc0 + i) for i in range(k)]
        cs += [zi(page[M - j + i].fields["address"]) == modp(ob_ + i) for i in range(j)]
        addr_alts.append(z3.And(*cs))
    return fits, content, z3.Or(*addr_alts), plen, olen


def native_verify_request(layout, pi):
    return {"fn": "verify_public_input", "layout": layout, "public_input": to_json(pi)}


def explore_verify(w, layout, M, nseg, headers=0):
    ex = Exec(w, types={"Layout": (w.layout_mod, "Layout")})
    fn = w.layout_mod.methods.get(("Layout", "verify_public_input"))
    if fn is None:
        raise Unsupported(w.layout_mod.file, 0, "verify_public_input not found")
    hold = {}
    def entry(ex):
        b, pi = build_verify_inputs(ex, w, M, nseg, headers)
        hold.update(b=b, pi=pi)
        return ex.call_fn(fn, w.layout_mod, [pi], fn.line)
    outs = ex.explore(entry, max_paths=600, budget_s=240)
    return ex, outs, hold


def tv_verify(w, layout, consts, orc):
    r = rng("C14.tvv." + layout)
    fn = w.layout_mod.methods[("Layout", "verify_public_input")]
    bad, n = [], 0
    N = consts["segments::N_SEGMENTS"]
    for k, (M, plen, olen) in enumerate([(4, 2, 1), (3, 1, 2), (2, 2, 2), (5, 7, 1), (3, 0, 0)]):
        ex = Exec(w, types={"Layout": (w.layout_mod, "Layout")}, hash_oracle=orc)
        hold = {}
        def entry(ex):
            b, pi = build_verify_inputs(ex, w, M, N)
            pi = random_fill(pi, r)
            s = pi.fields["segments"]
            s[consts["segments::PROGRAM"]].fields["begin_addr"] = F(1)
            s[consts["segments::PROGRAM"]].fields["stop_ptr"] = F(5)
            s[consts["segments::EXECUTION"]].fields["begin_addr"] = F(plen + 3)
            s[consts["segments::EXECUTION"]].fields["stop_ptr"] = F(plen + 50)
            s[consts["segments::OUTPUT"]].fields["begin_addr"] = F(100)
            s[consts["segments::OUTPUT"]].fields["stop_ptr"] = F(100 + olen)
            hold["pi"] = pi
            return ex.call_fn(fn, w.layout_mod, [pi], fn.line)
        out = ex.run_concrete(entry)
        ans = replay([native_verify_request(layout, hold["pi"])], [layout])[0]
        n += 1
        same = same_outcome(outcome_label(out), native_label(ans))
        if same and out.kind == "ok":
            same = [hx(x.v) for x in out.value] == ans["ok"]
        if not same:
            bad.append("M=%d plen=%d olen=%d: executor %s %r vs real %s" % (M, plen, olen, out.label(), out.value, ans))
    return n, bad


def run_verify_obligations(layout, Ms):
    """three obligations decided on the same path sets"""
    fnname = "crates/air/src/layout/%s/mod.rs::verify_public_input" % layout
    bnd = "main page of M cells, M in %s, addresses / values / all segment bounds symbolic felts; no continuous pages; Pedersen collision-free UF" % (Ms,)
    obs = {
        "hashes": obligation("C14.b.%s.hashes" % layout, "verify_public_input Ok((ph, oh)) on a page that holds at least (initial_fp-2-initial_pc) + "
                             "(output stop-begin) cells => ph is the Pedersen chain (from 0, closed with the length) of the values of the FIRST "
                             "program-length cells and oh the chain of the LAST output-length cells", [fnname], bnd),
        "addresses": obligation("C14.b.%s.addresses" % layout, "verify_public_input Ok => the program cells sit at addresses initial_pc, initial_pc+1, .. "
                                "and the output cells at output_begin, output_begin+1, ..", [fnname], bnd),
        "short_page_ok": obligation("C14.b.%s.short_page_not_accepted" % layout, "a main page too short for program + output (or with a negative / "
                                    "oversized length) is never accepted (no Ok with hashes of fewer cells)", [fnname], bnd),
        "short_page_panic": obligation("C14.b.%s.short_page_no_panic" % layout, "a main page too short for program + output gives Err, not a panic",
                                       [fnname], bnd),
    }
    state = {}
    def prepare():
        if "err" in state or "data" in state:
            return
        try:
            w = layout_world(layout)
            consts = layout_consts(w)
            orc = common.HashOracle([layout])
            try:
                n_tv, bad = tv_verify(w, layout, consts, orc)
            finally:
                orc.close()
            data = []
            for M in Ms:
                ex, outs, hold = explore_verify(w, layout, M, consts["segments::N_SEGMENTS"])
                data.append((M, ex, outs, hold))
            state["data"] = (w, consts, data, n_tv, bad)
        except Exception as e:      # re-raised inside each obligation's guard
            state["err"] = e
    def decide(kind):
        def body(ob):
            prepare()
            if "err" in state:
                raise state["err"]
            w, consts, data, n_tv, bad = state["data"]
            st = Stats()
            if bad:
                return finish(ob, "inconclusive", st, detail="translator validation FAILED: " + "; ".join(bad))
            notes = []
            for M, ex, outs, hold in data:
                fits, content, addrs, plen, olen = verify_spec(ex, consts, hold["pi"], M)
                base = ex.base + ex.axioms
                goals = []
                for o in outs:
                    if kind == "hashes" and o.kind == "ok":
                        ph, oh = o.value
                        goals.append(z3.And(*(o.pc + [fits, z3.Not(content(ph, oh))])))
                    elif kind == "addresses" and o.kind == "ok":
                        goals.append(z3.And(*(o.pc + [fits, z3.Not(addrs)])))
                    elif kind == "short_page_ok" and o.kind == "ok":
                        goals.append(z3.And(*(o.pc + [z3.Not(fits)])))
                    elif kind == "short_page_panic" and o.kind not in ("ok", "err"):
                        goals.append(z3.And(*(o.pc + [z3.Not(fits)])))
                base = ex.base + ex.axioms       # content() created new hash applications
                kinds = {}
                for o in outs:
                    kinds[o.label().split("(")[0]] = kinds.get(o.label().split("(")[0], 0) + 1
                if not goals:
                    notes.append("M=%d: %d paths %s, nothing to check" % (M, len(outs), kinds))
                    continue
                v, model = check(base + [z3.Or(*goals)], st, timeout_s=120, want_model=True)
                notes.append("M=%d: %d paths %s -> %s" % (M, len(outs), kinds, v))
                if v == "unsat":
                    continue
                if v != "sat":
                    return finish(ob, "inconclusive", st, detail="; ".join(notes))
                pi = concretize(hold["pi"], model)
                req = native_verify_request(layout, pi)
                ans = replay([req], [layout])[0]
                pl, ol = mval(model, plen), mval(model, olen)
                cex = {"main_page_cells": M, "program_length": pl, "output_length": ol, "request": req}
                if kind == "addresses":
                    rep = {"reproduced": "ok" in ans, "request": req, "real_output": ans,
                           "expected": "Err: the cells are not at consecutive program / output addresses"}
                    det = "accepted (hashed positionally) although the cell addresses are not initial_pc+i / output_begin+i"
                elif kind.startswith("short_page"):
                    rep = {"reproduced": ("ok" in ans) if kind == "short_page_ok" else ("panic" in ans), "request": req, "real_output": ans,
                           "expected": "Err (page of %d cells, program %s + output %s)" % (M, pl, ol)}
                    det = "page too short (M=%d, program length %s, output length %s) gives %s" % (M, pl, ol, "a panic" if "panic" in ans else "Ok")
                else:
                    # recompute the expected chains with the real Pedersen
                    rep = {"reproduced": False, "request": req, "real_output": ans}
                    det = "Ok with hashes that are not the chains of the first / last cells"
                    if "ok" in ans and isinstance(pl, int) and isinstance(ol, int) and 0 <= pl and 0 <= ol and pl + ol <= M:
                        orc = common.HashOracle([layout])
                        try:
                            exo = Exec(w, hash_oracle=orc)
                            exo.ctx = None
                            eph = chain(exo, [pi.fields["main_page"][i].fields["value"] for i in range(pl)])
                            eoh = chain(exo, [pi.fields["main_page"][M - ol + i].fields["value"] for i in range(ol)])
                        finally:
                            orc.close()
                        rep["expected"] = [hx(eph.v), hx(eoh.v)]
                        rep["reproduced"] = ans["ok"] != rep["expected"]
                    elif "ok" in ans:
                        rep["expected"] = "Err (lengths do not fit the page)"
                        rep["reproduced"] = True
                return finish(ob, "violated" if rep["reproduced"] else "inconclusive", st,
                              detail=det + "; " + "; ".join(notes) + ("" if rep["reproduced"] else " -- NOT reproduced natively"), cex=cex, replay_rec=rep)
            return finish(ob, "holds", st, detail="; ".join(notes) + "; translator validated on %d seeded inputs" % n_tv)
        return body
    return [guarded(obs[k], decide(k)) for k in ("hashes", "addresses", "short_page_ok", "short_page_panic")]


def ob_verify_misc(layout):
    ob = obligation("C14.b.%s.no_panic_other_shapes" % layout, "verify_public_input with missing segments or continuous pages returns Err",
                    ["crates/air/src/layout/%s/mod.rs::verify_public_input" % layout], "segments.len() in {0, 1, N-1}; 1 continuous page header; M = 2")
    def body(ob):
        st = Stats()
        w = layout_world(layout)
        consts = layout_consts(w)
        N = consts["segments::N_SEGMENTS"]
        notes = []
        for nseg, hdr in ((0, 0), (1, 0), (2, 0), (N, 1)):
            ex, outs, hold = explore_verify(w, layout, 2, nseg, hdr)
            bad = [o for o in outs if o.kind == "panic" or (o.kind == "ok" and (nseg < 3 or hdr))]
            notes.append("segments=%d headers=%d: %s" % (nseg, hdr, sorted(set(o.label().split(" ")[0] for o in outs))))
            for o in bad:
                v, model = check(ex.base + ex.axioms + o.pc, st, timeout_s=60, want_model=True)
                if v == "sat":
                    pi = concretize(hold["pi"], model)
                    req = native_verify_request(layout, pi)
                    ans = replay([req], [layout])[0]
                    rep = {"reproduced": "err" not in ans, "request": req, "real_output": ans, "expected": "Err"}
                    return finish(ob, "violated" if rep["reproduced"] else "inconclusive", st, detail="%s; %s" % (o.label(), "; ".join(notes)),
                                  cex={"request": req}, replay_rec=rep)
        return finish(ob, "holds", st, detail="; ".join(notes))
    return guarded(ob, body)


def run(tier, layouts=None):
    if layouts is None:
        layouts = ["recursive"] if tier == "quick" else STATIC_LAYOUTS
    obs = []
    for l in layouts:
        if l == "dynamic":
            ob = obligation("C14.a.dynamic", "dynamic layout validate_public_input", ["crates/air/src/layout/dynamic/mod.rs"], "-")
            obs.append(finish(ob, "inconclusive", None, detail="dynamic layout (check_asserts, safe_mult over BigInt) is outside the felt-sx subset", solver="-"))
            continue
        a = ob_validate(l, "sound")
        # observation beyond the property text (the verifier's usage is the FIELD difference, as in the reference verifier):
        # under the integer reading begin_addr > stop_ptr wraps mod p.  Reported as a note only.
        b = ob_validate(l, "sound_int")
        if b["verdict"] == "violated":
            a["detail"] += " | note (not demanded by the property): reading usage as the integer stop_ptr - begin_addr, an input with begin_addr > stop_ptr " \
                           "is accepted (difference wraps mod p), e.g. segments %s" % str((b["cex"] or {}).get("request", {}).get("public_input", {}).get("segments"))[:300]
        elif b["verdict"] == "holds":
            a["detail"] += " | note: also holds under the integer reading (begin_addr <= stop_ptr enforced)"
        obs.append(a)
        obs.append(ob_validate(l, "complete"))
        obs.append(ob_divisors(l))
    vl = ["recursive"] if tier == "quick" else layouts
    for l in vl:
        if l == "dynamic":
            continue
        obs += run_verify_obligations(l, list(range(0, 7)) if tier == "quick" else list(range(0, 9)))
        obs.append(ob_verify_misc(l))
    return {"property": "C14", "tier": tier, "engine": "felt-sx", "assumptions": ASSUMPTIONS, "obligations": obs,
            "outside": ["dynamic layout", "main pages longer than the enumerated M", "continuous pages (rejected by verify_public_input)"]}
