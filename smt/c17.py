"""C17 - verification work is bounded by the proof size: every loop / iterator site of the verifier crates is listed from the parsed
source, classified by executing the entry points symbolically (constant / length of supplied data / VALUE of a proof field), and for the
third class z3 decides whether the value is bounded by a constant under `config accepted by the real validate`."""
import os
import time

import z3

import common
from common import Stats, check, finish, guarded, obligation, replay, hx, rng, P, REPO, ReplayUnavailable
from rsparse import Unsupported
from symex import F, RList, ResultV, LoopBound, RustPanic
import sx
from sx import Exec, Pruned, ASSUMPTIONS
from sxval import SF, SI, SStruct, zi, deep_copy
from sxworld import cfg_active
import sxh
from sxh import H, world
import c18
import c18deep
import starkmodel

SCOPE_DIRS = ["crates/stark/src", "crates/fri/src", "crates/commitment/src", "crates/transcript/src", "crates/pow/src"]
SCOPE_FILES = ["crates/air/src/diluted.rs", "crates/air/src/public_memory.rs", "crates/air/src/domains.rs", "crates/air/src/types.rs"]
LOOP_KINDS = ("loop", "while", "for")
ITER = set(sx.ITER_METHODS) - {"iter", "iter_mut", "into_iter", "clone", "to_owned", "rev", "enumerate", "contains"}
TAINTED = set()
CANDIDATE_BOUNDS = [0, 1, 2, 3, 4, 8, 14, 15, 16, 32, 48, 64, 128, 256, 1024, 2**16, 2**20]


def in_scope(rel):
    if rel in SCOPE_FILES:
        return True
    return any(rel.startswith(d + "/") for d in SCOPE_DIRS) and "/tests/" not in rel and "fixtures" not in rel


def walk(node, out, fn):
    if isinstance(node, tuple) and node:
        k = node[0]
        if k in LOOP_KINDS:
            out.append((node[-1], k, fn))
        elif k == "mcall" and node[2] in ITER:
            out.append((node[-1], "iter:" + node[2], fn))
        elif k == "macro" and node[1] == "vec" and len(node[2]) == 3 and node[2][1][0] == "str":
            out.append((node[-1], "alloc:vec![x; n]", fn))
        elif k == "call" and node[1][0] == "path" and node[1][1][-1] == "with_capacity":
            out.append((node[-1], "alloc:with_capacity", fn))
        for x in node[1:]:
            walk(x, out, fn)
    elif isinstance(node, list):
        for x in node:
            walk(x, out, fn)


def tainted_ranges(f):
    """lines of `for .. in lo..X` whose bound X is a local defined through a Felt -> integer conversion (to_biguint / to_bigint / try_into)"""
    conv = {}
    out = set()
    def has_conv(e):
        if isinstance(e, tuple) and e:
            if e[0] == "mcall" and e[2] in ("to_biguint", "to_bigint", "try_into"):
                return True
            return any(has_conv(x) for x in e[1:])
        if isinstance(e, list):
            return any(has_conv(x) for x in e)
        return False
    def visit(node):
        if isinstance(node, tuple) and node:
            if node[0] == "let" and node[1][0] == "pid" and node[3] is not None and has_conv(node[3]):
                conv[node[1][1]] = True
            if node[0] == "for" and node[2][0] == "range":
                hi = node[2][2]
                if hi is not None and hi[0] == "path" and len(hi[1]) == 1 and conv.get(hi[1][0]):
                    out.add(node[-1])
            if node[0] == "mcall" and node[1][0] == "range" and node[1][2] is not None and node[1][2][0] == "path" and conv.get(node[1][2][1][0]):
                out.add(node[-1])
            for x in node[1:]:
                visit(x)
        elif isinstance(node, list):
            for x in node:
                visit(x)
    visit(f.body)
    return out


def list_sites(w):
    """{(rel file, line): (kind, function)} for every loop / iterator / sized-allocation site of active, non-test functions in scope"""
    sites = {}
    recursive = []
    for m in w.mods:
        if not in_scope(m.rel):
            continue
        for f in m.all_fns:
            if not cfg_active(f.cfg, w.features) or f.prefix.startswith("tests::"):
                continue
            found = []
            walk(f.body, found, f.name)
            for ln in tainted_ranges(f):
                TAINTED.add((m.rel, ln))
            for line, kind, fn in found:
                key = (m.rel, line)
                if key in sites and sites[key][0].startswith("iter") and kind.startswith("iter"):
                    sites[key] = (sites[key][0] + "+" + kind[5:], fn)
                elif key not in sites or not kind.startswith("iter"):
                    sites[key] = (kind, fn)
            calls = []
            def find_self(node):
                if isinstance(node, tuple) and node:
                    if node[0] == "call" and node[1][0] == "path" and node[1][1][-1] == f.name:
                        calls.append(node[-1])
                    for x in node[1:]:
                        find_self(x)
                elif isinstance(node, list):
                    for x in node:
                        find_self(x)
            find_self(f.body)
            if calls:
                recursive.append((m.rel, f.name, calls))
    return sites, recursive


def extra_entries():
    """functions with loops that no C18 entry point reaches"""
    def b_random_felts(h, shape):
        tr = h.transcript()
        n = h.felt("len")
        return {}, lambda: h.call(sxh.F_TRANSCRIPT, "random_felts_to_prover", [n], owner="Transcript", self_val=tr)
    def b_diluted(h, shape):
        nb, sp, z, a = h.felt("n_bits"), h.felt("spacing"), h.felt("z"), h.felt("alpha")
        if shape is not None:
            nb = F(shape)
        return {}, lambda: h.call("crates/air/src/diluted.rs", "get_diluted_product", [nb, sp, z, a])
    def b_page(h, shape):
        pi = c18.pub_input(h, "pi", 0, shape, 1)
        z, a = h.felt("z"), h.felt("alpha")
        return {}, lambda: h.call(sxh.F_PUBMEM, "get_public_memory_product", [z, a], owner="PublicInput", self_val=pi)
    def b_get_hash(h, shape):
        pi = c18.pub_input(h, "pi", shape, shape, shape)
        return {}, lambda: h.call(sxh.F_PUBMEM, "get_hash", [h.felt("nvf")], owner="PublicInput", self_val=pi)
    def b_domains_any(h, shape):
        return {}, lambda: h.call(sxh.F_DOMAINS, "new", [h.felt("lt"), h.felt("lc")], owner="StarkDomains")
    def b_get_hash_dyn(h, shape):
        pi = h.struct(sxh.F_PUBMEM, "PublicInput", "pi", {"pi.segments": 1, "pi.main_page": 1, "pi.continuous_page_headers": 0, "pi.dynamic_params?": True})
        return {}, lambda: h.call(sxh.F_PUBMEM, "get_hash", [h.felt("nvf")], owner="PublicInput", self_val=pi)
    def b_fri_loops(h, shape):
        """fri::Config::validate Ok on a fully symbolic config (up to 15 layers), then fri_commit and fri_verify_layers on it: the loop bounds
        n_layers - 1 are recorded with validate's path condition"""
        a, b = shape
        cfg = h.struct(sxh.F_FRICFG, "Config", "cfg", {"cfg.inner_layers": a, "cfg.fri_step_sizes": b})
        lnc, nvf = h.felt("log_n_cosets"), h.felt("nvf")
        c18.protected(h, lambda: h.require_ok(h.call(sxh.F_FRICFG, "validate", [lnc, nvf], owner="Config", self_val=cfg)))
        un = h.struct(sxh.F_FRITYPES, "UnsentCommitment", "un", {"un.inner_layers": a, "un.last_layer_coefficients": 1})
        tr = h.transcript()
        def both():
            try:
                h.call(sxh.F_FRI, "fri_commit", [tr, un, deep_copy(cfg)])
            except RustPanic:
                pass
            group = h.call("crates/fri/src/group.rs", "get_fri_group", [])
            n1 = h.ex.f_sub(cfg.fields["n_layers"], F(1))
            return h.call(sxh.F_FRI, "fri_verify_layers", [group, n1, RList([]), RList([]), RList([]), RList([]), RList([])])
        return {}, both
    def b_coset_loop(h, shape):
        """coset_size = 2^step for a step size of a validated symbolic config (as fri_verify_layers computes it), then compute_coset_elements"""
        cfg = h.struct(sxh.F_FRICFG, "Config", "cfg", {"cfg.inner_layers": 1, "cfg.fri_step_sizes": 2})
        lnc, nvf = h.felt("log_n_cosets"), h.felt("nvf")
        c18.protected(h, lambda: h.require_ok(h.call(sxh.F_FRICFG, "validate", [lnc, nvf], owner="Config", self_val=cfg)))
        cs = h.ex.f_pow(F(2), cfg.fields["fri_step_sizes"][1], 0)
        qs = RList([h.struct(sxh.F_LAYER, "FriLayerQuery", "q0", {})])
        group = h.call("crates/fri/src/group.rs", "get_fri_group", [])
        return {}, lambda: h.call(sxh.F_LAYER, "compute_coset_elements", [qs, h.felts("sib", 16), cs, h.felt("start"), group])
    E = [c18.Entry("random_felts_to_prover", [], [None], b_random_felts), c18.Entry("get_diluted_product", [], [None, 3, 16], b_diluted),
         c18.Entry("get_public_memory_product", [], [0, 2, 3], b_page), c18.Entry("get_hash", [], [1, 2], b_get_hash),
         c18.Entry("get_hash_dynamic", [], [None], b_get_hash_dyn), c18.Entry("StarkDomains::new", [], [None], b_domains_any),
         c18.Entry("fri_loops", [], [(14, 15)], b_fri_loops, int_bound=17, max_paths=3000, budget_s=200),
         c18.Entry("coset_loop", [], [None], b_coset_loop, int_bound=17, max_paths=400, budget_s=100)]
    return E


_ENTRIES = []


def _observe_entry(idx):
    """worker: run one harness with site observation on; returns {(rel, line): summary} (bounds decided here: z3 terms do not cross processes)"""
    en = _ENTRIES[idx]
    sx.SITE_OBS = {}
    c18.EXPLORATION_BOUNDS = False
    errors, unbounded = [], {}
    shapes = list(en.shapes)
    if len(shapes) > 10:
        shapes = shapes[:4] + shapes[len(shapes) // 2:len(shapes) // 2 + 3] + shapes[-3:]
    w = world("recursive", toy=en.toy)
    special = en.name in ("fri_loops", "coset_loop")
    t0 = time.time()
    shape_cost = []
    for shape in shapes:
        if time.time() - t0 > 200:
            errors.append("observation time budget exhausted at entry %s" % en.name)
            break
        ex = Exec(w, types=en.types(w) if en.types else {}, abstract=en.abstract(w) if en.abstract else None,
                  int_bound=en.int_bound if special else min(en.int_bound, 4), max_loop=6)
        def entry(ex, shape=shape):
            h = H(ex)
            inputs, thunk = en.build(h, shape)
            return thunk()
        t_shape = time.time()
        try:
            outs = ex.explore(entry, max_paths=en.max_paths if special else min(en.max_paths, 120), budget_s=en.budget_s if special else 30)
            shape_cost.append((time.time() - t_shape, len(shape_cost), shape))
        except (Unsupported, LoopBound) as u:
            errors.append("%s %s: %s" % (en.name, shape, str(u)[:120]))
            continue
        for o in outs:
            if o.kind == "unbounded":
                unbounded[(sxh.rel_site(o), o.site[1])] = (o.msg, en.name)
    out = {}
    first_obs = sx.SITE_OBS
    focus_bound = {}
    for (f, line), o in list(first_obs.items()):
        if o["symbolic"] and not o["terms"] and o["kind"] in ("while", "loop"):
            # data-dependent while / loop: follow only the paths that stay inside this loop (a path ends when the loop exits) with a high
            # iteration limit; no path cut at the limit => the largest observed count is a bound under the harness preconditions
            sx.SITE_OBS = {}
            cut = False
            for _, _, shape in sorted(shape_cost)[:1]:       # the cheapest shape (concrete configurations re-execute fastest)
                ex = Exec(w, types=en.types(w) if en.types else {}, abstract=en.abstract(w) if en.abstract else None, int_bound=min(en.int_bound, 4), max_loop=80)
                ex.focus_loop = (f, line)
                def entry2(ex, shape=shape):
                    h = H(ex)
                    inputs, thunk = en.build(h, shape)
                    return thunk()
                try:
                    outs2 = ex.explore(entry2, max_paths=400, budget_s=400)
                except (Unsupported, LoopBound):
                    cut = True
                    continue
                if any(o2.kind == "unbounded" and o2.site[1] == line for o2 in outs2):
                    cut = True
            o2 = sx.SITE_OBS.get((f, line))
            if not cut and o2 is not None:
                focus_bound[(f, line)] = max(o2["counts"])
                rel0 = common.rel(f) if str(f).startswith(REPO) else str(f)
                unbounded.pop((rel0, line), None)
    for (f, line), o in first_obs.items():
        rel = common.rel(f) if str(f).startswith(REPO) else str(f)
        B = decide_bound(o) if o["terms"] else focus_bound.get((f, line))
        out[(rel, line)] = {"kind": o["kind"], "counts": sorted(o["counts"]), "symbolic": o["symbolic"], "has_terms": bool(o["terms"]) or (f, line) in focus_bound,
                            "B": B, "entry": en.name}
    sx.SITE_OBS = None
    return out, unbounded, errors


def observe_all(tier):
    """run the C18 harnesses (and the extra ones) with site observation switched on, one process per harness"""
    import multiprocessing as mp
    global _ENTRIES
    todo = []
    for en in c18.entries(tier) + c18deep.entries(tier) + extra_entries():
        todo.append(en)
        if en.info is not None:
            todo.append(en.info)
    _ENTRIES = todo
    merged, unbounded, errors = {}, {}, []
    with mp.get_context("fork").Pool(min(len(todo), max(2, (os.cpu_count() or 4) - 2))) as pool:
        for out, unb, errs in pool.imap(_observe_entry, range(len(todo))):
            errors += errs
            unbounded.update(unb)
            for k, v in out.items():
                m = merged.setdefault(k, {"kind": v["kind"], "counts": set(), "symbolic": False, "bounds": [], "entries": []})
                m["counts"].update(v["counts"])
                m["symbolic"] = m["symbolic"] or v["symbolic"]
                if v["has_terms"]:
                    m["bounds"].append((v["B"], v["entry"]))
                m["entries"].append(v["entry"])
    return merged, unbounded, errors


def decide_bound(o):
    """smallest candidate B such that `trip count > B` is infeasible on every observed (path condition, bound term) pair"""
    best = None
    for pc, term, ex in o["terms"]:
        found = None
        for B in CANDIDATE_BOUNDS:
            s = z3.Solver()
            s.set("timeout", 10000)
            for a in ex.base + ex.axioms + pc:
                s.add(a)
            s.add(term > B)
            if s.check() == z3.unsat:
                found = B
                break
        if found is None:
            return None
        best = found if best is None else max(best, found)
    return best


def callers_of(w, name):
    out = []
    for m in w.mods:
        for f in m.all_fns:
            if f.prefix.startswith("tests::") or not cfg_active(f.cfg, w.features):
                continue
            hits = []
            def find(node):
                if isinstance(node, tuple) and node:
                    if (node[0] == "call" and node[1][0] == "path" and node[1][1][-1] == name) or (node[0] == "mcall" and node[2] == name):
                        hits.append(node)
                    for x in node[1:]:
                        find(x)
                elif isinstance(node, list):
                    for x in node:
                        find(x)
            try:
                find(f.body)
            except Unsupported:
                continue
            for h_ in hits:
                out.append((m.rel, f.name, h_))
    return out


def under_callers(w, fn, callers, key):
    """re-run a free function with the constant arguments of each call site (evaluated in the caller's module) and everything else symbolic;
    True when the site then has no data-dependent trip count"""
    notes = []
    for rel, caller, node in callers:
        if node[0] != "call":
            return False
        flags = const_args(node)
        m = w.by_rel[rel]
        f, fm = None, None
        for mm in w.mods:
            if fn in mm.fns:
                f, fm = mm.fns[fn], mm
        if f is None or len(f.params) != len(flags):
            return False
        sx.SITE_OBS = {}
        ex = Exec(w, max_loop=40)
        def entry(ex):
            h = H(ex)
            args = []
            for i, (pname, pty) in enumerate(f.params):
                if flags[i]:
                    save = (ex.file, ex.mod, ex.owner)
                    ex.file, ex.mod, ex.owner = m.file, m, None
                    try:
                        args.append(ex.eval(node[2][i], [{}]))
                    finally:
                        ex.file, ex.mod, ex.owner = save
                else:
                    args.append(h.felt(pname))
            return ex.call_fn(f, fm, args, f.line)
        try:
            outs = ex.explore(entry, max_paths=50, budget_s=60)
        except (Unsupported, LoopBound):
            sx.SITE_OBS = None
            return False
        o = dict(((common.rel(k[0]) if str(k[0]).startswith(REPO) else k[0], k[1]), v) for k, v in sx.SITE_OBS.items()).get(key)
        sx.SITE_OBS = None
        if any(x.kind == "unbounded" for x in outs) or o is None or o["symbolic"]:
            return False
        notes.append("%s::%s -> %s iterations" % (rel, caller, sorted(o["counts"])[-1]))
    under_callers.last = "; ".join(notes)
    return bool(notes)


def const_args(node):
    """are all arguments of the call constants of the source (literals / const paths, possibly .into())?"""
    args = node[2] if node[0] == "call" else node[3]
    def is_const(e):
        if e[0] in ("int",):
            return True
        if e[0] == "path":
            return e[1][-1].isupper() or e[1][-1].replace("_", "").isupper()
        if e[0] == "mcall" and e[2] in ("into", "clone") and not e[3]:
            return is_const(e[1])
        if e[0] == "un":
            return is_const(e[2])
        return False
    return [is_const(a) for a in args]


def run(tier, only=None):
    t0 = time.time()
    w = world("recursive", toy=True)
    obs_list = []
    sites, recursive = list_sites(w)
    obs_rel, unbounded, errors = observe_all(tier)
    classified, unclassified = {}, []
    for key, (kind, fn) in sorted(sites.items()):
        o = obs_rel.get(key)
        if kind.startswith("alloc"):
            classified[key] = (kind, fn, "allocation hint (capacity only; no work proportional to it)")
            continue
        if o is None:
            unclassified.append("%s:%d %s in %s" % (key[0], key[1], kind, fn))
            continue
        if o["symbolic"] or (key in [(k[0], k[1]) for k in unbounded]) or key in TAINTED:
            cls = "VALUE of an input field"
        elif len(o["counts"]) > 1:
            cls = "length of supplied data"      # (or a layout constant: the count differs between shapes but is never symbolic)
        else:
            cls = "constant on all explored shapes (%s iterations)" % sorted(o["counts"])[0]
        classified[key] = (kind, fn, cls)
    # ---- obligation 1: every site listed and classified
    ob = obligation("C17.sites", "every loop / while / for / iterator site of the verifier crates is reached by a symbolically executed entry point and "
                    "classified by its trip-count source", SCOPE_DIRS + SCOPE_FILES,
                    "sites parsed from the source on each run; entry points = the C18 harnesses + get_hash, get_public_memory_product, get_diluted_product, "
                    "random_felts_to_prover, StarkDomains::new")
    counts = {}
    for k, (kind, fn, cls) in classified.items():
        c = cls.split(" (")[0]
        counts[c] = counts.get(c, 0) + 1
    table = ["%s:%d %s [%s] -> %s" % (k[0], k[1], v[1], v[0], v[2]) for k, v in sorted(classified.items())]
    det = "%d sites: %s; recursive functions (depth bounded by the Merkle height, a validated config value): %s" % (
        len(sites), counts, ["%s::%s" % (r, f) for r, f, c in recursive])
    if unclassified:
        obs_list.append(finish(ob, "inconclusive", None, detail="unclassified (not reached by any harness): %s | %s%s" % (
            unclassified, det, (" | harness problems: %s" % errors[:3]) if errors else ""), solver="-"))
    else:
        obs_list.append(finish(ob, "holds", None, detail=det + (" | notes: %s" % errors[:3] if errors else ""), solver="- (structural: parsed sites vs executed sites)"))
    obs_list[-1]["sites"] = table
    # ---- obligations 2: value-class sites
    value_sites = [(k, v) for k, v in sorted(classified.items()) if v[2].startswith("VALUE")]
    for key, (kind, fn, cls) in value_sites:
        o = obs_rel.get(key)
        oid = "C17.bound.%s.%s:%d" % (fn, os.path.basename(key[0]), key[1])
        ob = obligation(oid, "the trip count of the %s at %s:%d (in %s) is bounded by a constant for every configuration accepted by the real validate" % (
            kind, key[0], key[1], fn), [key[0] + "::" + fn], "bound candidates %s; path conditions include the Ok path of the real validate wherever the "
            "harness runs it (see C18 preconditions)" % CANDIDATE_BOUNDS)
        st = Stats()
        callers = callers_of(w, fn)
        bl = o["bounds"] if o else []
        B = (None if any(b_ is None for b_, e_ in bl) else max(b_ for b_, e_ in bl)) if bl else None
        where = ", ".join("%s: %s" % (e_, b_) for b_, e_ in bl)
        unb = [v for k, v in unbounded.items() if (k[0], k[1]) == key]
        caller_txt = "; ".join("%s::%s%s" % (r, f, " (constant arguments)" if all(const_args(n)) else "") for r, f, n in callers[:6]) or "none in the verifier crates"
        all_const = bool(callers) and all(all(const_args(n)) for r, f, n in callers)
        if B is not None:
            obs_list.append(finish(ob, "holds", st, detail="trip count <= %d on every observed path (z3: `count > %d` unsat under the path conditions; per harness: %s); "
                                   "callers: %s" % (B, B, where, caller_txt), solver="z3 %s (in-process, 10 s per candidate)" % z3.get_version_string()))
        elif not callers:
            obs_list.append(finish(ob, "holds", st, detail="trip count follows the function's argument (no constant bound%s) but the function is not called "
                                   "from the verification path: callers in crates/*/src (non-test): none" % (": " + unb[0][0] if unb else ""), solver="-"))
        elif callers and under_callers(w, fn, callers, key):
            obs_list.append(finish(ob, "holds", st, detail="trip count follows the function's arguments (%s; e.g. never terminates for a zero bit count); re-executed "
                                   "with the CONSTANT arguments of every call site (other arguments symbolic) the loop is concrete: %s" % (
                                       unb[0][0] if unb else "value", under_callers.last), solver="- (symbolic execution with the call sites' constant arguments)"))
        else:
            rep = native_scaling(fn)
            verdict = "violated" if rep and rep.get("reproduced") else "inconclusive"
            obs_list.append(finish(ob, verdict, st, detail="no constant bound found for the trip count (%s); callers: %s" % (
                unb[0][0] if unb else "bound term exceeds every candidate", caller_txt), replay_rec=rep, cex={"site": "%s:%d" % key}))
    return {"property": "C17", "tier": tier, "engine": "felt-sx", "assumptions": ASSUMPTIONS, "obligations": obs_list,
            "outside": ["wall-clock time / memory of a process", "library internals (pow is O(log e), hashing O(length))", "dynamic layout and the "
                        "autogenerated evaluators (straight-line code)", "crates/air/src/layout/*/mod.rs (no loops on the verification path except "
                        "iterator chains over the main page, covered through verify_public_input)"]}


def native_scaling(fn):
    """generate_queries is the one value-bounded loop with a native request: show work proportional to the value"""
    if fn != "generate_queries":
        return None
    # more samples than domain elements: a loop that waits for n DISTINCT values never ends
    req = {"fn": "generate_queries", "transcript": {"digest": "0x1", "counter": "0x0"}, "n_samples": hx(3), "query_upper_bound": hx(2)}
    try:
        replay([req], ["recursive"], timeout_s=10)
    except ReplayUnavailable as r:
        if "timed out" in str(r):
            return {"reproduced": True, "request": req, "real_output": {"hang": "no answer within 10 s (3 samples from a domain of 2 elements)"}}
    times = []
    for n in (2**12, 2**16):
        req = {"fn": "generate_queries", "transcript": {"digest": "0x1", "counter": "0x0"}, "n_samples": hx(n), "query_upper_bound": hx(2**20)}
        t = time.time()
        try:
            replay([req], ["recursive"], timeout_s=120)
        except ReplayUnavailable:
            times.append(120.0)
            continue
        times.append(time.time() - t)
    return {"reproduced": times[1] > 4 * max(times[0], 0.01), "request": {"n_samples": [2**12, 2**16]}, "real_output": {"seconds": times}}
