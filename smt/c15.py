"""C15 - closed-form boundary values: diluted-check product and public-memory product ratio."""
import z3

import rsparse
from algebras import RealAlg
from common import (P, Stats, check, finish, guarded, hx, inv, obligation, ok_int, replay, repo_path, rng,
                    ReplayUnavailable)
from symex import F, Interp, RList, Struct, StopExecution, Cond

DILUTED = "crates/air/src/diluted.rs"
PUBMEM = "crates/air/src/public_memory.rs"
TYPES = "crates/air/src/types.rs"
CONSTS = "crates/air/src/consts.rs"

STATE = ["p", "q", "x", "diff_x", "i"]


def dil_mods():
    return [rsparse.parse_file(repo_path(DILUTED)), rsparse.parse_file(repo_path(CONSTS))]


def dil_fn(mods):
    fn = mods[0].fns.get("get_diluted_product")
    if fn is None:
        raise rsparse.Unsupported(repo_path(DILUTED), 0, "get_diluted_product not found")
    return fn


# ---- reference semantics (the property statement), independent of the code
def dilute(j, spacing, n_bits):
    return sum(((j >> b) & 1) << (b * spacing) for b in range(n_bits))


def naive_diluted(n_bits, spacing, z, alpha, mod=True):
    """r_1 = 1, r_{j+1} = r_j (1 + z u_j) + alpha u_j^2, u_j = Dilute(j) - Dilute(j-1); returns r_{2^n_bits}"""
    r = 1
    for j in range(1, 2**n_bits):
        u = dilute(j, spacing, n_bits) - dilute(j - 1, spacing, n_bits)
        r = r * (1 + z * u) + alpha * u * u
        if mod:
            r %= P
    return r


def native_vs_naive(points):
    reqs = [{"fn": "get_diluted_product", "n_bits": hx(n), "spacing": hx(s), "z": hx(z), "alpha": hx(a)} for n, s, z, a in points]
    answers = replay(reqs, timeout_s=120)
    fails = []
    for (n, s, z, a), req, ans in zip(points, reqs, answers):
        exp = naive_diluted(n, s, z, a)
        if ok_int(ans) != exp:
            fails.append((req, str(ans), hx(exp)))
    return fails


def diluted_replay_points(r, small_only=False):
    pts = [(n, s, r.randrange(P), r.randrange(P)) for n in (1, 2, 3, 5) for s in (1, 2, 4)]
    if not small_only:
        pts.append((16, 4, r.randrange(P), r.randrange(P)))
    return pts


def violated_if_native(ob, st, why, r, cex=None):
    """a solver counterexample about the internal state is confirmed on the real function against the naive recurrence"""
    fails = native_vs_naive(diluted_replay_points(r))
    if fails:
        req, got, exp = fails[0]
        return finish(ob, "violated", st, detail=why + "; real get_diluted_product differs from the defining recurrence",
                      cex=cex or {"n_bits": req["n_bits"], "spacing": req["spacing"], "z": req["z"], "alpha": req["alpha"]},
                      replay_rec={"reproduced": True, "request": req, "real_output": got, "expected": exp})
    return finish(ob, "inconclusive", st, detail=why + "; but the real get_diluted_product equals the defining recurrence at 13 seeded "
                  "points (encoding problem or behaviour-preserving refactor outside the recognised loop shape)", cex=cex)


def find_scope(env, name):
    for scope in reversed(env):
        if name in scope:
            return scope
    return None


def x_table(mods, n, s):
    """values of the loop variable `x` at every loop head, from a concrete run of the parsed function"""
    xs = []
    def head(it, env, k, line):
        sc = find_scope(env, "x")
        if sc is None:
            raise rsparse.Unsupported(repo_path(DILUTED), line, "loop state variable `x` not found")
        xs.append(sc["x"])
    it = Interp(modules=mods, on_loop_head=head, max_loop=64)
    out = it.run(dil_fn(mods), [F(n), F(s), F(5), F(7)])
    return xs, out


def ob_ruler(n_list, s_list):
    ob = obligation("C15.diluted.i_ruler",
                    "ruler structure: for every j in 1..2^n_bits-1, Dilute(j) - Dilute(j-1) equals the code's x after tz(j) loop "
                    "iterations (x += diff_x; diff_x *= 2^spacing, table extracted from the parsed loop); in particular u_j depends "
                    "only on the number of trailing zeros of j",
                    [DILUTED + "::get_diluted_product"],
                    "n_bits in %s x spacing in %s enumerated; j symbolic (bit-vector of n_bits bits): ALL j" % (n_list, s_list))
    def body(ob):
        st = Stats()
        mods = dil_mods()
        r = rng("ruler")
        W = 260
        for s in s_list:
            for n in n_list:
                xs, out = x_table(mods, n, s)
                if len(xs) != n or not all(isinstance(v, F) for v in xs):
                    return violated_if_native(ob, st, "n_bits=%d spacing=%d: loop ran %d times (expected %d heads)" % (n, s, len(xs), n), r)
                j = z3.BitVec("j", n)
                def dil(v):
                    tot = z3.BitVecVal(0, W)
                    for b in range(n):
                        tot = tot + (z3.ZeroExt(W - 1, z3.Extract(b, b, v)) << (b * s))
                    return tot
                u = dil(j) - dil(j - 1)
                tab = z3.BitVecVal(xs[n - 1].v, W)
                for k in range(n - 2, -1, -1):
                    # tz(j) == k  <=>  low k bits zero and bit k set
                    cond = z3.Extract(k, k, j) == 1
                    if k > 0:
                        cond = z3.And(z3.Extract(k - 1, 0, j) == 0, cond)
                    tab = z3.If(cond, z3.BitVecVal(xs[k].v, W), tab)
                verdict, model = check([j != 0, u != tab], st, want_model=True, timeout_s=60, xcheck=(n in (1, 8, 16)))
                if verdict == "unsat":
                    continue
                if verdict == "inconclusive":
                    return finish(ob, "inconclusive", st, detail="no verdict at n_bits=%d spacing=%d" % (n, s))
                jj = model[j].as_long()
                return violated_if_native(ob, st, "n_bits=%d spacing=%d: u_%d = %d but code table gives %s" % (
                    n, s, jj, dilute(jj, s, n) - dilute(jj - 1, s, n), xs), r)
        return finish(ob, "holds", st, detail="%d bit-vector queries (width %d), cross-checked for n_bits in {1,8,16}" % (len(n_list) * len(s_list), W))
    return guarded(ob, body)


def symbolic_step(mods):
    """one loop iteration from an arbitrary state; returns (alg, inputs, fresh state, state after, init state, exit info)"""
    alg = RealAlg(unroll_pow=-1)
    nb, sp, z, al = z3.Real("n_bits"), z3.Real("spacing"), z3.Real("z"), z3.Real("alpha")
    fresh = dict((k, z3.Real(k + "0")) for k in STATE)
    rec = {}
    def head(it, env, n, line):
        if n == 0:
            init = {}
            for k in STATE:
                sc = find_scope(env, k)
                if sc is None:
                    raise rsparse.Unsupported(repo_path(DILUTED), line, "loop state variable `%s` not found" % k)
                init[k] = sc[k]
                sc[k] = fresh[k]
            rec["init"] = init
        else:
            rec["after"] = dict((k, find_scope(env, k)[k]) for k in STATE)
            raise StopExecution()
    # run 1: stay in the loop once
    conds = []
    def stay(cond, line):
        conds.append((cond, line))
        return False
    it = Interp(alg=alg, modules=mods, on_loop_head=head, decide=stay, max_loop=4)
    try:
        it.run(dil_fn(mods), [nb, sp, z, al])
        raise rsparse.Unsupported(repo_path(DILUTED), dil_fn(mods).line, "loop exited although the exit test was answered false")
    except StopExecution:
        pass
    # run 2: leave immediately from the arbitrary state
    rec2 = {}
    def head2(it, env, n, line):
        if n == 0:
            for k in STATE:
                find_scope(env, k)[k] = fresh[k]
    exits = []
    def leave(cond, line):
        exits.append((cond, line))
        return True
    it2 = Interp(alg=alg, modules=mods, on_loop_head=head2, decide=leave, max_loop=4)
    result = it2.run(dil_fn(mods), [nb, sp, z, al])
    return alg, (nb, sp, z, al), fresh, rec["after"], rec["init"], conds, exits, result


def ob_step():
    ob = obligation("C15.diluted.ii_iii_step_init_exit",
                    "(ii) one loop iteration maps the state (p,q,x,diff_x,i) to (p^2(1+zx'), p(1+zx')q + p x'^2 + q, x' = x+diff_x, "
                    "diff_x*2^spacing, i+1), i.e. the affine map r -> p r + alpha q becomes S o T_x' o S with T_u(r) = r(1+zu) + alpha u^2; "
                    "(iii) initial state p=1+z, q=1, x=1, diff_x=2^spacing-2, i=0 (= T_{u_1}), the loop leaves exactly when i == n_bits-1 "
                    "and then returns p + alpha*q = S(1)",
                    [DILUTED + "::get_diluted_product"],
                    "ALL n_bits, spacing, z, alpha and ALL loop states (symbolic reals): one inductive step, any number of iterations")
    def body(ob):
        st = Stats()
        mods = dil_mods()
        r = rng("dilstep")
        # translator validation
        pts = [(16, 4, r.randrange(P), r.randrange(P)), (3, 2, r.randrange(P), r.randrange(P))]
        reqs = [{"fn": "get_diluted_product", "n_bits": hx(n), "spacing": hx(s), "z": hx(z), "alpha": hx(a)} for n, s, z, a in pts]
        for (n, s, z, a), req, ans in zip(pts, reqs, replay(reqs)):
            mine = Interp(modules=mods, max_loop=64).run(dil_fn(mods), [F(n), F(s), F(z), F(a)])
            if not isinstance(mine, F) or ok_int(ans) != mine.v:
                return finish(ob, "inconclusive", st, detail="translator validation FAILED: parsed %r real %r on %r" % (mine, ans, req))
        alg, (nb, sp, z, al), s0, s1, init, conds, exits, result = symbolic_step(mods)
        L = alg.lift
        M = alg.powf(z3.RealVal(2), sp)
        x1 = s0["x"] + s0["diff_x"]
        y = s0["p"] * (1 + z * x1)
        step_bad = z3.Or(L(s1["x"]) != x1,
                         L(s1["diff_x"]) != s0["diff_x"] * M,
                         L(s1["p"]) != s0["p"] * y,
                         L(s1["q"]) != y * s0["q"] + s0["p"] * x1 * x1 + s0["q"],
                         L(s1["i"]) != s0["i"] + 1)
        verdict, model = check([step_bad], st, want_model=False)
        if verdict == "sat":
            return violated_if_native(ob, st, "(ii) loop body is not the affine-map composition step", r)
        if verdict != "unsat":
            return finish(ob, "inconclusive", st, detail="(ii) no verdict")
        init_bad = z3.Or(L(init["p"]) != 1 + z, L(init["q"]) != 1, L(init["x"]) != 1, L(init["diff_x"]) != M - 2, L(init["i"]) != 0)
        verdict, model = check([init_bad], st)
        if verdict == "sat":
            return violated_if_native(ob, st, "(iii) initial state differs from T_{u_1}", r)
        if verdict != "unsat":
            return finish(ob, "inconclusive", st, detail="(iii) init: no verdict")
        if len(conds) != 1 or len(exits) != 1 or not isinstance(exits[0][0], Cond) or exits[0][0].op != "==":
            return finish(ob, "inconclusive", st, detail="loop exit test has an unexpected shape: %r" % (exits,))
        c = exits[0][0]
        exit_bad = z3.Or(z3.Not(z3.Or(z3.And(L(c.a) == s0["i"], L(c.b) == nb - 1), z3.And(L(c.b) == s0["i"], L(c.a) == nb - 1))),
                         L(result) != s0["p"] + al * s0["q"])
        verdict, model = check([exit_bad], st)
        if verdict == "sat":
            return violated_if_native(ob, st, "(iii) exit test / returned value differ from `i == n_bits-1`, p + alpha*q", r)
        if verdict != "unsat":
            return finish(ob, "inconclusive", st, detail="(iii) exit: no verdict")
        return finish(ob, "holds", st, detail="3 real-arithmetic queries (2^spacing as uninterpreted powf(2, spacing)); translator validated at (16,4) and (3,2)")
    return guarded(ob, body)


def ob_expand(nmax, s_list):
    ob = obligation("C15.diluted.iv_expansion",
                    "cross-check of (i)-(iii): get_diluted_product(n_bits, spacing, z, alpha), fully unrolled, equals the naive "
                    "2^n_bits-term recurrence as a polynomial in z and alpha",
                    [DILUTED + "::get_diluted_product"],
                    "n_bits in 1..%d x spacing in %s; ALL z, alpha" % (nmax, s_list))
    def body(ob):
        st = Stats()
        mods = dil_mods()
        r = rng("dilexp")
        z, al = z3.Real("z"), z3.Real("alpha")
        for n in range(1, nmax + 1):
            for s in s_list:
                alg = RealAlg()
                out = alg.lift(Interp(alg=alg, modules=mods, max_loop=64).run(dil_fn(mods), [F(n), F(s), z, al]))
                rr = z3.RealVal(1)
                for j in range(1, 2**n):
                    u = dilute(j, s, n) - dilute(j - 1, s, n)
                    rr = rr * (1 + z * u) + al * (u * u)
                verdict, model = check([out != rr], st, want_model=True, timeout_s=120, xcheck=(n <= 3))
                if verdict == "unsat":
                    continue
                if verdict == "inconclusive":
                    return finish(ob, "inconclusive", st, detail="no verdict at n_bits=%d spacing=%d" % (n, s))
                return violated_if_native(ob, st, "expansion differs at n_bits=%d spacing=%d" % (n, s), r)
        return finish(ob, "holds", st, detail="%d polynomial identities" % (nmax * len(s_list)))
    return guarded(ob, body)


def ob_native_layout_point():
    ob = obligation("C15.diluted.native_16_4",
                    "CONCRETE CHECK (no solver): the real get_diluted_product at every layout's parameters (n_bits=16, spacing=4) equals "
                    "the naive 65535-step recurrence at seeded random z, alpha",
                    [DILUTED + "::get_diluted_product"], "2 seeded points")
    def body(ob):
        r = rng("dil164")
        fails = native_vs_naive([(16, 4, r.randrange(P), r.randrange(P)) for _ in range(2)])
        if fails:
            req, got, exp = fails[0]
            return finish(ob, "violated", None, detail="real function differs from the defining recurrence", cex=req,
                          replay_rec={"reproduced": True, "request": req, "real_output": got, "expected": exp}, solver="none (native evaluation)")
        return finish(ob, "holds", None, detail="native == naive at 2 points", solver="none (native evaluation)")
    return guarded(ob, body)


# --------------------------------------------------------------------------- public memory ratio
def pm_mods():
    return [rsparse.parse_file(repo_path(PUBMEM)), rsparse.parse_file(repo_path(TYPES)), rsparse.parse_file(repo_path(CONSTS))]


def _is_err(v):
    from symex import ResultV
    return isinstance(v, ResultV) and v.kind == "Err"


def _unwrap_ok(v):
    from symex import ResultV
    return v.value if isinstance(v, ResultV) and v.kind == "Ok" else v


def pm_fn(mods):
    fn = mods[0].methods.get(("PublicInput", "get_public_memory_product_ratio"))
    if fn is None:
        raise rsparse.Unsupported(repo_path(PUBMEM), 0, "PublicInput::get_public_memory_product_ratio not found")
    return fn


def mk_public_input(cells, headers, pad_a, pad_v):
    page = RList([Struct("AddrValue", {"address": a, "value": v}) for a, v in cells], rtype="Page")
    hs = RList([Struct("ContinuousPageHeader", {"start_address": h[0], "size": h[1], "hash": h[2], "prod": h[3]}) for h in headers])
    return Struct("PublicInput", {"main_page": page, "continuous_page_headers": hs, "padding_addr": pad_a, "padding_value": pad_v})


def ratio_spec_mod_p(cells, headers, pad_a, pad_v, z, alpha, size):
    den = 1
    for a, v in cells:
        den = den * (z - (a + alpha * v)) % P
    total = len(cells)
    for h in headers:
        den = den * h[3] % P
        total += h[1]
    pad = (z - (pad_a + alpha * pad_v)) % P
    den = den * pow(pad, (size - total) % P, P) % P
    return pow(z, size, P) * inv(den) % P


def ratio_request(cells, headers, pad_a, pad_v, z, alpha, size):
    return {"fn": "get_public_memory_product_ratio", "main_page": [[hx(a), hx(v)] for a, v in cells],
            "headers": [{"start_address": hx(h[0]), "size": hx(h[1]), "hash": hx(h[2]), "prod": hx(h[3])} for h in headers],
            "padding_addr": hx(pad_a), "padding_value": hx(pad_v), "z": hx(z), "alpha": hx(alpha), "column_size": hx(size)}


def random_ratio_point(r, m, h):
    cells = [(r.randrange(2**64), r.randrange(P)) for _ in range(m)]
    headers = [(r.randrange(2**64), r.randrange(1, 50), r.randrange(P), r.randrange(1, P)) for _ in range(h)]
    total = m + sum(x[1] for x in headers)
    size = total + r.randrange(0, 40)
    return cells, headers, r.randrange(2**64), r.randrange(P), r.randrange(P), r.randrange(P), size


def model_small_int(model, var):
    try:
        v = model[var]
        if v is not None and z3.is_rational_value(v) and v.denominator_as_long() == 1 and 0 <= v.numerator_as_long() < 50:
            return v.numerator_as_long()
    except Exception:
        return None
    return None


def ob_ratio(max_cells, max_headers):
    ob = obligation("C15.public_memory_ratio",
                    "get_public_memory_product_ratio(z, alpha, size) = z^size / ( prod_cells (z - (addr + alpha*value)) * prod_k header_k.prod "
                    "* pad^(size - len) ), pad = z - (padding_addr + alpha*padding_value), len = main_page.len() + sum_k header_k.size "
                    "(get_public_memory_product, get_continuous_pages_product and Page::get_product inlined by symbolic execution)",
                    [PUBMEM + "::PublicInput::get_public_memory_product_ratio", PUBMEM + "::PublicInput::get_public_memory_product",
                     PUBMEM + "::get_continuous_pages_product", TYPES + "::Page::get_product"],
                    "main page of 0..%d cells x 0..%d continuous page headers (shapes enumerated); ALL addresses, values, prods, sizes, "
                    "z, alpha, padding cell, column size (symbolic; exponents through an uninterpreted pow); divisors != 0; "
                    "the assert!(total_length <= size) site is handed to C18" % (max_cells, max_headers))
    def body(ob):
        st = Stats()
        mods = pm_mods()
        fn = pm_fn(mods)
        r = rng("ratio")
        # translator validation
        for (m, h) in ((2, 1), (3, 2)):
            cells, headers, pa, pv, z, al, size = random_ratio_point(r, m, h)
            pi = mk_public_input([(F(a), F(v)) for a, v in cells], [tuple(F(x) for x in hd) for hd in headers], F(pa), F(pv))
            mine = _unwrap_ok(Interp(modules=mods).run(fn, [F(z), F(al), F(size)], self_val=pi))
            req = ratio_request(cells, headers, pa, pv, z, al, size)
            ans = replay([req])[0]
            if not isinstance(mine, F) or ok_int(ans) != mine.v:
                return finish(ob, "inconclusive", st, detail="translator validation FAILED: parsed %r real %r on %r" % (mine, ans, req))
        asserts_seen = set()
        for m in range(0, max_cells + 1):
            for h in range(0, max_headers + 1):
                alg = RealAlg(unroll_pow=-1)
                z, al, S = z3.Real("z"), z3.Real("alpha"), z3.Real("size")
                pa, pv = z3.Real("pad_addr"), z3.Real("pad_value")
                cells = [(z3.Real("a%d" % i), z3.Real("v%d" % i)) for i in range(m)]
                headers = [(z3.Real("hs%d" % k), z3.Real("hsize%d" % k), z3.Real("hh%d" % k), z3.Real("hprod%d" % k)) for k in range(h)]
                # all paths of the four inlined functions (a data-dependent `if` / `continue` forks the execution)
                from symex import explore
                def one_path(decider):
                    it = Interp(alg=alg, modules=mods, decide=decider)
                    res = it.run(fn, [z, al, S], self_val=mk_public_input(cells, headers, pa, pv))
                    if _is_err(res):
                        # error paths (length > column size, zero divisor) are C18's subject, not the identity's
                        for c, f, line in it.asserts:
                            asserts_seen.add("%s:%d" % (f.split("/")[-1], line))
                        return None
                    o = alg.lift(_unwrap_ok(res))
                    for c, f, line in it.asserts:
                        asserts_seen.add("%s:%d" % (f.split("/")[-1], line))
                    return o
                def cond_z3(c):
                    if c.op == "not":
                        return z3.Not(cond_z3(c.a))
                    if c.op not in ("==", "!="):
                        # an ordering test on field elements (the length guard): a free boolean per site;
                        # the branch that returns Err is dropped below
                        return z3.Bool("ord_%d" % (abs(hash(repr(c))) % (10 ** 9)))
                    a, b = alg.lift(c.a), alg.lift(c.b)
                    return (a == b) if c.op == "==" else (a != b)
                paths = explore(one_path, max_paths=64)
                path_goals = []
                for trace, o in paths:
                    if o is None:
                        continue
                    pc = [cond_z3(c) if bb else z3.Not(cond_z3(c)) for c, bb, _ in trace]
                    path_goals.append((pc, o))
                if not path_goals:
                    return finish(ob, "inconclusive", st, detail="no value-returning path for %d cells, %d headers" % (m, h))
                out = path_goals[0][1]
                den = z3.RealVal(1)
                for a, v in cells:
                    den = den * (z - (a + al * v))
                L = z3.RealVal(m)
                for hd in headers:
                    den = den * hd[3]
                    L = L + hd[1]
                pad = z - (pa + al * pv)
                padpow = alg.powf(pad, S - L)
                spec = alg.powf(z, S) / (den * padpow)
                nz = [d != 0 for d in alg.divisors] + [den != 0, padpow != 0]
                goal = z3.Or(*[z3.And(*(pc + [o != spec])) for pc, o in path_goals])
                verdict, model = check(nz + [goal], st, want_model=True, timeout_s=20)
                if verdict == "unsat":
                    continue
                if verdict == "inconclusive":
                    return finish(ob, "inconclusive", st, detail="no verdict for %d cells, %d headers" % (m, h))
                # sat: the model interprets the uninterpreted pow arbitrarily -> replay on seeded concrete points of this shape
                for _ in range(4):
                    pt = random_ratio_point(r, m, h)
                    # keep the model's header sizes when they are small integers (a branch on `size == 0` is only taken there)
                    if model is not None:
                        hs = [list(hd) for hd in pt[1]]
                        for k in range(h):
                            mv = model_small_int(model, headers[k][1])
                            if mv is not None:
                                hs[k][1] = mv
                        pt = (pt[0], [tuple(x) for x in hs]) + tuple(pt[2:])
                    req = ratio_request(*pt)
                    ans = replay([req])[0]
                    exp = ratio_spec_mod_p(*pt)
                    if ok_int(ans) != exp:
                        return finish(ob, "violated", st, detail="shape (%d cells, %d headers): sat; reproduced natively on a seeded point" % (m, h),
                                      cex=req, replay_rec={"reproduced": True, "request": req, "real_output": str(ans), "expected": hx(exp)})
                return finish(ob, "inconclusive", st, detail="shape (%d cells, %d headers): sat but the real function equals the closed form at 4 "
                              "seeded points (encoding problem)" % (m, h))
        return finish(ob, "holds", st, detail="%d shapes; assert! sites seen and not encoded (C18): %s; translator validated at 2 points"
                      % ((max_cells + 1) * (max_headers + 1), sorted(asserts_seen)))
    return guarded(ob, body)


def _job(args):
    return globals()[args[0]](*args[1:])


def run(tier):
    import multiprocessing as mp
    from common import replay_binary
    try:
        replay_binary(())
    except ReplayUnavailable:
        pass
    if tier == "quick":
        jobs = [("ob_ruler", list(range(1, 17)), [s]) for s in (1, 2, 3, 4)] + [("ob_step",), ("ob_expand", 4, [1, 2, 3, 4]),
                ("ob_native_layout_point",), ("ob_ratio", 3, 2)]
    else:
        jobs = [("ob_ruler", list(range(1, 17)), [s]) for s in (1, 2, 3, 4)] + [("ob_step",), ("ob_expand", 5, [1, 2, 3, 4]),
                ("ob_native_layout_point",), ("ob_ratio", 4, 3)]
    with mp.get_context("fork").Pool(min(len(jobs), 8)) as pool:
        obs = pool.map(_job, jobs, chunksize=1)
    for ob in obs:
        if ob["id"] == "C15.diluted.i_ruler":
            ob["id"] += ".s" + ob["bounds"].split("spacing in [")[1].split("]")[0]
    return {"property": "C15", "tier": tier,
            "assumptions": [
                "field elements are modelled as reals (ring identities over Q hold in F_p); 2^spacing and z^size are uninterpreted "
                "pow terms, so only their arguments are compared",
                "induction over the loop (stated, not re-proved): (i) ruler + (ii) step + (iii) init/exit give r_{2^n_bits} for every n_bits >= 1; "
                "(iv) re-checks the composition for small n_bits by brute force",
                "n_bits = 0 never leaves the loop (i == n_bits-1 wraps): handed to C17",
                "Dilute(j) fits: n_bits*spacing <= 64 in the enumerated range",
            ],
            "obligations": obs}
