"""Value model and z3 integer encoding of the felt-sx executor (structural properties C13 C14 C07S C01S C02S C08S C17 C18).

Felt       F(v) concrete residue | SF(t) z3 Int term in [0,P)
integers   python int | SI(t, hi) z3 Int term with 0 <= t <= hi (machine integer; hi = type maximum or tighter)
big ints   BI(v)  v python int or z3 Int (result of to_bigint / to_biguint)
booleans   python bool | z3 BoolRef
Vec/slice  symex.RList (python list, CONCRETE length);  Option/Result symex.ResultV;  structs SStruct;  enum values EnumV
"""
import z3

from symex import F, RList, ResultV, P

PZ = z3.IntVal(P)
TWO64 = 2**64
BITS = {"usize": 64, "u64": 64, "u32": 32, "u8": 8, "u16": 16, "u128": 128, "isize": 64, "i64": 64, "i32": 32}


class SF(object):
    __slots__ = ("t",)
    def __init__(self, t):
        self.t = t
    def __repr__(self):
        s = str(self.t)
        return "SF(%s)" % (s if len(s) < 60 else s[:57] + "...")


class SI(object):
    __slots__ = ("t", "hi")
    def __init__(self, t, hi):
        self.t, self.hi = t, hi
    def __repr__(self):
        return "SI(%s)" % (str(self.t)[:60],)


class BI(object):
    __slots__ = ("v",)
    def __init__(self, v):
        self.v = v
    def __repr__(self):
        return "BI(%s)" % (str(self.v)[:60],)


class NZ(object):
    """NonZeroFelt; checked=False when built by from_felt_unchecked (zero is only detected at the division)"""
    __slots__ = ("v", "checked")
    def __init__(self, v, checked):
        self.v, self.checked = v, checked
    def __repr__(self):
        return "NZ(%r)" % (self.v,)


class SStruct(object):
    def __init__(self, name, fields, mod=None):
        self.name, self.fields, self.mod = name, fields, mod
    @property
    def rtype(self):
        return self.name
    def __repr__(self):
        return "%s{%s}" % (self.name, ", ".join("%s: %r" % kv for kv in self.fields.items()))


class EnumV(object):
    """enum value; payload is None (unit), a list (tuple variant) or a dict (struct variant)"""
    def __init__(self, enum, variant, payload=None, file=None):
        self.enum, self.variant, self.payload, self.file = enum, variant, payload, file
    def chain(self):
        """variant names from the outside in, following single tuple payloads (what `{:?}` prints first)"""
        out = [self.variant]
        if isinstance(self.payload, list) and len(self.payload) == 1 and isinstance(self.payload[0], EnumV):
            out += self.payload[0].chain()
        return out
    def __repr__(self):
        if self.payload is None:
            return self.variant
        if isinstance(self.payload, list):
            return "%s(%s)" % (self.variant, ", ".join(repr(x) for x in self.payload))
        return "%s{%s}" % (self.variant, ", ".join("%s: %r" % kv for kv in self.payload.items()))


class Closure(object):
    def __init__(self, params, body, env, file, owner, mod):
        self.params, self.body, self.env, self.file, self.owner, self.mod = params, body, env, file, owner, mod


class ByteChunk(object):
    """a run of bytes inside a Vec<u8>: kind in felt(32) u64(8) u8(1) digest(32) big(n)"""
    def __init__(self, kind, v):
        self.kind, self.v = kind, v
    def __repr__(self):
        return "bytes:%s(%r)" % (self.kind, self.v)


class Hasher(object):
    def __init__(self, family):
        self.family, self.tokens = family, []


class Digest(object):
    def __init__(self, family, tokens, raw=None):
        self.family, self.tokens, self.raw = family, tokens, raw
        self.acc = None


class DigestSlice(object):
    def __init__(self, d, lo, hi):
        self.d, self.lo, self.hi = d, lo, hi


class Unit(object):
    pass


def is_felt(x):
    return isinstance(x, (F, SF))


def is_int(x):
    return (isinstance(x, int) and not isinstance(x, bool)) or isinstance(x, SI)


def is_bool(x):
    return isinstance(x, bool) or isinstance(x, z3.BoolRef)


def zi(x):
    """integer value -> z3 Int"""
    if isinstance(x, F):
        return z3.IntVal(x.v)
    if isinstance(x, SF):
        return x.t
    if isinstance(x, SI):
        return x.t
    if isinstance(x, BI):
        return zi(x.v)
    if isinstance(x, bool):
        raise TypeError("bool used as integer")
    if isinstance(x, int):
        return z3.IntVal(x)
    if z3.is_expr(x):
        return x
    raise TypeError("not an integer value: %r" % (x,))


def zb(x):
    if isinstance(x, bool):
        return z3.BoolVal(x)
    return x


def b_and(a, b):
    if isinstance(a, bool):
        return b if a else False
    if isinstance(b, bool):
        return a if b else False
    return z3.And(a, b)


def b_or(a, b):
    if isinstance(a, bool):
        return True if a else b
    if isinstance(b, bool):
        return True if b else a
    return z3.Or(a, b)


def b_not(a):
    if isinstance(a, bool):
        return not a
    return z3.Not(a)


def concrete_of(t):
    """python int of a z3 integer numeral, else None"""
    if isinstance(t, int):
        return t
    if z3.is_int_value(t):
        return t.as_long()
    return None


def deep_copy(v):
    """Rust clone()/to_owned()/to_vec(): containers are copied, scalars are immutable"""
    if isinstance(v, RList):
        r = RList([deep_copy(x) for x in v], rtype=v.rtype, name=v.name)
        return r
    if isinstance(v, list):
        return RList([deep_copy(x) for x in v])
    if isinstance(v, SStruct):
        return SStruct(v.name, dict((k, deep_copy(x)) for k, x in v.fields.items()), v.mod)
    if isinstance(v, ResultV):
        return ResultV(v.kind, deep_copy(v.value))
    if isinstance(v, tuple):
        return tuple(deep_copy(x) for x in v)
    if isinstance(v, dict):
        return dict((k, deep_copy(x)) for k, x in v.items())
    if isinstance(v, EnumV):
        return v
    return v
