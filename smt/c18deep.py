"""C18 entry points that need a FRI / STARK instance: fri_verify, stark_commit, stark_verify, eval_oods_boundary_poly_at_points.
Geometry (step sizes, degree bound, blow-up, query positions) is concrete and accepted by the real validate; all contents are symbolic;
vector lengths are honest +- 1 one at a time."""
import z3

from symex import F, RList, ResultV
from sxval import SStruct, zi, deep_copy
from sxlib import to_json
import sxh
import frimodel
import starkmodel
import c18
from c18 import Entry, protected

GEOS = [([0, 1], 0, 1, [1]), ([0, 2], 1, 1, [3, 9]), ([0, 1, 2], 0, 1, [6])]


def b_fri_verify(h, shape):
    (steps, bound, lnc, qs), tweak = shape
    g = frimodel.geometry(steps, bound, lnc, qs)
    inst = frimodel.fri_instance(h, g, nvf=F(0), tweak=dict(tweak))
    cfg = inst["commitment"].fields["config"]
    if "fri_step_sizes" not in dict(tweak):
        protected(h, lambda: h.require_ok(h.call(sxh.F_FRICFG, "validate", [F(lnc), F(0)], owner="Config", self_val=cfg)))
    for pt in inst["decommitment"].fields["points"]:
        h.ex.assume(zi(pt) != 0)
    inp = dict(inst)
    inp["_request"] = lambda c: [{"fn": "fri_verify", "queries": to_json(c["queries"]), "commitment": to_json(c["commitment"]),
                                  "decommitment": to_json(c["decommitment"]), "witness": to_json(c["witness"])}]
    return inp, lambda: h.call(sxh.F_FRI, "fri_verify", [inst["queries"], inst["commitment"], inst["decommitment"], inst["witness"]])


def fri_tweaks(g, reachable):
    n = len(g[0])
    T = [()]
    if reachable:
        T += [(("layers", -1),), (("layers", 1),)]
        for i in range(n - 1):
            T += [((("leaves", i), -1),), ((("leaves", i), 1),), ((("authentications", i), -1),), ((("authentications", i), 1),)]
        T += [(("fri_step_sizes", 1),)]
    else:
        T += [(("points", -1),), (("values", -1),), (("values", 1),), (("queries", -1),), (("queries", 1),), (("inner_layers", -1),), (("eval_points", -1),),
              (("fri_step_sizes", -1),)]
    return T


def b_stark_commit(h, shape):
    (steps, bound, lnc, qs), n_oods, tweak = shape
    g = frimodel.geometry(steps, bound, lnc, qs)
    c = starkmodel.commit_inputs(h, g, n_oods, tweak=dict(tweak))
    cfg = c["cfg"]
    sec, n1, n2 = h.felt("sec"), h.felt("n1"), h.felt("n2")
    if not any(k in dict(tweak) for k in ("config_inner_layers", "fri_step_sizes")) or True:
        protected(h, lambda: h.require_ok(h.call(sxh.F_STARKCFG, "validate", [sec, n1, n2], owner="StarkConfig", self_val=cfg)))
    dom = protected(h, lambda: starkmodel.domains(h, cfg))
    inp = dict(c)
    inp.update(sec=sec, n1=n1, n2=n2, dom=dom)
    inp["_request"] = lambda cc: [starkmodel.commit_request(cc, cc["dom"]), c18.validate_req(cc)]
    return inp, lambda: h.call(sxh.F_COMMIT, "stark_commit", [c["tr"], c["pi"], c["un"], cfg, dom])


def b_stark_verify(h, shape):
    (steps, bound, lnc, qs), n0, n1, n_oods, tweak = shape
    g = frimodel.geometry(steps, bound, lnc, qs)
    consts = starkmodel.layout_consts(h.ex)
    c = starkmodel.verify_inputs(h, g, n0, n1, n_oods, consts, tweak=dict(tweak))
    cfg = sxh.stark_config_concrete(h, "cfg", steps, bound, lnc)
    dom = protected(h, lambda: starkmodel.domains(h, cfg))
    inp = dict(c)
    inp["dom"] = dom
    inp["_request"] = lambda cc: [starkmodel.verify_request(cc, cc["dom"])]
    return inp, lambda: h.call(sxh.F_VERIFY, "stark_verify", [n0, n1, c["pi"], c["qs"], c["com"], c["wit"], dom])


def b_eval_oods(h, shape):
    npts, n0, n1, tweak, n_oods = shape
    tw = dict(tweak)
    consts = starkmodel.layout_consts(h.ex)
    pi = starkmodel.public_input(h)
    info = SStruct("OodsEvaluationInfo", {"oods_values": h.felts("oods", n_oods), "oods_point": h.felt("z"), "trace_generator": h.felt("tg"),
                                          "constraint_coefficients": h.felts("oc", consts["MASK_SIZE"] + consts["CONSTRAINT_DEGREE"])}, h.w.mod(sxh.F_OODS))
    pts = h.felts("pt", npts)
    dec = h.struct(sxh.F_TRACE, "Decommitment", "dec", {"dec.original.values": max(0, npts * n0 + tw.get("original", 0)),
                                                         "dec.interaction.values": max(0, npts * n1 + tw.get("interaction", 0))})
    cdec = h.struct(sxh.F_TTYPES, "Decommitment", "cdec", {"cdec.values": max(0, npts * consts["CONSTRAINT_DEGREE"] + tw.get("composition", 0))})
    inp = {"n0": n0, "n1": n1, "pi": pi, "info": info, "pts": pts, "dec": dec, "cdec": cdec}
    inp["_request"] = lambda c: [{"fn": "eval_oods_boundary_poly_at_points", "n_original_columns": c["n0"], "n_interaction_columns": c["n1"],
                                  "public_input": to_json(c["pi"]), "oods_values": to_json(c["info"].fields["oods_values"]),
                                  "oods_point": to_json(c["info"].fields["oods_point"]), "trace_generator": to_json(c["info"].fields["trace_generator"]),
                                  "constraint_coefficients": to_json(c["info"].fields["constraint_coefficients"]), "points": to_json(c["pts"]),
                                  "decommitment": to_json(c["dec"]), "composition_decommitment": to_json(c["cdec"])}]
    return inp, lambda: h.call(sxh.F_OODS, "eval_oods_boundary_poly_at_points", [n0, n1, pi, info, pts, dec, cdec])


def entries(tier):
    E = []
    geos = GEOS if tier == "quick" else GEOS + [([0, 2, 1], 1, 2, [5, 37]), ([0, 1, 1], 1, 1, [0, 7])]
    toy = dict(toy=True, abstract=lambda w: starkmodel.abstract_layout(None), types=starkmodel.toy_types)
    fv = [sxh.F_FRI + "::fri_verify", sxh.F_FRI + "::fri_verify_layers", sxh.F_LAYER + "::compute_next_layer", sxh.F_LAYER + "::compute_coset_elements",
          sxh.F_FIRST + "::gather_first_layer_queries", sxh.F_LAST + "::verify_last_layer"]
    E.append(Entry("fri_verify", fv, [(g, t) for g in geos for t in fri_tweaks(g, True)], b_fri_verify, int_bound=17, max_paths=400, budget_s=240,
                   pre="commitment as fri_commit returns it for a config accepted by fri::Config::validate; queries sorted / unique / in range and as many "
                       "values and non-zero points as queries (generate_queries, queries_to_points, eval_oods_boundary_poly_at_points)",
                   bounds="geometries %s; witness.layers, each leaves / authentications vector, fri_step_sizes: honest length and +-1 one at a time; contents symbolic" % (geos,),
                   info=Entry("fri_verify", fv, [(g, t) for g in geos[:2] for t in fri_tweaks(g, False)[1:]], b_fri_verify, int_bound=17,
                              pre="none (decommitment / commitment lengths that stark_verify / fri_commit cannot produce)")))
    alone = c18.standalone_entries()
    s3 = list(range(0, 4))
    E.append(Entry("fri_commit", [sxh.F_FRI + "::fri_commit", sxh.F_FRI + "::fri_commit_rounds", sxh.F_COMMIT + "::stark_commit"],
                   [(geos[0], 5, (("unsent_inner_layers", a - 1), ("last_layer_coefficients", b - 1))) for a in s3 for b in s3] +
                   [(geos[2], 5, (("unsent_inner_layers", a - 2), ("last_layer_coefficients", b - 1))) for a in s3 for b in s3],
                   b_stark_commit, int_bound=17, budget_s=240,
                   pre="reached through stark_commit with a config accepted by StarkConfig::validate (unsent FRI vectors of any length)",
                   bounds="ToyLayout; 2- and 3-layer geometries; unsent inner_layers and last_layer_coefficients lengths 0..=3 independently", info=alone["fri_commit"], **toy))
    bigq = lambda lnc: ([0] + [4] * 14, 0, lnc, [1])
    E.append(Entry("queries_to_points", [sxh.F_QUERIES + "::queries_to_points", sxh.F_VERIFY + "::stark_verify"],
                   [(geos[0], 1, 1, 5, ()), (bigq(8), 1, 1, 5, ()), (bigq(9), 1, 1, 5, ())], b_stark_verify, int_bound=17, max_paths=200, budget_s=280,
                   pre="reached through stark_verify (after the trace / composition decommitments) with a config accepted by validate",
                   bounds="ToyLayout; geometries with log_eval_domain_size in {2, 64, 65}; 1 query; contents symbolic", info=alone["queries_to_points"], **toy))
    E.append(Entry("stark_commit", [sxh.F_COMMIT + "::stark_commit", sxh.F_OODS + "::verify_oods", sxh.F_FRI + "::fri_commit", sxh.F_POW + "::commit"],
                   [(geos[0], L, ()) for L in range(0, 8)] + [(g, 5, t) for g in geos[:2] for t in ((("unsent_inner_layers", -1),), (("unsent_inner_layers", 1),),
                                                                                                   (("last_layer_coefficients", -1),), (("last_layer_coefficients", 1),))],
                   b_stark_commit, int_bound=17, budget_s=240, pre="StarkConfig::validate(config) is Ok; domains = StarkDomains::new(config..)",
                   bounds="ToyLayout (MASK_SIZE 3, CONSTRAINT_DEGREE 2, evaluators uninterpreted); oods_values.len() in 0..=7; unsent FRI vectors honest +-1", **toy))
    sv = [sxh.F_VERIFY + "::stark_verify", sxh.F_OODS + "::eval_oods_boundary_poly_at_points", sxh.F_QUERIES + "::queries_to_points", sxh.F_FRI + "::fri_verify"]
    wt = [(), (("original_values", -1),), (("original_values", 1),), (("interaction_values", -1),), (("composition_values", -1),), (("composition_values", 1),),
          (("original_auth", -1),), (("composition_auth", -1),), (("composition_auth", 1),), (("layers", -1),), ((("leaves", 0), -1),), ((("authentications", 0), -1),)]
    E.append(Entry("stark_verify", sv, [(geos[0], 1, 1, 5, t) for t in wt] + [(geos[1], 2, 1, 5, ()), (geos[0], 1, 1, 4, ()), (geos[0], 1, 1, 6, ())],
                   b_stark_verify, int_bound=17, max_paths=600, budget_s=280,
                   pre="commitment as stark_commit returns it (validated config); queries sorted / unique / in range",
                   bounds="ToyLayout; 1-2 queries; witness vectors honest +-1 one at a time; oods_values.len() in {4,5,6}", **toy))
    eo = [sxh.F_OODS + "::eval_oods_boundary_poly_at_points"]
    E.append(Entry("eval_oods_boundary_poly_at_points", eo, [(p, n0, n1, (), L) for p in (0, 1, 2) for n0, n1 in ((1, 1), (2, 1)) for L in (0, 5, 6)], b_eval_oods,
                   pre="decommitment lengths = points.len() * columns (enforced by the table_decommit calls that precede it in stark_verify)",
                   bounds="ToyLayout; 0..2 points; (n_original, n_interaction) in {(1,1),(2,1)}",
                   info=Entry("eval_oods_boundary_poly_at_points", eo, [(1, 1, 1, ((k, d),), 5) for k in ("original", "interaction", "composition") for d in (-1, 1)],
                              b_eval_oods, pre="none", **toy), **toy))
    return E
