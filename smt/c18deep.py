"""C18 entry points that need a FRI / STARK instance (filled in below)"""

def entries(tier):
    return []
