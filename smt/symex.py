"""Symbolic executor for the Rust subset parsed by rsparse.py.

Field elements are either
  * `F(v)`        a concrete residue mod p (all concrete arithmetic is done mod p), or
  * any other object: a symbolic value owned by the `Algebra` passed to the interpreter
    (z3 Real terms, ring 8-tuples, DAG nodes ...).
usize / u64 values are plain Python ints; they are coerced to F when they meet a Felt.
Everything the interpreter does not understand raises rsparse.Unsupported with the line.
"""
from rsparse import Unsupported

P = 2**251 + 17 * 2**192 + 1


class F(object):
    __slots__ = ("v",)
    def __init__(self, v):
        self.v = v % P
    def __repr__(self):
        return "F(%#x)" % self.v
    def __eq__(self, o):
        return isinstance(o, F) and o.v == self.v
    def __hash__(self):
        return hash(("F", self.v))


def sym_rep(v):
    """symmetric integer representative of a residue"""
    v %= P
    return v if v <= P // 2 else v - P


class RList(list):
    """Vec / slice / tuple-struct-deref-to-Vec value.  Optionally tracks which indices are read."""
    def __init__(self, items=(), rtype=None, name=None, track=False, default=None):
        list.__init__(self, items)
        self.rtype, self.name = rtype, name
        self.reads = {} if track else None
        self.read_lines = {}
        self.default = default      # callable(index) for lazily sized symbolic arrays


class Struct(object):
    def __init__(self, rtype, fields):
        self.rtype, self.fields = rtype, fields
    def __repr__(self):
        return "%s%r" % (self.rtype, self.fields)


class ResultV(object):
    """Ok(..)/Err(..)/Some(..)/None"""
    def __init__(self, kind, value=None):
        self.kind, self.value = kind, value
    def __repr__(self):
        return "%s(%r)" % (self.kind, self.value)


class Cond(object):
    """symbolic boolean: op in == != < <= > >= not"""
    def __init__(self, op, a, b=None):
        self.op, self.a, self.b = op, a, b
    def __repr__(self):
        return "Cond(%s,%r,%r)" % (self.op, self.a, self.b)


class BreakEx(Exception):
    def __init__(self, value):
        self.value = value
class ReturnEx(Exception):
    def __init__(self, value):
        self.value = value
class ContinueEx(Exception):
    pass
class Closure(object):
    def __init__(self, params, body, env, file, owner):
        self.params, self.body, self.env, self.file, self.owner = params, body, env, file, owner
def _mine(exc, node):
    lab = getattr(exc, "label", None)
    return lab is None or lab == getattr(node, "label", None)
def closure_result_kind(c):
    """'Some' / 'Ok' when the closure body visibly ends in Some(..) / Ok(..) (decides Option vs Result for an empty try_fold), else None"""
    body = getattr(c, "body", None)
    while isinstance(body, tuple) and body and body[0] == "block":
        body = body[2]
    if isinstance(body, tuple) and body and body[0] == "call" and body[1][0] == "path" and body[1][1][-1] in ("Some", "Ok"):
        return body[1][1][-1]
    return None
class RustPanic(Exception):
    def __init__(self, file, line, what):
        self.file, self.line, self.what = file, line, what
        Exception.__init__(self, "%s:%s: panic: %s" % (file, line, what))
class LoopBound(Exception):
    pass
class StopExecution(Exception):
    """raised by hooks to stop the run early (payload = whatever the hook wants back)"""
    def __init__(self, payload=None):
        self.payload = payload


class Algebra(object):
    """Interface of a symbolic Felt domain.  Arguments are symbolic values or F constants."""
    def const(self, v): raise NotImplementedError
    def lift(self, x):
        return self.const(x.v) if isinstance(x, F) else x
    def add(self, a, b): raise NotImplementedError
    def sub(self, a, b): raise NotImplementedError
    def mul(self, a, b): raise NotImplementedError
    def neg(self, a): return self.sub(self.const(0), a)
    def fdiv(self, a, b): raise NotImplementedError
    def floordiv(self, a, b): raise NotImplementedError
    def pow(self, a, e): raise NotImplementedError


class Decider(object):
    """Answers symbolic branch conditions from a fixed prefix, then `default`; records the trace."""
    def __init__(self, prefix=(), default=True):
        self.prefix, self.default, self.trace = list(prefix), default, []
    def __call__(self, cond, line):
        k = len(self.trace)
        b = self.prefix[k] if k < len(self.prefix) else self.default
        self.trace.append((cond, b, line))
        return b


def explore(run, max_paths=256):
    """Enumerate all paths of `run(decider)`; returns [(trace, outcome)]."""
    results, stack = [], [[]]
    while stack:
        prefix = stack.pop()
        d = Decider(prefix)
        out = run(d)
        results.append((d.trace, out))
        if len(results) > max_paths:
            raise LoopBound("more than %d symbolic paths" % max_paths)
        for k in range(len(prefix), len(d.trace)):
            stack.append([t[1] for t in d.trace[:k]] + [not d.trace[k][1]])
    return results


FELT_ASSOC = {"ZERO": 0, "ONE": 1, "TWO": 2, "THREE": 3}
INT_ASSOC = {("u128", "MAX"): 2**128 - 1, ("u64", "MAX"): 2**64 - 1, ("usize", "MAX"): 2**64 - 1,
             ("u32", "MAX"): 2**32 - 1, ("u8", "MAX"): 255}


class Interp(object):
    def __init__(self, alg=None, modules=(), types=None, decide=None, max_loop=100000,
                 on_loop_head=None, on_assert=None):
        """modules: list of rsparse.Module searched (in order) for consts / fns / methods.
        types: {'Layout': 'Layout'} generic type parameter -> impl owner name."""
        self.alg = alg
        self.modules = list(modules)
        self.types = dict(types or {})
        self.decide = decide
        self.max_loop = max_loop
        self.on_loop_head = on_loop_head
        self.on_assert = on_assert
        self.nonzero = []        # (value, file, line) of every divisor / felt_nonzero! argument
        self.asserts = []        # (cond value, file, line) of every assert!
        self.file = "?"
        self._const_cache = {}
        self.owner = None

    # ------------------------------------------------------------------ helpers
    def unsupported(self, line, msg):
        raise Unsupported(self.file, line, msg)

    def is_sym(self, x):
        return not isinstance(x, (F, int, bool, list, tuple, Struct, ResultV, Cond, str, type(None)))

    def felt(self, x, line):
        """coerce to a Felt value (F or symbolic)"""
        if isinstance(x, F):
            return x
        if isinstance(x, bool):
            self.unsupported(line, "bool used as Felt")
        if isinstance(x, int):
            return F(x)
        if self.is_sym(x):
            return x
        self.unsupported(line, "value %r is not a field element" % (x,))

    def arith(self, op, a, b, line):
        if isinstance(a, int) and isinstance(b, int) and not isinstance(a, bool) and not isinstance(b, bool):
            if op == "+": return a + b
            if op == "-":
                if a - b < 0:
                    raise RustPanic(self.file, line, "usize subtraction underflow")
                return a - b
            if op == "*": return a * b
            if op == "/":
                if b == 0:
                    raise RustPanic(self.file, line, "division by zero")
                return a // b
            if op == "%": return a % b
        a, b = self.felt(a, line), self.felt(b, line)
        if isinstance(a, F) and isinstance(b, F):
            if op == "+": return F(a.v + b.v)
            if op == "-": return F(a.v - b.v)
            if op == "*": return F(a.v * b.v)
            self.unsupported(line, "operator %s on Felt" % op)
        alg = self.alg
        if alg is None:
            self.unsupported(line, "symbolic value without an algebra")
        if op == "+": return alg.add(a, b)
        if op == "-": return alg.sub(a, b)
        if op == "*": return alg.mul(a, b)
        self.unsupported(line, "operator %s on symbolic Felt" % op)

    def compare(self, op, a, b, line):
        if isinstance(a, bool) or isinstance(b, bool):
            if op == "==": return a == b
            if op == "!=": return a != b
        if isinstance(a, int) and isinstance(b, int):
            return {"==": a == b, "!=": a != b, "<": a < b, "<=": a <= b, ">": a > b, ">=": a >= b}[op]
        a, b = self.felt(a, line), self.felt(b, line)
        if isinstance(a, F) and isinstance(b, F):
            return {"==": a.v == b.v, "!=": a.v != b.v, "<": a.v < b.v, "<=": a.v <= b.v,
                    ">": a.v > b.v, ">=": a.v >= b.v}[op]
        return Cond(op, a, b)

    def truth(self, c, line):
        if isinstance(c, bool):
            return c
        if isinstance(c, Cond):
            if self.decide is None:
                self.unsupported(line, "branch on a symbolic condition")
            return self.decide(c, line)
        self.unsupported(line, "condition is not a boolean: %r" % (c,))

    def felt_pow(self, base, e, line):
        base, e = self.felt(base, line), self.felt(e, line)
        if isinstance(base, F) and isinstance(e, F):
            return F(pow(base.v, e.v, P))
        return self.alg.pow(base, e)

    def felt_fdiv(self, a, b, line):
        a, b = self.felt(a, line), self.felt(b, line)
        self.nonzero.append((b, self.file, line))
        if isinstance(a, F) and isinstance(b, F):
            if b.v == 0:
                raise RustPanic(self.file, line, "field_div by zero")
            return F(a.v * pow(b.v, P - 2, P))
        return self.alg.fdiv(a, b)

    def felt_floordiv(self, a, b, line):
        a, b = self.felt(a, line), self.felt(b, line)
        self.nonzero.append((b, self.file, line))
        if isinstance(a, F) and isinstance(b, F):
            if b.v == 0:
                raise RustPanic(self.file, line, "floor_div by zero")
            return F(a.v // b.v)
        return self.alg.floordiv(a, b)

    # ------------------------------------------------------------------ lookup
    def find_fn(self, name):
        for m in self.modules:
            if name in m.fns:
                return m.fns[name], m
        return None, None

    def find_method(self, owner, name):
        for m in self.modules:
            if (owner, name) in m.methods:
                return m.methods[(owner, name)], m
        return None, None

    def const_value(self, name, line):
        if name in self._const_cache:
            return self._const_cache[name]
        for m in self.modules:
            if name in m.consts:
                e = m.consts[name]
                if e[0] == "unsupported":
                    raise Unsupported(m.file, e[2], "constant %s: %s" % (name, e[1]))
                save = self.file
                self.file = m.file
                try:
                    v = self.eval(e, [{}])
                finally:
                    self.file = save
                self._const_cache[name] = v
                return v
        return None

    def assoc_const(self, owner, name, line):
        owner = self.types.get(owner, owner)
        if owner == "Self":
            owner = self.owner
        for m in self.modules:
            for (o, tr, n), e in m.assoc_consts.items():
                if o == owner and n == name:
                    save = self.file
                    self.file = m.file
                    try:
                        return self.eval(e, [{}])
                    finally:
                        self.file = save
        return None

    def lookup(self, env, name):
        for scope in reversed(env):
            if name in scope:
                return scope[name]
        return KeyError

    # ------------------------------------------------------------------ calls
    def call_fn(self, fn, mod, args, line, self_val=None):
        if len(args) != len(fn.params):
            self.unsupported(line, "arity mismatch calling %s" % fn.name)
        scope = {}
        if fn.has_self:
            scope["self"] = self_val
        for (pname, _), a in zip(fn.params, args):
            scope[pname] = a
        save_file, save_owner = self.file, self.owner
        self.file, self.owner = fn.file, fn.owner
        try:
            try:
                return self.exec_block(fn.body, [scope])
            except ReturnEx as r:
                return r.value
        finally:
            self.file, self.owner = save_file, save_owner

    def run(self, fn, args, self_val=None):
        """entry point: run FnItem with the given argument values"""
        for m in self.modules:
            if m.file == fn.file:
                return self.call_fn(fn, m, args, fn.line, self_val)
        return self.call_fn(fn, None, args, fn.line, self_val)

    # ------------------------------------------------------------------ statements
    def exec_block(self, blk, env):
        _, stmts, tail, _ = blk
        env = env + [{}]
        for s in stmts:
            self.exec_stmt(s, env)
        if tail is not None:
            return self.eval(tail, env)
        return ()

    def bind(self, pat, val, scope, line):
        """binds the pattern; returns False when a refutable pattern does not match"""
        k = pat[0]
        if k == "pid":
            scope[pat[1]] = val
            return True
        if k == "pwild":
            return True
        if k == "ptuple":
            if val == () and not pat[1]:
                return True
            if not isinstance(val, tuple) or len(val) != len(pat[1]):
                self.unsupported(line, "tuple pattern does not match value")
            return all([self.bind(p, v, scope, line) for p, v in zip(pat[1], val)])
        if k == "pint":
            if isinstance(val, int) and not isinstance(val, bool):
                return val == pat[1]
            self.unsupported(line, "integer pattern against a non-integer / symbolic value")
        if k == "pbool":
            if isinstance(val, bool):
                return val == pat[1]
            self.unsupported(line, "boolean pattern against a symbolic value")
        if k == "prange":
            if isinstance(val, int) and not isinstance(val, bool):
                return pat[1] <= val <= pat[2]
            self.unsupported(line, "range pattern against a non-integer / symbolic value")
        if k == "ppath":
            name = pat[1][-1]
            if isinstance(val, ResultV):
                return val.kind == name
            self.unsupported(line, "path pattern against %r" % (type(val).__name__,))
        if k == "pctor":
            name = pat[1][-1]
            if isinstance(val, ResultV):
                if val.kind != name:
                    return False
                if len(pat[2]) != 1:
                    self.unsupported(line, "constructor pattern arity")
                return self.bind(pat[2][0], val.value, scope, line)
            self.unsupported(line, "constructor pattern against %r" % (type(val).__name__,))
        if k == "pstruct":
            if isinstance(val, Struct):
                return all([self.bind(p, val.fields[f], scope, line) for f, p in pat[2]])
            self.unsupported(line, "struct pattern against %r" % (type(val).__name__,))
        if k == "pslice":
            before, rest, after = pat[1], pat[2], pat[3]
            if not isinstance(val, list):
                self.unsupported(line, "slice pattern against %r" % (type(val).__name__,))
            n = len(val)
            if rest is False:
                if n != len(before):
                    return False
            elif n < len(before) + len(after):
                return False
            ok = all([self.bind(p, x, scope, line) for p, x in zip(before, val[:len(before)])])
            if after:
                ok = ok and all([self.bind(p, x, scope, line) for p, x in zip(after, val[n - len(after):])])
            if rest:
                scope[rest] = RList(val[len(before):n - len(after)])
            return ok
        if k == "pbind":
            if self.bind(pat[2], val, scope, line):
                scope[pat[1]] = val
                return True
            return False
        if k == "por":
            for alt in pat[1]:
                sc = {}
                if self.bind(alt, val, sc, line):
                    scope.update(sc)
                    return True
            return False
        self.unsupported(line, "unsupported pattern in binding")

    def exec_stmt(self, s, env):
        k = s[0]
        if k == "let":
            _, pat, _mut, init, line = s
            val = self.eval(init, env) if init is not None else None
            if not self.bind(pat, val, env[-1], line):
                self.unsupported(line, "refutable pattern in let")
        elif k == "assign":
            _, op, lhs, rhs, line = s
            if lhs[0] == "un" and lhs[1] == "*":
                lhs = lhs[2]
            if lhs[0] in ("field", "index"):
                val = self.eval(rhs, env)
                obj = self.eval(lhs[1], env)
                if lhs[0] == "field" and isinstance(obj, Struct) and lhs[2] in obj.fields:
                    obj.fields[lhs[2]] = val if op == "=" else self.arith(op[0], obj.fields[lhs[2]], val, line)
                    return
                if lhs[0] == "index" and isinstance(obj, list):
                    i = self.eval(lhs[2], env)
                    if not isinstance(i, int) or isinstance(i, bool):
                        self.unsupported(line, "index is not a concrete integer")
                    if i < 0 or i >= len(obj):
                        raise RustPanic(self.file, line, "index %d out of bounds (len %d)" % (i, len(obj)))
                    obj[i] = val if op == "=" else self.arith(op[0], obj[i], val, line)
                    return
                self.unsupported(line, "unsupported assignment target")
            if lhs[0] != "path" or len(lhs[1]) != 1:
                self.unsupported(line, "assignment target is not a local variable")
            name = lhs[1][0]
            val = self.eval(rhs, env)
            for scope in reversed(env):
                if name in scope:
                    if op != "=":
                        val = self.arith(op[0], scope[name], val, line)
                    scope[name] = val
                    return
            self.unsupported(line, "assignment to unknown variable %s" % name)
        elif k == "expr":
            self.eval(s[1], env)
        else:
            self.unsupported(s[-1], "unknown statement kind %s" % k)

    # ------------------------------------------------------------------ expressions
    def eval(self, e, env):
        k = e[0]
        m = getattr(self, "ev_" + k, None)
        if m is None:
            self.unsupported(e[-1], "expression kind %s" % k)
        return m(e, env)

    def ev_int(self, e, env): return e[1]
    def ev_str(self, e, env): return e[1]
    def ev_bool(self, e, env): return e[1]

    def ev_path(self, e, env):
        segs, line = e[1], e[2]
        if len(segs) == 1:
            v = self.lookup(env, segs[0])
            if v is not KeyError:
                return v
            v = self.const_value(segs[0], line)
            if v is not None:
                return v
            if segs[0] == "None":
                return ResultV("None")
            self.unsupported(line, "unknown name %s" % segs[0])
        if len(segs) == 2:
            a, b = segs
            if a == "Felt" and b in FELT_ASSOC:
                return F(FELT_ASSOC[b])
            if (a, b) in INT_ASSOC:
                return INT_ASSOC[(a, b)]
            v = self.assoc_const(a, b, line)
            if v is not None:
                return v
        v = self.const_value("::".join(segs), line)
        if v is None:
            v = self.const_value(segs[-1], line) if len(segs) > 1 and segs[0] in ("crate", "super", "self") else None
        if v is not None:
            return v
        if len(segs) == 2 and segs[0][:1].isupper() and segs[1][:1].isupper() and (segs[0].endswith("Error") or segs[0] == "Error"):
            # a unit variant of an error enum (enum definitions are skipped by the parser): opaque value
            return "::".join(segs)
        self.unsupported(line, "unknown path %s" % "::".join(segs))

    def ev_tuple(self, e, env):
        return tuple(self.eval(x, env) for x in e[1])

    def ev_un(self, e, env):
        _, op, x, line = e
        v = self.eval(x, env)
        if op in ("&", "&mut", "*"):
            return v
        if op == "-":
            v = self.felt(v, line)
            if isinstance(v, F):
                return F(-v.v)
            return self.alg.neg(v)
        if op == "!":
            if isinstance(v, bool):
                return not v
            if isinstance(v, Cond):
                return Cond("not", v)
        self.unsupported(line, "unary %s" % op)

    def ev_bin(self, e, env):
        _, op, l, r, line = e
        if op == "&&":
            a = self.truth(self.eval(l, env), line)
            return self.truth(self.eval(r, env), line) if a else False
        if op == "||":
            a = self.truth(self.eval(l, env), line)
            return True if a else self.truth(self.eval(r, env), line)
        a, b = self.eval(l, env), self.eval(r, env)
        if op in ("==", "!=", "<", "<=", ">", ">="):
            return self.compare(op, a, b, line)
        return self.arith(op, a, b, line)

    def ev_cast(self, e, env):
        v = self.eval(e[1], env)
        if isinstance(v, int) and not isinstance(v, bool):
            return v
        self.unsupported(e[-1], "`as` cast of a non-integer")

    def ev_block(self, e, env):
        return self.exec_block(e, env)

    def ev_if(self, e, env):
        _, cond, then, els, line = e
        c = self.truth(self.eval(cond, env), line)
        if c:
            return self.exec_block(then, env)
        if els is not None:
            return self.exec_block(els, env)
        return ()

    def ev_match(self, e, env):
        _, scrut, arms, line = e
        v = self.eval(scrut, env)
        if isinstance(v, F):
            self.unsupported(line, "match on a Felt")
        if self.is_sym(v) or isinstance(v, Cond):
            self.unsupported(line, "match on a non-integer / symbolic value")
        for arm in arms:
            pat, body = arm[0], arm[1]
            scope = {}
            if self.bind(pat, v, scope, line):
                if len(arm) > 2 and not self.truth(self.eval(arm[2], env + [scope]), line):
                    continue
                return self.eval(body, env + [scope])
        raise RustPanic(self.file, line, "non-exhaustive match")

    def ev_iflet(self, e, env):
        _, pat, scrut, then, els, line = e
        v = self.eval(scrut, env)
        scope = {}
        if self.bind(pat, v, scope, line):
            return self.exec_block(then, env + [scope])
        if els is not None:
            return self.exec_block(els, env)
        return ()

    def ev_letelse(self, e, env):
        _, pat, init, blk, line = e
        v = self.eval(init, env)
        scope = {}
        if self.bind(pat, v, scope, line):
            env[-1].update(scope)
            return ()
        self.exec_block(blk, env)
        self.unsupported(line, "the else block of `let .. else` did not diverge")

    def ev_matches(self, e, env):
        _, x, pat, guard, line = e
        v = self.eval(x, env)
        scope = {}
        if not self.bind(pat, v, scope, line):
            return False
        return self.truth(self.eval(guard, env + [scope]), line) if guard is not None else True

    def ev_closure(self, e, env):
        return Closure(e[1], e[2], env, self.file, self.owner)

    def call_closure(self, c, args, line):
        if not isinstance(c, Closure):
            if callable(c):
                return c(*args)
            self.unsupported(line, "call of a non-closure value")
        if len(args) != len(c.params):
            self.unsupported(line, "closure arity mismatch")
        scope = {}
        for p, a in zip(c.params, args):
            if not self.bind(p, a, scope, line):
                self.unsupported(line, "closure parameter pattern does not match")
        save = (self.file, self.owner)
        self.file, self.owner = c.file, c.owner
        try:
            return self.eval(c.body, c.env + [scope])
        finally:
            self.file, self.owner = save

    def ev_array(self, e, env):
        return RList([self.eval(x, env) for x in e[1]])

    def ev_repeat(self, e, env):
        n = self.eval(e[2], env)
        if not isinstance(n, int) or isinstance(n, bool):
            self.unsupported(e[-1], "array length is not a concrete integer")
        return RList([self.eval(e[1], env) for _ in range(n)])

    def ev_while(self, e, env):
        _, cond, blk, line = e
        n = 0
        while True:
            if self.on_loop_head is not None:
                self.on_loop_head(self, env, n, line)
            if n >= self.max_loop:
                raise LoopBound("%s:%d: loop did not terminate within %d iterations" % (self.file, line, self.max_loop))
            if not self.truth(self.eval(cond, env), line):
                return ()
            try:
                self.exec_block(blk, env)
            except BreakEx as b:
                if not _mine(b, e):
                    raise
                return ()
            except ContinueEx as c:
                if not _mine(c, e):
                    raise
            n += 1

    def ev_whilelet(self, e, env):
        _, pat, scrut, blk, line = e
        n = 0
        while True:
            if self.on_loop_head is not None:
                self.on_loop_head(self, env, n, line)
            if n >= self.max_loop:
                raise LoopBound("%s:%d: loop did not terminate within %d iterations" % (self.file, line, self.max_loop))
            scope = {}
            if not self.bind(pat, self.eval(scrut, env), scope, line):
                return ()
            try:
                self.exec_block(blk, env + [scope])
            except BreakEx as b:
                if not _mine(b, e):
                    raise
                return ()
            except ContinueEx as c:
                if not _mine(c, e):
                    raise
            n += 1

    def ev_loop(self, e, env):
        _, blk, line = e
        n = 0
        while True:
            if self.on_loop_head is not None:
                self.on_loop_head(self, env, n, line)
            if n >= self.max_loop:
                raise LoopBound("%s:%d: loop did not terminate within %d iterations" % (self.file, line, self.max_loop))
            try:
                self.exec_block(blk, env)
            except BreakEx as b:
                if not _mine(b, e):
                    raise
                return b.value if b.value is not None else ()
            except ContinueEx as c:
                if not _mine(c, e):
                    raise
            n += 1

    def ev_for(self, e, env):
        _, pat, it, blk, line = e
        seq = self.eval(it, env)
        if isinstance(seq, tuple) and len(seq) == 3 and seq[0] == "range":
            seq = list(range(seq[1], seq[2]))
        if not isinstance(seq, list):
            self.unsupported(line, "for loop over a non-list value")
        for n, item in enumerate(seq):
            if self.on_loop_head is not None:
                self.on_loop_head(self, env, n, line)
            scope = {}
            if not self.bind(pat, item, scope, line):
                self.unsupported(line, "refutable pattern in for")
            try:
                self.exec_block(blk, env + [scope])
            except BreakEx as b:
                if not _mine(b, e):
                    raise
                break
            except ContinueEx as c:
                if not _mine(c, e):
                    raise
                continue
        return ()

    def ev_continue(self, e, env):
        c = ContinueEx()
        c.label = getattr(e, "label", None)
        raise c

    def ev_break(self, e, env):
        b = BreakEx(self.eval(e[1], env) if e[1] is not None else None)
        b.label = getattr(e, "label", None)
        raise b

    def ev_return(self, e, env):
        raise ReturnEx(self.eval(e[1], env) if e[1] is not None else ())

    def ev_try(self, e, env):
        v = self.eval(e[1], env)
        if isinstance(v, ResultV):
            if v.kind in ("Ok", "Some"):
                return v.value
            raise ReturnEx(v)
        self.unsupported(e[-1], "`?` applied to a non-Result value")

    def ev_range(self, e, env):
        _, lo, hi, incl, line = e
        lo = self.eval(lo, env) if lo is not None else None
        hi = self.eval(hi, env) if hi is not None else None
        for x in (lo, hi):
            if x is not None and (not isinstance(x, int) or isinstance(x, bool)):
                self.unsupported(line, "range bound is not a concrete integer")
        if incl and hi is not None:
            hi += 1
        return ("range", lo, hi)

    def ev_struct(self, e, env):
        _, segs, fields, line = e
        name = segs[-1]
        if name == "Self":
            name = self.owner
        return Struct("::".join(segs[:-1] + [name]) if len(segs) > 1 else name,
                      dict((f, self.eval(x, env)) for f, x in fields))

    def ev_field(self, e, env):
        _, recv, name, line = e
        v = self.eval(recv, env)
        if isinstance(v, Struct):
            if name in v.fields:
                return v.fields[name]
            self.unsupported(line, "struct %s has no field %s" % (v.rtype, name))
        if isinstance(v, tuple) and isinstance(name, int):
            return v[name]
        self.unsupported(line, "field access .%s on %r" % (name, type(v).__name__))

    def ev_index(self, e, env):
        _, recv, idx, line = e
        v = self.eval(recv, env)
        i = self.eval(idx, env)
        if not isinstance(v, list):
            self.unsupported(line, "indexing a non-slice value")
        if isinstance(i, tuple) and len(i) == 3 and i[0] == "range":
            lo = 0 if i[1] is None else i[1]
            hi = len(v) if i[2] is None else i[2]
            if lo > hi or hi > len(v):
                raise RustPanic(self.file, line, "slice range %d..%d out of bounds (len %d)" % (lo, hi, len(v)))
            return RList(v[lo:hi], rtype=getattr(v, "rtype", None))
        if isinstance(v, RList) and v.default is not None:
            # lazily sized symbolic array: any index (concrete or symbolic key) is allowed
            key = i
            if v.reads is not None:
                v.reads[key] = v.reads.get(key, 0) + 1
                v.read_lines.setdefault(key, line)
            return v.default(key)
        if isinstance(i, F):
            self.unsupported(line, "index is a Felt")
        if not isinstance(i, int) or isinstance(i, bool):
            self.unsupported(line, "index is not a concrete integer")
        if i < 0 or i >= len(v):
            raise RustPanic(self.file, line, "index %d out of bounds (len %d)" % (i, len(v)))
        if isinstance(v, RList) and v.reads is not None:
            v.reads[i] = v.reads.get(i, 0) + 1
        return v[i]

    def ev_macro(self, e, env):
        _, name, args, line = e
        if name in ("panic", "unreachable", "unimplemented", "todo"):
            raise RustPanic(self.file, line, name + "!")
        if name in ("println", "eprintln", "debug_assert"):
            return ()
        if name == "felt_nonzero":
            v = self.felt(self.eval(args[0], env), line)
            return v
        if name == "felt":
            return self.felt(self.eval(args[0], env), line)
        if name == "felt_hex":
            s = self.eval(args[0], env)
            return F(int(s, 16))
        if name == "vec":
            if len(args) == 3 and args[1] == ("str", ";", line):
                n = self.eval(args[2], env)
                return RList([self.eval(args[0], env)] * n)
            return RList([self.eval(a, env) for a in args])
        if name in ("assert", "assert_eq", "assert_ne"):
            if name == "assert":
                c = self.eval(args[0], env)
            else:
                a, b = self.eval(args[0], env), self.eval(args[1], env)
                c = self.compare("==" if name == "assert_eq" else "!=", a, b, line)
            if isinstance(c, bool):
                if not c:
                    raise RustPanic(self.file, line, "assertion failed")
                return ()
            self.asserts.append((c, self.file, line))
            if self.on_assert is not None:
                self.on_assert(c, self.file, line)
            return ()
        self.unsupported(line, "macro %s!" % name)

    def ev_call(self, e, env):
        _, callee, argexprs, line = e
        if callee[0] != "path":
            self.unsupported(line, "call of a non-path expression")
        segs = callee[1]
        args = [self.eval(a, env) for a in argexprs]
        name = segs[-1]
        if len(segs) == 1:
            if name in ("Ok", "Err", "Some"):
                return ResultV(name, args[0] if args else ())
            lv = self.lookup(env, name)
            if lv is not KeyError and (isinstance(lv, Closure) or callable(lv)):
                return self.call_closure(lv, args, line)
            fn, mod = self.find_fn(name)
            if fn is not None:
                return self.call_fn(fn, mod, args, line)
            self.unsupported(line, "call of unknown function %s" % name)
        ty = segs[-2]
        if ty == "Felt":
            if name == "from":
                return self.felt(args[0], line)
            if name == "from_hex_unchecked":
                return F(int(args[0], 16))
            if name == "from_hex":
                return ResultV("Ok", F(int(args[0], 16)))
        if ty == "NonZeroFelt":
            if name == "from_felt_unchecked":
                return self.felt(args[0], line)
            if name == "try_from":
                v = self.felt(args[0], line)
                if isinstance(v, F) and v.v == 0:
                    return ResultV("Err", "FeltIsZeroError")
                if not isinstance(v, F):
                    self.nonzero.append((v, self.file, line))
                return ResultV("Ok", v)
        if ty in ("Vec", "VecDeque") and name in ("new", "with_capacity"):
            return RList([])
        if ty in ("usize", "u64", "u32", "u128", "u8", "u16") and name in ("from", "try_from"):
            v0 = args[0]
            if isinstance(v0, F):
                v0 = v0.v
            if isinstance(v0, bool):
                v0 = 1 if v0 else 0
            if not isinstance(v0, int):
                self.unsupported(line, "%s::%s of a symbolic value" % (ty, name))
            lim = 2 ** {"usize": 64, "u64": 64, "u32": 32, "u128": 128, "u8": 8, "u16": 16}[ty]
            if name == "from":
                return v0
            return ResultV("Ok", v0) if v0 < lim else ResultV("Err", "TryFromIntError")
        fn, mod = self.find_fn(name)
        if fn is not None and ty not in ("Felt", "NonZeroFelt"):
            return self.call_fn(fn, mod, args, line)
        owner = self.types.get(ty, ty)
        if owner == "Self":
            owner = self.owner
        fn, mod = self.find_method(owner, name)
        if fn is not None:
            if fn.has_self:
                return self.call_fn(fn, mod, args[1:], line, self_val=args[0])
            return self.call_fn(fn, mod, args, line)
        self.unsupported(line, "call of unknown function %s" % "::".join(segs))

    def ev_mcall(self, e, env):
        _, recv, name, argexprs, line = e
        v = self.eval(recv, env)
        args = [self.eval(a, env) for a in argexprs]
        # user methods on typed values
        rtype = v.rtype if isinstance(v, (Struct, RList)) else None
        if rtype is not None:
            fn, mod = self.find_method(rtype.split("::")[-1], name)
            if fn is not None and fn.has_self:
                return self.call_fn(fn, mod, args, line, self_val=v)
        if isinstance(v, list):
            return self.list_method(v, name, args, line)
        if isinstance(v, ResultV):
            if name in ("unwrap", "expect"):
                if v.kind in ("Ok", "Some"):
                    return v.value
                raise RustPanic(self.file, line, "unwrap on %s" % v.kind)
            good = v.kind in ("Ok", "Some")
            if name == "is_ok": return v.kind == "Ok"
            if name == "is_err": return v.kind == "Err"
            if name == "is_some": return v.kind == "Some"
            if name == "is_none": return v.kind == "None"
            if name in ("is_some_and", "is_ok_and"):
                return self.truth(self.call_closure(args[0], [v.value], line), line) if good else False
            if name == "is_none_or":
                return True if v.kind == "None" else self.truth(self.call_closure(args[0], [v.value], line), line)
            if name == "ok_or": return ResultV("Ok", v.value) if good else ResultV("Err", args[0])
            if name == "ok_or_else": return ResultV("Ok", v.value) if good else ResultV("Err", self.call_closure(args[0], [], line))
            if name == "ok": return ResultV("Some", v.value) if v.kind == "Ok" else ResultV("None")
            if name == "map": return ResultV(v.kind, self.call_closure(args[0], [v.value], line)) if good else v
            if name == "map_err": return v if good else ResultV("Err", self.call_closure(args[0], [v.value], line))
            if name == "and_then": return self.call_closure(args[0], [v.value], line) if good else v
            if name == "unwrap_or": return v.value if good else args[0]
            if name == "unwrap_or_else": return v.value if good else self.call_closure(args[0], [] if v.kind == "None" else [v.value], line)
            if name == "map_or": return self.call_closure(args[1], [v.value], line) if good else args[0]
            if name in ("copied", "cloned", "clone", "as_ref", "as_mut", "to_owned"): return v
            self.unsupported(line, "method .%s on Result/Option" % name)
        if isinstance(v, tuple) and v and v[0] == "iter":
            return self.list_method(v, name, args, line)
        if isinstance(v, Struct) and name == "clone":
            return v
        if isinstance(v, tuple) and name in ("clone", "to_owned"):
            return v
        if isinstance(v, int) and not isinstance(v, bool) and name in ("max", "min", "checked_sub", "checked_add", "saturating_sub", "pow", "is_power_of_two", "ilog2"):
            o = args[0] if args else None
            if o is not None and (not isinstance(o, int) or isinstance(o, bool)):
                self.unsupported(line, "integer method .%s with a non-integer argument" % name)
            if name == "max": return max(v, o)
            if name == "min": return min(v, o)
            if name == "checked_sub": return ResultV("Some", v - o) if v >= o else ResultV("None")
            if name == "checked_add": return ResultV("Some", v + o) if v + o < 2**64 else ResultV("None")
            if name == "saturating_sub": return max(v - o, 0)
            if name == "pow": return v ** o
            if name == "is_power_of_two": return v > 0 and v & (v - 1) == 0
            if name == "ilog2":
                if v <= 0:
                    raise RustPanic(self.file, line, "argument of integer logarithm must be positive")
                return v.bit_length() - 1
        # Felt / integer methods
        if name in ("clone", "into", "to_owned", "to_biguint", "to_bigint", "borrow"):
            if name in ("to_biguint", "to_bigint"):
                if isinstance(v, F):
                    return v.v
                if isinstance(v, int):
                    return v
                self.unsupported(line, ".%s() on a symbolic value" % name)
            return v
        if name == "try_into":
            return ResultV("Ok", v)
        if name == "pow_felt":
            return self.felt_pow(v, args[0], line)
        if name == "pow":
            return self.felt_pow(v, args[0], line)
        if name == "field_div":
            return self.felt_fdiv(v, args[0], line)
        if name == "floor_div":
            return self.felt_floordiv(v, args[0], line)
        if name == "double":
            return self.arith("+", v, v, line)
        if name == "square":
            return self.arith("*", v, v, line)
        if name == "inverse":
            return ResultV("Some", self.felt_fdiv(F(1), v, line))
        self.unsupported(line, "unknown method .%s()" % name)

    def _idx(self, x, line, what):
        if not isinstance(x, int) or isinstance(x, bool):
            self.unsupported(line, "%s is not a concrete integer" % what)
        return x

    def _items(self, x, line):
        if isinstance(x, tuple) and len(x) == 3 and x[0] == "range":
            if x[2] is None:
                self.unsupported(line, "unbounded range")
            return list(range(x[1] or 0, x[2]))
        if isinstance(x, list):
            return x
        if isinstance(x, ResultV):
            return [x.value] if x.kind in ("Some", "Ok") else []
        self.unsupported(line, "value is not iterable")

    def list_method(self, v, name, args, line):
        if name == "len":
            return len(v)
        if name in ("iter", "iter_mut", "into_iter", "as_slice", "copied", "cloned", "by_ref", "as_ref", "peekable"):
            return v
        if name in ("to_vec", "clone", "to_owned"):
            return RList(list(v), rtype=getattr(v, "rtype", None))
        if name == "collect":
            return RList(list(v))
        if name == "rev":
            return RList(list(reversed(v)))
        if name == "enumerate":
            return RList([(i, x) for i, x in enumerate(v)])
        if name == "is_empty":
            return len(v) == 0
        if name == "get":
            i = args[0]
            if isinstance(i, tuple) and len(i) == 3 and i[0] == "range":
                lo = 0 if i[1] is None else self._idx(i[1], line, "range bound")
                hi = len(v) if i[2] is None else self._idx(i[2], line, "range bound")
                return ResultV("Some", RList(v[lo:hi])) if lo <= hi <= len(v) else ResultV("None")
            i = self._idx(i, line, ".get() index")
            return ResultV("Some", v[i]) if 0 <= i < len(v) else ResultV("None")
        if name in ("push", "push_back"):
            v.append(args[0])
            return ()
        if name in ("pop", "pop_back"):
            return ResultV("Some", v.pop()) if v else ResultV("None")
        if name in ("pop_front", "next"):
            return ResultV("Some", v.pop(0)) if v else ResultV("None")
        if name in ("first", "last", "front", "back", "peek"):
            if not v:
                return ResultV("None")
            return ResultV("Some", v[0] if name in ("first", "front", "peek") else v[-1])
        if name in ("extend", "extend_from_slice"):
            v.extend(self._items(args[0], line))
            return ()
        if name == "map":
            return RList([self.call_closure(args[0], [x], line) for x in list(v)])
        if name == "flat_map":
            out = []
            for x in list(v):
                out.extend(self._items(self.call_closure(args[0], [x], line), line))
            return RList(out)
        if name == "filter":
            return RList([x for x in list(v) if self.truth(self.call_closure(args[0], [x], line), line)])
        if name == "fold":
            acc = args[0]
            for x in list(v):
                acc = self.call_closure(args[1], [acc, x], line)
            return acc
        if name == "try_fold":
            acc, last = args[0], None
            for x in list(v):
                r = self.call_closure(args[1], [acc, x], line)
                if not isinstance(r, ResultV):
                    self.unsupported(line, "try_fold closure did not return Option / Result")
                if r.kind in ("Err", "None"):
                    return r
                acc, last = r.value, r.kind
            if last is None:
                last = closure_result_kind(args[1])
            if last is None:
                self.unsupported(line, "try_fold over an empty iterator: Option / Result not determined by the source text")
            return ResultV(last, acc)
        if name == "filter_map":
            out = []
            for x in list(v):
                r = self.call_closure(args[0], [x], line)
                if isinstance(r, ResultV) and r.kind == "Some":
                    out.append(r.value)
                elif not (isinstance(r, ResultV) and r.kind == "None"):
                    self.unsupported(line, "filter_map closure did not return an Option")
            return RList(out)
        if name in ("sum", "product"):
            acc = F(0) if name == "sum" else F(1)
            for x in v:
                acc = self.arith("+" if name == "sum" else "*", acc, x, line)
            return acc
        if name in ("all", "any"):
            for x in list(v):
                c = self.truth(self.call_closure(args[0], [x], line), line)
                if name == "all" and not c:
                    return False
                if name == "any" and c:
                    return True
            return name == "all"
        if name in ("find", "position"):
            for i, x in enumerate(list(v)):
                if self.truth(self.call_closure(args[0], [x], line), line):
                    return ResultV("Some", x if name == "find" else i)
            return ResultV("None")
        if name == "for_each":
            for x in list(v):
                self.call_closure(args[0], [x], line)
            return ()
        if name == "chain":
            return RList(list(v) + list(self._items(args[0], line)))
        if name == "zip":
            o = args[0]
            if isinstance(o, tuple) and len(o) == 3 and o[0] == "range" and o[2] is None:
                return RList([(x, (o[1] or 0) + i) for i, x in enumerate(v)])
            return RList(list(zip(v, self._items(o, line))))
        if name == "unzip":
            return (RList([x[0] for x in v]), RList([x[1] for x in v]))
        if name in ("skip", "take", "step_by", "nth"):
            c = self._idx(args[0], line, ".%s() argument" % name)
            if name == "skip":
                return RList(v[c:])
            if name == "take":
                return RList(v[:c])
            if name == "nth":
                return ResultV("Some", v[c]) if c < len(v) else ResultV("None")
            if c == 0:
                raise RustPanic(self.file, line, "assertion failed: step != 0")
            return RList(v[::c])
        if name == "count":
            return len(v)
        if name in ("split_at", "split_at_mut"):
            c = self._idx(args[0], line, "split_at argument")
            if c > len(v):
                raise RustPanic(self.file, line, "mid > len")
            return (RList(v[:c]), RList(v[c:]))
        if name in ("split_first", "split_last"):
            if not v:
                return ResultV("None")
            return ResultV("Some", (v[0], RList(v[1:])) if name == "split_first" else (v[-1], RList(v[:-1])))
        if name in ("chunks", "chunks_exact", "windows"):
            c = self._idx(args[0], line, "chunk size")
            if c == 0:
                raise RustPanic(self.file, line, "%s size must be non-zero" % name)
            if name == "windows":
                return RList([RList(v[i:i + c]) for i in range(0, len(v) - c + 1)])
            end = len(v) if name == "chunks" else len(v) // c * c
            return RList([RList(v[i:i + c]) for i in range(0, end, c)])
        if name == "remove":
            c = self._idx(args[0], line, "remove index")
            if c >= len(v):
                raise RustPanic(self.file, line, "removal index (is %d) should be < len (is %d)" % (c, len(v)))
            return v.pop(c)
        if name == "insert":
            c = self._idx(args[0], line, "insert index")
            if c > len(v):
                raise RustPanic(self.file, line, "insertion index (is %d) should be <= len (is %d)" % (c, len(v)))
            v.insert(c, args[1])
            return ()
        if name == "truncate":
            del v[self._idx(args[0], line, "truncate length"):]
            return ()
        if name == "reverse":
            v.reverse()
            return ()
        if name == "swap":
            a_, b_ = self._idx(args[0], line, "swap index"), self._idx(args[1], line, "swap index")
            if max(a_, b_) >= len(v):
                raise RustPanic(self.file, line, "index out of bounds")
            v[a_], v[b_] = v[b_], v[a_]
            return ()
        if name == "drain":
            r = args[0]
            if not (isinstance(r, tuple) and len(r) == 3 and r[0] == "range"):
                self.unsupported(line, ".drain() without a range")
            lo = 0 if r[1] is None else self._idx(r[1], line, "range bound")
            hi = len(v) if r[2] is None else self._idx(r[2], line, "range bound")
            if lo > hi or hi > len(v):
                raise RustPanic(self.file, line, "drain range %d..%d out of bounds (len %d)" % (lo, hi, len(v)))
            out = v[lo:hi]
            del v[lo:hi]
            return RList(out)
        if name == "concat":
            out = []
            for x in v:
                out.extend(x)
            return RList(out)
        self.unsupported(line, "unknown slice method .%s()" % name)
