"""Symbolic executor for the Rust subset parsed by rsparse.py.

Field elements are either
  * `F(v)`        a concrete residue mod p (all concrete arithmetic is done mod p), or
  * any other object: a symbolic value owned by the `Algebra` passed to the interpreter
    (z3 Real terms, ring 8-tuples, DAG nodes ...).
usize / u64 values are plain Python ints; they are coerced to F when they meet a Felt.
Everything the interpreter does not understand raises rsparse.Unsupported with the line.
"""
from rsparse import Unsupported

P = 2**251 + 17 * 2**192 + 1


class F(object):
    __slots__ = ("v",)
    def __init__(self, v):
        self.v = v % P
    def __repr__(self):
        return "F(%#x)" % self.v
    def __eq__(self, o):
        return isinstance(o, F) and o.v == self.v
    def __hash__(self):
        return hash(("F", self.v))


def sym_rep(v):
    """symmetric integer representative of a residue"""
    v %= P
    return v if v <= P // 2 else v - P


class RList(list):
    """Vec / slice / tuple-struct-deref-to-Vec value.  Optionally tracks which indices are read."""
    def __init__(self, items=(), rtype=None, name=None, track=False, default=None):
        list.__init__(self, items)
        self.rtype, self.name = rtype, name
        self.reads = {} if track else None
        self.read_lines = {}
        self.default = default      # callable(index) for lazily sized symbolic arrays


class Struct(object):
    def __init__(self, rtype, fields):
        self.rtype, self.fields = rtype, fields
    def __repr__(self):
        return "%s%r" % (self.rtype, self.fields)


class ResultV(object):
    """Ok(..)/Err(..)/Some(..)/None"""
    def __init__(self, kind, value=None):
        self.kind, self.value = kind, value
    def __repr__(self):
        return "%s(%r)" % (self.kind, self.value)


class Cond(object):
    """symbolic boolean: op in == != < <= > >= not"""
    def __init__(self, op, a, b=None):
        self.op, self.a, self.b = op, a, b
    def __repr__(self):
        return "Cond(%s,%r,%r)" % (self.op, self.a, self.b)


class BreakEx(Exception):
    def __init__(self, value):
        self.value = value
class ReturnEx(Exception):
    def __init__(self, value):
        self.value = value
class ContinueEx(Exception):
    pass
class RustPanic(Exception):
    def __init__(self, file, line, what):
        self.file, self.line, self.what = file, line, what
        Exception.__init__(self, "%s:%s: panic: %s" % (file, line, what))
class LoopBound(Exception):
    pass
class StopExecution(Exception):
    """raised by hooks to stop the run early (payload = whatever the hook wants back)"""
    def __init__(self, payload=None):
        self.payload = payload


class Algebra(object):
    """Interface of a symbolic Felt domain.  Arguments are symbolic values or F constants."""
    def const(self, v): raise NotImplementedError
    def lift(self, x):
        return self.const(x.v) if isinstance(x, F) else x
    def add(self, a, b): raise NotImplementedError
    def sub(self, a, b): raise NotImplementedError
    def mul(self, a, b): raise NotImplementedError
    def neg(self, a): return self.sub(self.const(0), a)
    def fdiv(self, a, b): raise NotImplementedError
    def floordiv(self, a, b): raise NotImplementedError
    def pow(self, a, e): raise NotImplementedError


class Decider(object):
    """Answers symbolic branch conditions from a fixed prefix, then `default`; records the trace."""
    def __init__(self, prefix=(), default=True):
        self.prefix, self.default, self.trace = list(prefix), default, []
    def __call__(self, cond, line):
        k = len(self.trace)
        b = self.prefix[k] if k < len(self.prefix) else self.default
        self.trace.append((cond, b, line))
        return b


def explore(run, max_paths=256):
    """Enumerate all paths of `run(decider)`; returns [(trace, outcome)]."""
    results, stack = [], [[]]
    while stack:
        prefix = stack.pop()
        d = Decider(prefix)
        out = run(d)
        results.append((d.trace, out))
        if len(results) > max_paths:
            raise LoopBound("more than %d symbolic paths" % max_paths)
        for k in range(len(prefix), len(d.trace)):
            stack.append([t[1] for t in d.trace[:k]] + [not d.trace[k][1]])
    return results


FELT_ASSOC = {"ZERO": 0, "ONE": 1, "TWO": 2, "THREE": 3}
INT_ASSOC = {("u128", "MAX"): 2**128 - 1, ("u64", "MAX"): 2**64 - 1, ("usize", "MAX"): 2**64 - 1,
             ("u32", "MAX"): 2**32 - 1, ("u8", "MAX"): 255}


class Interp(object):
    def __init__(self, alg=None, modules=(), types=None, decide=None, max_loop=100000,
                 on_loop_head=None, on_assert=None):
        """modules: list of rsparse.Module searched (in order) for consts / fns / methods.
        types: {'Layout': 'Layout'} generic type parameter -> impl owner name."""
        self.alg = alg
        self.modules = list(modules)
        self.types = dict(types or {})
        self.decide = decide
        self.max_loop = max_loop
        self.on_loop_head = on_loop_head
        self.on_assert = on_assert
        self.nonzero = []        # (value, file, line) of every divisor / felt_nonzero! argument
        self.asserts = []        # (cond value, file, line) of every assert!
        self.file = "?"
        self._const_cache = {}
        self.owner = None

    # ------------------------------------------------------------------ helpers
    def unsupported(self, line, msg):
        raise Unsupported(self.file, line, msg)

    def is_sym(self, x):
        return not isinstance(x, (F, int, bool, list, tuple, Struct, ResultV, Cond, str, type(None)))

    def felt(self, x, line):
        """coerce to a Felt value (F or symbolic)"""
        if isinstance(x, F):
            return x
        if isinstance(x, bool):
            self.unsupported(line, "bool used as Felt")
        if isinstance(x, int):
            return F(x)
        if self.is_sym(x):
            return x
        self.unsupported(line, "value %r is not a field element" % (x,))

    def arith(self, op, a, b, line):
        if isinstance(a, int) and isinstance(b, int) and not isinstance(a, bool) and not isinstance(b, bool):
            if op == "+": return a + b
            if op == "-":
                if a - b < 0:
                    raise RustPanic(self.file, line, "usize subtraction underflow")
                return a - b
            if op == "*": return a * b
            if op == "/":
                if b == 0:
                    raise RustPanic(self.file, line, "division by zero")
                return a // b
            if op == "%": return a % b
        a, b = self.felt(a, line), self.felt(b, line)
        if isinstance(a, F) and isinstance(b, F):
            if op == "+": return F(a.v + b.v)
            if op == "-": return F(a.v - b.v)
            if op == "*": return F(a.v * b.v)
            self.unsupported(line, "operator %s on Felt" % op)
        alg = self.alg
        if alg is None:
            self.unsupported(line, "symbolic value without an algebra")
        if op == "+": return alg.add(a, b)
        if op == "-": return alg.sub(a, b)
        if op == "*": return alg.mul(a, b)
        self.unsupported(line, "operator %s on symbolic Felt" % op)

    def compare(self, op, a, b, line):
        if isinstance(a, bool) or isinstance(b, bool):
            if op == "==": return a == b
            if op == "!=": return a != b
        if isinstance(a, int) and isinstance(b, int):
            return {"==": a == b, "!=": a != b, "<": a < b, "<=": a <= b, ">": a > b, ">=": a >= b}[op]
        a, b = self.felt(a, line), self.felt(b, line)
        if isinstance(a, F) and isinstance(b, F):
            return {"==": a.v == b.v, "!=": a.v != b.v, "<": a.v < b.v, "<=": a.v <= b.v,
                    ">": a.v > b.v, ">=": a.v >= b.v}[op]
        return Cond(op, a, b)

    def truth(self, c, line):
        if isinstance(c, bool):
            return c
        if isinstance(c, Cond):
            if self.decide is None:
                self.unsupported(line, "branch on a symbolic condition")
            return self.decide(c, line)
        self.unsupported(line, "condition is not a boolean: %r" % (c,))

    def felt_pow(self, base, e, line):
        base, e = self.felt(base, line), self.felt(e, line)
        if isinstance(base, F) and isinstance(e, F):
            return F(pow(base.v, e.v, P))
        return self.alg.pow(base, e)

    def felt_fdiv(self, a, b, line):
        a, b = self.felt(a, line), self.felt(b, line)
        self.nonzero.append((b, self.file, line))
        if isinstance(a, F) and isinstance(b, F):
            if b.v == 0:
                raise RustPanic(self.file, line, "field_div by zero")
            return F(a.v * pow(b.v, P - 2, P))
        return self.alg.fdiv(a, b)

    def felt_floordiv(self, a, b, line):
        a, b = self.felt(a, line), self.felt(b, line)
        self.nonzero.append((b, self.file, line))
        if isinstance(a, F) and isinstance(b, F):
            if b.v == 0:
                raise RustPanic(self.file, line, "floor_div by zero")
            return F(a.v // b.v)
        return self.alg.floordiv(a, b)

    # ------------------------------------------------------------------ lookup
    def find_fn(self, name):
        for m in self.modules:
            if name in m.fns:
                return m.fns[name], m
        return None, None

    def find_method(self, owner, name):
        for m in self.modules:
            if (owner, name) in m.methods:
                return m.methods[(owner, name)], m
        return None, None

    def const_value(self, name, line):
        if name in self._const_cache:
            return self._const_cache[name]
        for m in self.modules:
            if name in m.consts:
                e = m.consts[name]
                if e[0] == "unsupported":
                    raise Unsupported(m.file, e[2], "constant %s: %s" % (name, e[1]))
                save = self.file
                self.file = m.file
                try:
                    v = self.eval(e, [{}])
                finally:
                    self.file = save
                self._const_cache[name] = v
                return v
        return None

    def assoc_const(self, owner, name, line):
        owner = self.types.get(owner, owner)
        if owner == "Self":
            owner = self.owner
        for m in self.modules:
            for (o, tr, n), e in m.assoc_consts.items():
                if o == owner and n == name:
                    save = self.file
                    self.file = m.file
                    try:
                        return self.eval(e, [{}])
                    finally:
                        self.file = save
        return None

    def lookup(self, env, name):
        for scope in reversed(env):
            if name in scope:
                return scope[name]
        return KeyError

    # ------------------------------------------------------------------ calls
    def call_fn(self, fn, mod, args, line, self_val=None):
        if len(args) != len(fn.params):
            self.unsupported(line, "arity mismatch calling %s" % fn.name)
        scope = {}
        if fn.has_self:
            scope["self"] = self_val
        for (pname, _), a in zip(fn.params, args):
            scope[pname] = a
        save_file, save_owner = self.file, self.owner
        self.file, self.owner = fn.file, fn.owner
        try:
            try:
                return self.exec_block(fn.body, [scope])
            except ReturnEx as r:
                return r.value
        finally:
            self.file, self.owner = save_file, save_owner

    def run(self, fn, args, self_val=None):
        """entry point: run FnItem with the given argument values"""
        for m in self.modules:
            if m.file == fn.file:
                return self.call_fn(fn, m, args, fn.line, self_val)
        return self.call_fn(fn, None, args, fn.line, self_val)

    # ------------------------------------------------------------------ statements
    def exec_block(self, blk, env):
        _, stmts, tail, _ = blk
        env = env + [{}]
        for s in stmts:
            self.exec_stmt(s, env)
        if tail is not None:
            return self.eval(tail, env)
        return ()

    def bind(self, pat, val, scope, line):
        k = pat[0]
        if k == "pid":
            scope[pat[1]] = val
        elif k == "pwild":
            pass
        elif k == "ptuple":
            if not isinstance(val, tuple) or len(val) != len(pat[1]):
                self.unsupported(line, "tuple pattern does not match value")
            for p, v in zip(pat[1], val):
                self.bind(p, v, scope, line)
        else:
            self.unsupported(line, "unsupported pattern in binding")

    def exec_stmt(self, s, env):
        k = s[0]
        if k == "let":
            _, pat, _mut, init, line = s
            val = self.eval(init, env) if init is not None else None
            self.bind(pat, val, env[-1], line)
        elif k == "assign":
            _, op, lhs, rhs, line = s
            if lhs[0] != "path" or len(lhs[1]) != 1:
                self.unsupported(line, "assignment target is not a local variable")
            name = lhs[1][0]
            val = self.eval(rhs, env)
            for scope in reversed(env):
                if name in scope:
                    if op != "=":
                        val = self.arith(op[0], scope[name], val, line)
                    scope[name] = val
                    return
            self.unsupported(line, "assignment to unknown variable %s" % name)
        elif k == "expr":
            self.eval(s[1], env)
        else:
            self.unsupported(s[-1], "unknown statement kind %s" % k)

    # ------------------------------------------------------------------ expressions
    def eval(self, e, env):
        k = e[0]
        m = getattr(self, "ev_" + k, None)
        if m is None:
            self.unsupported(e[-1], "expression kind %s" % k)
        return m(e, env)

    def ev_int(self, e, env): return e[1]
    def ev_str(self, e, env): return e[1]
    def ev_bool(self, e, env): return e[1]

    def ev_path(self, e, env):
        segs, line = e[1], e[2]
        if len(segs) == 1:
            v = self.lookup(env, segs[0])
            if v is not KeyError:
                return v
            v = self.const_value(segs[0], line)
            if v is not None:
                return v
            if segs[0] == "None":
                return ResultV("None")
            self.unsupported(line, "unknown name %s" % segs[0])
        if len(segs) == 2:
            a, b = segs
            if a == "Felt" and b in FELT_ASSOC:
                return F(FELT_ASSOC[b])
            if (a, b) in INT_ASSOC:
                return INT_ASSOC[(a, b)]
            v = self.assoc_const(a, b, line)
            if v is not None:
                return v
        v = self.const_value("::".join(segs), line)
        if v is None:
            v = self.const_value(segs[-1], line) if len(segs) > 1 and segs[0] in ("crate", "super", "self") else None
        if v is not None:
            return v
        if len(segs) == 2 and segs[0][:1].isupper() and segs[1][:1].isupper() and (segs[0].endswith("Error") or segs[0] == "Error"):
            # a unit variant of an error enum (enum definitions are skipped by the parser): opaque value
            return "::".join(segs)
        self.unsupported(line, "unknown path %s" % "::".join(segs))

    def ev_tuple(self, e, env):
        return tuple(self.eval(x, env) for x in e[1])

    def ev_un(self, e, env):
        _, op, x, line = e
        v = self.eval(x, env)
        if op in ("&", "&mut", "*"):
            return v
        if op == "-":
            v = self.felt(v, line)
            if isinstance(v, F):
                return F(-v.v)
            return self.alg.neg(v)
        if op == "!":
            if isinstance(v, bool):
                return not v
            if isinstance(v, Cond):
                return Cond("not", v)
        self.unsupported(line, "unary %s" % op)

    def ev_bin(self, e, env):
        _, op, l, r, line = e
        if op == "&&":
            a = self.truth(self.eval(l, env), line)
            return self.truth(self.eval(r, env), line) if a else False
        if op == "||":
            a = self.truth(self.eval(l, env), line)
            return True if a else self.truth(self.eval(r, env), line)
        a, b = self.eval(l, env), self.eval(r, env)
        if op in ("==", "!=", "<", "<=", ">", ">="):
            return self.compare(op, a, b, line)
        return self.arith(op, a, b, line)

    def ev_cast(self, e, env):
        v = self.eval(e[1], env)
        if isinstance(v, int) and not isinstance(v, bool):
            return v
        self.unsupported(e[-1], "`as` cast of a non-integer")

    def ev_block(self, e, env):
        return self.exec_block(e, env)

    def ev_if(self, e, env):
        _, cond, then, els, line = e
        c = self.truth(self.eval(cond, env), line)
        if c:
            return self.exec_block(then, env)
        if els is not None:
            return self.exec_block(els, env)
        return ()

    def ev_match(self, e, env):
        _, scrut, arms, line = e
        v = self.eval(scrut, env)
        if isinstance(v, F):
            self.unsupported(line, "match on a Felt")
        if not isinstance(v, int):
            self.unsupported(line, "match on a non-integer / symbolic value")
        for pat, body in arms:
            if pat[0] == "pint" and pat[1] == v:
                return self.eval(body, env)
            if pat[0] == "pwild":
                return self.eval(body, env)
            if pat[0] == "pid":
                return self.eval(body, env + [{pat[1]: v}])
        raise RustPanic(self.file, line, "non-exhaustive match")

    def ev_loop(self, e, env):
        _, blk, line = e
        n = 0
        while True:
            if self.on_loop_head is not None:
                self.on_loop_head(self, env, n, line)
            if n >= self.max_loop:
                raise LoopBound("%s:%d: loop did not terminate within %d iterations" % (self.file, line, self.max_loop))
            try:
                self.exec_block(blk, env)
            except BreakEx as b:
                return b.value if b.value is not None else ()
            except ContinueEx:
                pass
            n += 1

    def ev_for(self, e, env):
        _, pat, it, blk, line = e
        seq = self.eval(it, env)
        if isinstance(seq, tuple) and len(seq) == 3 and seq[0] == "range":
            seq = list(range(seq[1], seq[2]))
        if not isinstance(seq, list):
            self.unsupported(line, "for loop over a non-list value")
        for n, item in enumerate(seq):
            if self.on_loop_head is not None:
                self.on_loop_head(self, env, n, line)
            scope = {}
            self.bind(pat, item, scope, line)
            try:
                self.exec_block(blk, env + [scope])
            except BreakEx:
                break
            except ContinueEx:
                continue
        return ()

    def ev_continue(self, e, env):
        raise ContinueEx()

    def ev_break(self, e, env):
        raise BreakEx(self.eval(e[1], env) if e[1] is not None else None)

    def ev_return(self, e, env):
        raise ReturnEx(self.eval(e[1], env) if e[1] is not None else ())

    def ev_try(self, e, env):
        v = self.eval(e[1], env)
        if isinstance(v, ResultV):
            if v.kind in ("Ok", "Some"):
                return v.value
            raise ReturnEx(v)
        self.unsupported(e[-1], "`?` applied to a non-Result value")

    def ev_range(self, e, env):
        _, lo, hi, incl, line = e
        lo = self.eval(lo, env) if lo is not None else None
        hi = self.eval(hi, env) if hi is not None else None
        for x in (lo, hi):
            if x is not None and (not isinstance(x, int) or isinstance(x, bool)):
                self.unsupported(line, "range bound is not a concrete integer")
        if incl and hi is not None:
            hi += 1
        return ("range", lo, hi)

    def ev_struct(self, e, env):
        _, segs, fields, line = e
        name = segs[-1]
        if name == "Self":
            name = self.owner
        return Struct("::".join(segs[:-1] + [name]) if len(segs) > 1 else name,
                      dict((f, self.eval(x, env)) for f, x in fields))

    def ev_field(self, e, env):
        _, recv, name, line = e
        v = self.eval(recv, env)
        if isinstance(v, Struct):
            if name in v.fields:
                return v.fields[name]
            self.unsupported(line, "struct %s has no field %s" % (v.rtype, name))
        if isinstance(v, tuple) and isinstance(name, int):
            return v[name]
        self.unsupported(line, "field access .%s on %r" % (name, type(v).__name__))

    def ev_index(self, e, env):
        _, recv, idx, line = e
        v = self.eval(recv, env)
        i = self.eval(idx, env)
        if not isinstance(v, list):
            self.unsupported(line, "indexing a non-slice value")
        if isinstance(i, tuple) and len(i) == 3 and i[0] == "range":
            lo = 0 if i[1] is None else i[1]
            hi = len(v) if i[2] is None else i[2]
            if lo > hi or hi > len(v):
                raise RustPanic(self.file, line, "slice range %d..%d out of bounds (len %d)" % (lo, hi, len(v)))
            return RList(v[lo:hi], rtype=getattr(v, "rtype", None))
        if isinstance(v, RList) and v.default is not None:
            # lazily sized symbolic array: any index (concrete or symbolic key) is allowed
            key = i
            if v.reads is not None:
                v.reads[key] = v.reads.get(key, 0) + 1
                v.read_lines.setdefault(key, line)
            return v.default(key)
        if isinstance(i, F):
            self.unsupported(line, "index is a Felt")
        if not isinstance(i, int) or isinstance(i, bool):
            self.unsupported(line, "index is not a concrete integer")
        if i < 0 or i >= len(v):
            raise RustPanic(self.file, line, "index %d out of bounds (len %d)" % (i, len(v)))
        if isinstance(v, RList) and v.reads is not None:
            v.reads[i] = v.reads.get(i, 0) + 1
        return v[i]

    def ev_macro(self, e, env):
        _, name, args, line = e
        if name in ("panic", "unreachable", "unimplemented", "todo"):
            raise RustPanic(self.file, line, name + "!")
        if name in ("println", "eprintln", "debug_assert"):
            return ()
        if name == "felt_nonzero":
            v = self.felt(self.eval(args[0], env), line)
            return v
        if name == "felt":
            return self.felt(self.eval(args[0], env), line)
        if name == "felt_hex":
            s = self.eval(args[0], env)
            return F(int(s, 16))
        if name == "vec":
            if len(args) == 3 and args[1] == ("str", ";", line):
                n = self.eval(args[2], env)
                return RList([self.eval(args[0], env)] * n)
            return RList([self.eval(a, env) for a in args])
        if name in ("assert", "assert_eq", "assert_ne"):
            if name == "assert":
                c = self.eval(args[0], env)
            else:
                a, b = self.eval(args[0], env), self.eval(args[1], env)
                c = self.compare("==" if name == "assert_eq" else "!=", a, b, line)
            if isinstance(c, bool):
                if not c:
                    raise RustPanic(self.file, line, "assertion failed")
                return ()
            self.asserts.append((c, self.file, line))
            if self.on_assert is not None:
                self.on_assert(c, self.file, line)
            return ()
        self.unsupported(line, "macro %s!" % name)

    def ev_call(self, e, env):
        _, callee, argexprs, line = e
        if callee[0] != "path":
            self.unsupported(line, "call of a non-path expression")
        segs = callee[1]
        args = [self.eval(a, env) for a in argexprs]
        name = segs[-1]
        if len(segs) == 1:
            if name in ("Ok", "Err", "Some"):
                return ResultV(name, args[0] if args else ())
            fn, mod = self.find_fn(name)
            if fn is not None:
                return self.call_fn(fn, mod, args, line)
            self.unsupported(line, "call of unknown function %s" % name)
        ty = segs[-2]
        if ty == "Felt":
            if name == "from":
                return self.felt(args[0], line)
            if name == "from_hex_unchecked":
                return F(int(args[0], 16))
            if name == "from_hex":
                return ResultV("Ok", F(int(args[0], 16)))
        if ty == "NonZeroFelt":
            if name == "from_felt_unchecked":
                return self.felt(args[0], line)
            if name == "try_from":
                v = self.felt(args[0], line)
                if isinstance(v, F) and v.v == 0:
                    return ResultV("Err", "FeltIsZeroError")
                if not isinstance(v, F):
                    self.nonzero.append((v, self.file, line))
                return ResultV("Ok", v)
        if ty == "Vec" and name == "new":
            return RList([])
        fn, mod = self.find_fn(name)
        if fn is not None and ty not in ("Felt", "NonZeroFelt"):
            return self.call_fn(fn, mod, args, line)
        owner = self.types.get(ty, ty)
        if owner == "Self":
            owner = self.owner
        fn, mod = self.find_method(owner, name)
        if fn is not None:
            if fn.has_self:
                return self.call_fn(fn, mod, args[1:], line, self_val=args[0])
            return self.call_fn(fn, mod, args, line)
        self.unsupported(line, "call of unknown function %s" % "::".join(segs))

    def ev_mcall(self, e, env):
        _, recv, name, argexprs, line = e
        v = self.eval(recv, env)
        args = [self.eval(a, env) for a in argexprs]
        # user methods on typed values
        rtype = v.rtype if isinstance(v, (Struct, RList)) else None
        if rtype is not None:
            fn, mod = self.find_method(rtype.split("::")[-1], name)
            if fn is not None and fn.has_self:
                return self.call_fn(fn, mod, args, line, self_val=v)
        if isinstance(v, list):
            return self.list_method(v, name, args, line)
        if isinstance(v, ResultV):
            if name in ("unwrap", "expect"):
                if v.kind in ("Ok", "Some"):
                    return v.value
                raise RustPanic(self.file, line, "unwrap on %s" % v.kind)
            if name == "is_ok": return v.kind == "Ok"
            if name == "is_err": return v.kind == "Err"
            self.unsupported(line, "method .%s on Result/Option" % name)
        if isinstance(v, tuple) and v and v[0] == "iter":
            return self.list_method(v, name, args, line)
        if isinstance(v, Struct) and name == "clone":
            return v
        # Felt / integer methods
        if name in ("clone", "into", "to_owned", "to_biguint", "to_bigint", "borrow"):
            if name in ("to_biguint", "to_bigint"):
                if isinstance(v, F):
                    return v.v
                if isinstance(v, int):
                    return v
                self.unsupported(line, ".%s() on a symbolic value" % name)
            return v
        if name == "try_into":
            return ResultV("Ok", v)
        if name == "pow_felt":
            return self.felt_pow(v, args[0], line)
        if name == "pow":
            return self.felt_pow(v, args[0], line)
        if name == "field_div":
            return self.felt_fdiv(v, args[0], line)
        if name == "floor_div":
            return self.felt_floordiv(v, args[0], line)
        if name == "double":
            return self.arith("+", v, v, line)
        if name == "square":
            return self.arith("*", v, v, line)
        if name == "inverse":
            return ResultV("Some", self.felt_fdiv(F(1), v, line))
        self.unsupported(line, "unknown method .%s()" % name)

    def list_method(self, v, name, args, line):
        if name == "len":
            return len(v)
        if name in ("iter", "iter_mut", "into_iter", "to_vec", "clone", "as_slice", "copied", "cloned"):
            return v
        if name == "rev":
            return RList(list(reversed(v)), rtype=getattr(v, "rtype", None))
        if name == "enumerate":
            return RList([(i, x) for i, x in enumerate(v)])
        if name == "is_empty":
            return len(v) == 0
        if name == "get":
            i = args[0]
            if not isinstance(i, int):
                self.unsupported(line, ".get() with a non-concrete index")
            return ResultV("Some", v[i]) if 0 <= i < len(v) else ResultV("None")
        if name == "push":
            v.append(args[0])
            return ()
        if name in ("first", "last"):
            if not v:
                return ResultV("None")
            return ResultV("Some", v[0] if name == "first" else v[-1])
        self.unsupported(line, "unknown slice method .%s()" % name)
