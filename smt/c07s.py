"""C07S - FRI rejects inconsistent layers: the real fri_verify executed on small concrete geometries with symbolic contents."""
import time

import z3

import common
from common import Stats, check, finish, guarded, obligation, replay, hx, rng, P
from rsparse import Unsupported
from symex import F, RList, ResultV, LoopBound
from sx import Exec, ASSUMPTIONS
from sxlib import concretize, to_json, mval, leaf_terms
from sxval import SF, SStruct, EnumV, zi, deep_copy
import sxh
import frimodel
from sxh import H, world

FNS = [sxh.F_FRI + "::fri_verify", sxh.F_FRI + "::fri_verify_layers", sxh.F_LAYER + "::compute_next_layer", sxh.F_LAYER + "::compute_coset_elements",
       sxh.F_FIRST + "::gather_first_layer_queries", sxh.F_LAST + "::verify_last_layer", sxh.F_TDECOMMIT + "::table_decommit",
       sxh.F_VDECOMMIT + "::vector_commitment_decommit"]
LAY = ["recursive"]


def geometries(tier):
    """(steps, bound, log_n_cosets, query positions)"""
    G = [([0, 1], 0, 1, [1]), ([0, 2], 1, 1, [3, 9]), ([0, 1, 2], 0, 1, [6]), ([0, 1, 1], 1, 1, [0, 7])]
    if tier == "thorough":
        G += [([0, 2, 1], 1, 2, [5, 37]), ([0, 2, 3], 0, 1, [31]), ([0, 3], 1, 1, [2, 13]), ([0, 1, 1, 1], 0, 1, [5]), ([0, 2, 2], 1, 1, [1, 30])]
    return G


def gname(g):
    return "steps%s_b%d_q%s" % ("".join(str(s) for s in g["steps"]), g["bound"], "_".join(str(q) for q in g["queries"]))


def fri_request(inst):
    return {"fn": "fri_verify", "queries": to_json(inst["queries"]), "commitment": to_json(inst["commitment"]),
            "decommitment": to_json(inst["decommitment"]), "witness": to_json(inst["witness"])}


def native_layer_oracle(inst, g):
    """re-run the layer loop natively with the pub pieces: gather_first_layer_queries, compute_next_layer, table_decommit per layer.
    Returns the list of per-layer table_decommit answers (or the first failing step)."""
    qs = replay([{"fn": "gather_first_layer_queries", "queries": to_json(inst["queries"]), "evaluations": to_json(inst["decommitment"].fields["values"]),
                  "x_values": to_json(inst["decommitment"].fields["points"])}], LAY)[0]
    if "ok" not in qs:
        return [qs]
    cur = qs["ok"]
    out = []
    com = inst["commitment"]
    for i, lay in enumerate(g["layers"]):
        lw = inst["witness"].fields["layers"][i]
        a = replay([{"fn": "compute_next_layer", "queries": cur, "sibling_witness": to_json(lw.fields["leaves"]), "coset_size": hx(lay["coset_size"]),
                     "eval_point": to_json(com.fields["eval_points"][i])}], LAY)[0]
        if "ok" not in a:
            return out + [a]
        d = replay([{"fn": "table_decommit", "commitment": to_json(com.fields["inner_layers"][i]), "queries": a["ok"]["verify_indices"],
                     "decommitment": {"values": a["ok"]["verify_y_values"]}, "witness": to_json(lw.fields["table_witness"])}], LAY)[0]
        out.append(d)
        cur = a["ok"]["next_queries"]
    return out


def explore_fri(w, g, nvf, tweak=None, names="A", corrupt=None, log=None, max_paths=300):
    """symbolic fri_verify on geometry g.  Returns (ex, outcomes, hold); each outcome's events carry the observed inner calls."""
    hold = {}
    ex = Exec(w, int_bound=17)
    hooks = frimodel.observe(ex, [(None, "table_decommit"), (None, "verify_last_layer")], [])
    ex.abstract.update(hooks)
    def entry(ex):
        h = H(ex)
        inst = frimodel.fri_instance(h, g, nvf=F(nvf), tweak=tweak)
        for pt in inst["decommitment"].fields["points"]:
            ex.assume(zi(pt) != 0)          # evaluation points are 3 * g^k (queries_to_points): never zero
        if corrupt is not None:
            corrupt(h, inst)
        hold["inst"] = deep_copy(inst)
        return h.call(sxh.F_FRI, "fri_verify", [inst["queries"], inst["commitment"], inst["decommitment"], inst["witness"]])
    outs = ex.explore(entry, max_paths=max_paths, budget_s=200)
    return ex, outs, hold


def inner_results(o):
    return [(e[0][5:], e[2]) for e in o.events if e[0].startswith("call:")]


def ob_complete(tier):
    ob = obligation("C07S.complete", "honest FRI instances are accepted: the real fri_verify returns Ok and the per-layer table_decommit re-run "
                    "natively returns Ok; symbolically, on honest vector lengths fri_verify has an accepting path and no feasible panic", FNS,
                    "geometries %s (includes the increasing step list [0,1,2] with a query at a high in-coset offset); instances honest by construction "
                    "(random values folded by the parsed code, real hashes)" % [(s, b, q) for s, b, l, q in geometries(tier)])
    def body(ob):
        st = Stats()
        w = world("recursive")
        orc = common.HashOracle(LAY)
        r = rng("C07S.complete")
        notes = []
        try:
            for steps, bound, lnc, qs in geometries(tier):
                g = frimodel.geometry(steps, bound, lnc, qs)
                for nvf in (0, 100):
                    inst = frimodel.honest_fri(w, g, r, orc, nvf=nvf)
                    req = fri_request(inst)
                    ans = replay([req], LAY)[0]
                    lay = native_layer_oracle(inst, g)
                    good = "ok" in ans and all("ok" in a for a in lay)
                    if not good:
                        rep = {"reproduced": True, "request": req, "real_output": ans, "layer_decommits": lay, "expected": "Ok"}
                        return finish(ob, "violated", st, detail="honest instance %s (nvf=%d) is not accepted: fri_verify %s, layer decommits %s" % (
                            gname(g), nvf, str(ans)[:200], str(lay)[:200]), cex={"geometry": gname(g), "request": req}, replay_rec=rep)
                # symbolic side: honest lengths
                ex, outs, hold = explore_fri(w, g, 0)
                kinds = sorted(set(o.kind for o in outs))
                if not any(o.kind == "ok" for o in outs):
                    return finish(ob, "inconclusive", st, detail="no accepting symbolic path for %s (%s)" % (gname(g), kinds))
                if not any(o.kind == "ok" and all(rv.kind == "Ok" for n, rv in inner_results(o)) for o in outs):
                    return finish(ob, "inconclusive", st, detail="no accepting symbolic path with all inner checks Ok for %s" % gname(g))
                notes.append("%s: native Ok (nvf 0 and 100), %d symbolic paths %s" % (gname(g), len(outs), kinds))
        finally:
            orc.close()
        return finish(ob, "holds", st, detail="; ".join(notes))
    return guarded(ob, body)


def corrupted_native(w, g, what, r):
    """honest instance with one Merkle-bound position changed; returns (instance, description)"""
    orc = common.HashOracle(LAY)
    try:
        inst = frimodel.honest_fri(w, g, r, orc, nvf=0)
    finally:
        orc.close()
    kind, i, j = what
    lw = inst["witness"].fields["layers"][i]
    if kind == "authentication":
        v = lw.fields["table_witness"].fields["vector"].fields["authentications"]
        v[j] = F(v[j].v + 1)
    elif kind == "commitment":
        c = inst["commitment"].fields["inner_layers"][i].fields["vector_commitment"]
        c.fields["commitment_hash"] = F(c.fields["commitment_hash"].v + 1)
    elif kind == "leaf":
        v = lw.fields["leaves"]
        v[j] = F(v[j].v + 1)
    return inst


def ob_o1(tier):
    ob = obligation("C07S.O1.no_result_discarded", "fri_verify(..).is_ok() => every inner layer's table_decommit (re-executed with the same arguments) "
                    "is Ok and verify_last_layer is Ok", FNS,
                    "geometries %s; query positions concrete, all values / commitments / witnesses symbolic; nvf in {0, 100}; hashes collision-free UF" % (
                        [(s, b, q) for s, b, l, q in geometries(tier)],))
    def body(ob):
        st = Stats()
        w = world("recursive")
        notes = []
        for steps, bound, lnc, qs in geometries(tier):
            g = frimodel.geometry(steps, bound, lnc, qs)
            for nvf in (0, 100):
                ex, outs, hold = explore_fri(w, g, nvf)
                oks = [o for o in outs if o.kind == "ok"]
                notes.append("%s nvf=%d: %d paths, %d Ok" % (gname(g), nvf, len(outs), len(oks)))
                for o in oks:
                    res = inner_results(o)
                    bad = [(k, n) for k, (n, rv) in enumerate(res) if isinstance(rv, ResultV) and rv.kind == "Err"]
                    n_td = len([1 for n, rv in res if n == "table_decommit"])
                    if not bad and n_td == len(g["layers"]):
                        continue
                    v, model = sxh.solve_path(ex, o, hold["inst"], st, timeout_s=90)
                    if v == "unsat":
                        continue
                    if v != "sat":
                        return finish(ob, "inconclusive", st, detail="undecided path; " + "; ".join(notes))
                    # native witness: honest instance, corrupt an authentication node of the first layer whose decommit failed
                    li = min(k for k, n in bad) if bad else 0
                    li = min(li, len(g["layers"]) - 1)
                    inst = corrupted_native(w, g, ("commitment", li, 0), rng("C07S.O1"))
                    req = fri_request(inst)
                    ans = replay([req], LAY)[0]
                    lay = native_layer_oracle(inst, g)
                    rep = {"reproduced": "ok" in ans and any("err" in a for a in lay), "request": req, "real_output": ans, "layer_decommits": lay,
                           "expected": "Err (the re-executed table_decommit of layer %d fails)" % li}
                    cex = {"geometry": gname(g), "nvf": nvf, "symbolic_inner_results": [(n, rv.kind) for n, rv in res], "request": req}
                    return finish(ob, "violated" if rep["reproduced"] else "inconclusive", st,
                                  detail="fri_verify returns Ok on a path where the inner calls returned %s (%d table_decommit calls for %d layers); native: honest "
                                  "instance with the layer-%d commitment changed is accepted, its layer decommit re-run gives %s" % (
                                      [(n, rv.kind) for n, rv in res], n_td, len(g["layers"]), li, str(lay)[:160]), cex=cex, replay_rec=rep)
        return finish(ob, "holds", st, detail="; ".join(notes))
    return guarded(ob, body)


def ob_o2(tier):
    ob = obligation("C07S.O2.last_layer_length", "last_layer_coefficients.len() != 2^log_last_layer_degree_bound => fri_verify returns Err "
                    "(and fri_commit does not return normally)", FNS + [sxh.F_FRI + "::fri_commit"],
                    "bound b in {0,1,2}; every length in 0..=2^(b+1); 2-layer geometry, 1 query; contents symbolic")
    def body(ob):
        st = Stats()
        w = world("recursive")
        notes = []
        for b in (0, 1, 2):
            g = frimodel.geometry([0, 1], b, 1, [1])
            for L in range(0, 2**(b + 1) + 1):
                tweak = {"last_layer_coefficients": L - 2**b}
                ex, outs, hold = explore_fri(w, g, 0, tweak=tweak)
                want_ok = (L == 2**b)
                for o in outs:
                    wrong = (o.kind == "ok") if not want_ok else False
                    if not wrong:
                        continue
                    v, model = sxh.solve_path(ex, o, hold["inst"], st, timeout_s=60)
                    if v == "unsat":
                        continue
                    if v != "sat":
                        return finish(ob, "inconclusive", st, detail="undecided path")
                    inst = concretize(hold["inst"], model)
                    # make the instance acceptable for the real hashes: only the last-layer check matters (decommit results are recomputed below)
                    req = fri_request(inst)
                    ans = replay([req], LAY)[0]
                    rep = {"reproduced": "ok" in ans, "request": req, "real_output": ans, "expected": "Err (length %d != 2^%d)" % (L, b)}
                    if not rep["reproduced"]:
                        # the model's hash values are not real; build the witness natively: honest instance with the coefficient vector resized
                        orc = common.HashOracle(LAY)
                        try:
                            hi = frimodel.honest_fri(w, g, rng("C07S.O2"), orc, nvf=0)
                        finally:
                            orc.close()
                        co = hi["commitment"].fields["last_layer_coefficients"]
                        while len(co) < L:
                            co.append(F(0))
                        del co[L:]
                        req = fri_request(hi)
                        ans = replay([req], LAY)[0]
                        rep = {"reproduced": "ok" in ans, "request": req, "real_output": ans, "expected": "Err (length %d != 2^%d)" % (L, b)}
                    return finish(ob, "violated" if rep["reproduced"] else "inconclusive", st,
                                  detail="fri_verify accepts %d coefficients with log bound %d" % (L, b), cex={"bound": b, "length": L, "request": req}, replay_rec=rep)
                # fri_commit with the same length
                exc = Exec(w, int_bound=17)
                hold2 = {}
                def entry(ex, L=L, b=b):
                    h = H(ex)
                    cfg = sxh.fri_config(h, "cfg", [0, 1], b, 1, F(0))
                    un = h.struct(sxh.F_FRITYPES, "UnsentCommitment", "un", {"un.inner_layers": 1, "un.last_layer_coefficients": L})
                    tr = h.transcript()
                    hold2.update(cfg=deep_copy(cfg), un=deep_copy(un), tr=deep_copy(tr))
                    return h.call(sxh.F_FRI, "fri_commit", [tr, un, cfg])
                outs2 = exc.explore(entry, max_paths=50)
                for o in outs2:
                    if o.kind == "ok" and not want_ok:
                        v, model = sxh.solve_path(exc, o, hold2, st, timeout_s=60)
                        if v == "sat":
                            c = concretize(hold2, model)
                            req = {"fn": "fri_commit", "transcript": {"digest": to_json(c["tr"].fields["digest"]), "counter": to_json(c["tr"].fields["counter"])},
                                   "unsent_commitment": to_json(c["un"]), "config": to_json(c["cfg"])}
                            ans = replay([req], LAY)[0]
                            rep = {"reproduced": "ok" in ans, "request": req, "real_output": ans}
                            return finish(ob, "violated" if rep["reproduced"] else "inconclusive", st,
                                          detail="fri_commit accepts %d coefficients with log bound %d" % (L, b), cex={"bound": b, "length": L, "request": req}, replay_rec=rep)
                notes.append("b=%d len=%d: fri_verify %s, fri_commit %s" % (b, L, sorted(set(o.label().split(" ")[0] for o in outs)),
                                                                          sorted(set(o.label().split("(")[0] for o in outs2))))
        return finish(ob, "holds", st, detail="; ".join(notes))
    return guarded(ob, body)


def positions(g):
    out = []
    for i, lay in enumerate(g["layers"]):
        out.append(("commitment", i, 0))
        for j in range(lay["n_auth"]):
            out.append(("authentication", i, j))
        for j in range(lay["n_leaves"]):
            out.append(("leaf", i, j))
    return out


def ob_o3(tier):
    ob = obligation("C07S.O3.single_corruption", "changing ONE Merkle-bound value (a coset sibling leaf, an authentication node, an inner-layer "
                    "commitment) of an accepted instance whose layer decommitments all verify makes fri_verify reject", FNS,
                    "two runs of fri_verify sharing every symbol except the changed position; all positions of the geometries %s; nvf = 0" % (
                        [(s, b, q) for s, b, l, q in geometries(tier)[:3]],))
    def body(ob):
        st = Stats()
        w = world("recursive")
        notes = []
        for steps, bound, lnc, qs in geometries(tier)[:3 if tier == "quick" else 6]:
            g = frimodel.geometry(steps, bound, lnc, qs)
            exA, outsA, holdA = explore_fri(w, g, 0)
            goodA = [o for o in outsA if o.kind == "ok" and all(rv.kind == "Ok" for n, rv in inner_results(o))]
            if not goodA:
                return finish(ob, "inconclusive", st, detail="no fully verified accepting path for %s" % gname(g))
            for pos in positions(g):
                kind, i, j = pos
                fresh = {}
                def corrupt(h, inst, kind=kind, i=i, j=j):
                    c = h.felt("corrupted")
                    fresh["c"] = c
                    lw = inst["witness"].fields["layers"][i]
                    if kind == "authentication":
                        v = lw.fields["table_witness"].fields["vector"].fields["authentications"]
                        fresh["orig"] = v[j]
                        v[j] = c
                    elif kind == "leaf":
                        v = lw.fields["leaves"]
                        fresh["orig"] = v[j]
                        v[j] = c
                    else:
                        vc = inst["commitment"].fields["inner_layers"][i].fields["vector_commitment"]
                        fresh["orig"] = vc.fields["commitment_hash"]
                        vc.fields["commitment_hash"] = c
                exB, outsB, holdB = explore_fri(w, g, 0, corrupt=corrupt)
                okB = [o for o in outsB if o.kind == "ok"]
                if not okB:
                    continue
                goals = []
                for a in goodA:
                    for b_ in okB:
                        goals.append(z3.And(*(a.pc + b_.pc)))
                base = exA.base + exA.axioms + exB.base + exB.axioms
                v, model = check(base + [z3.Or(*goals), zi(fresh["c"]) != zi(fresh["orig"])], st, timeout_s=120, want_model=False, xcheck=False)
                if v == "unsat":
                    continue
                if v != "sat":
                    return finish(ob, "inconclusive", st, detail="position %s of %s undecided" % (pos, gname(g)))
                if kind == "leaf":
                    # a changed leaf also changes the folded value: acceptance additionally needs matching last-layer coefficients, which the
                    # solver may choose; natively this is shown by re-interpolating the last layer after the change
                    orc = common.HashOracle(LAY)
                    try:
                        inst = native_leaf_swap(w, g, i, j, orc)
                    finally:
                        orc.close()
                else:
                    inst = corrupted_native(w, g, pos, rng("C07S.O3"))
                req = fri_request(inst)
                ans = replay([req], LAY)[0]
                lay = native_layer_oracle(inst, g)
                rep = {"reproduced": "ok" in ans, "request": req, "real_output": ans, "layer_decommits": lay, "expected": "Err"}
                return finish(ob, "violated" if rep["reproduced"] else "inconclusive", st,
                              detail="%s: changing %s %d of layer %d keeps the instance accepted (native layer decommit re-run: %s)" % (
                                  gname(g), kind, j, i, str(lay)[:160]), cex={"geometry": gname(g), "position": list(pos), "request": req}, replay_rec=rep)
            notes.append("%s: %d positions rejected" % (gname(g), len(positions(g))))
        return finish(ob, "holds", st, detail="; ".join(notes))
    return guarded(ob, body)


def native_leaf_swap(w, g, i, j, orc):
    """accepted instance in which sibling leaf (i, j) differs from the value committed under the layer's Merkle root: the honest
    construction is run twice with the same randomness; the second run changes the leaf AFTER the roots were fixed by the first and
    re-interpolates the last layer"""
    r1 = rng("C07S.leaf")
    a = frimodel.honest_fri(w, g, r1, orc, nvf=0)
    # second instance: same random stream, leaf changed -> different folded values and last layer, roots of instance `a` kept
    class Patched(object):
        def __init__(self, r):
            self.r, self.n = r, 0
        def randrange(self, *args):
            return self.r.randrange(*args)
    r2 = rng("C07S.leaf")
    b = frimodel.honest_fri(w, g, r2, orc, nvf=0)
    lw = b["witness"].fields["layers"][i]
    lw.fields["leaves"][j] = F(lw.fields["leaves"][j].v + 1)
    # recompute the later layers / last layer for the changed leaf by a fresh honest construction seeded identically but with the leaf
    # patched is not expressible through the random stream; instead keep instance b's commitments (roots of the ORIGINAL leaf) and fix the
    # last layer by interpolation through the natively recomputed final queries
    qs = replay([{"fn": "gather_first_layer_queries", "queries": to_json(b["queries"]), "evaluations": to_json(b["decommitment"].fields["values"]),
                  "x_values": to_json(b["decommitment"].fields["points"])}], LAY)[0]["ok"]
    for k, lay in enumerate(g["layers"]):
        lwk = b["witness"].fields["layers"][k]
        a_ = replay([{"fn": "compute_next_layer", "queries": qs, "sibling_witness": to_json(lwk.fields["leaves"]), "coset_size": hx(lay["coset_size"]),
                      "eval_point": to_json(b["commitment"].fields["eval_points"][k])}], LAY)[0]["ok"]
        qs = a_["next_queries"]
    pts = [(pow(int(q["x_inv_value"], 16), P - 2, P), int(q["y_value"], 16)) for q in qs]
    coefs = frimodel.interpolate(pts) + [0] * (g["n_coefficients"] - len(pts))
    b["commitment"].fields["last_layer_coefficients"] = RList([F(c) for c in coefs])
    return b


def run(tier):
    obs = [ob_complete(tier), ob_o1(tier), ob_o2(tier), ob_o3(tier)]
    return {"property": "C07S", "tier": tier, "engine": "felt-sx", "assumptions": ASSUMPTIONS, "obligations": obs,
            "outside": ["degree >= bound is rejected with high probability (probabilistic)", "corruption of a queried input value / evaluation point "
                        "(transcript-bound, probabilistic)", "geometries beyond the enumerated ones", "last-layer coefficient corruption: C07.O3 (E2 ring encoding)"]}
