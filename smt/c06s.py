"""C06S - coset gathering (crates/fri/src/layer.rs compute_coset_elements / compute_next_layer) for EVERY query set of a shape:
the real compute_next_layer executed symbolically (fri_formula uninterpreted: its arguments are what is checked) against the
independent index geometry `query i belongs to coset i div n at offset i mod n`."""
import itertools

import z3

import common
from common import Stats, check, finish, guarded, obligation, replay, hx, P
from symex import F, RList, ResultV, LoopBound
from sx import Exec, ASSUMPTIONS
from sxlib import concretize, to_json
from sxval import SStruct, EnumV, zi, deep_copy
import sxh
from sxh import H, world

LAY = ["recursive"]
FNS = [sxh.F_LAYER + "::compute_next_layer", sxh.F_LAYER + "::compute_coset_elements"]
INDEX_BITS = 40


def shapes(n, m):
    """every way m sorted queries fall into cosets of size n: a list of groups, each a strictly increasing tuple of in-coset offsets"""
    out = []
    for cuts in itertools.product([False, True], repeat=m - 1):
        sizes, cur = [], 1
        for c in cuts:
            if c:
                sizes.append(cur)
                cur = 1
            else:
                cur += 1
        sizes.append(cur)
        if any(s > n for s in sizes):
            continue
        per = [list(itertools.combinations(range(n), s)) for s in sizes]
        for combo in itertools.product(*per):
            out.append(list(combo))
    return out


def reference(n, groups, cosets, ys, xinvs, leaves, group_elems):
    """the specification, on python values or z3-carrying felts alike (cosets / ys / xinvs / leaves are only moved around).
    Returns ("err",) when the sibling witness is too short, else ("ok", verify_indices, verify_y, [(elements, x_inv factor pair)], leaves_used)"""
    j, used = 0, 0
    vidx, vy, calls = [], [], []
    for g, offs in enumerate(groups):
        elems, last = [], None
        for t in range(n):
            if t in offs:
                elems.append(ys[j])
                last = (xinvs[j], group_elems[t])
                j += 1
            else:
                if used >= len(leaves):
                    return ("err",)
                elems.append(leaves[used])
                used += 1
        vidx.append(cosets[g])
        vy += elems
        calls.append((elems, last))
    return ("ok", vidx, vy, calls, used)


def run_case(w, n, groups, L):
    m = sum(len(g) for g in groups)
    ex = Exec(w, int_bound=INDEX_BITS + 6)
    hold = {}
    calls = []
    def formula_hook(ex_, args, line):
        k = len([e for e in ex_.events if e[0] == "uninterpreted:fri_formula"]) + 1
        r = ex_.sym_felt("fri_formula#%d" % k)
        ex_.events.append(("uninterpreted:fri_formula", [deep_copy(a) for a in args], r, ex_.file, line))
        return ResultV("Ok", r)
    ex.abstract[(None, "fri_formula")] = formula_hook
    def entry(ex):
        h = H(ex)
        cos = [h.felt("coset[%d]" % g) for g in range(len(groups))]
        for g, c in enumerate(cos):
            ex.assume(zi(c) < 2**INDEX_BITS)
            if g:
                ex.assume(zi(cos[g - 1]) < zi(c))
        qs, ys, xs, idx = [], [], [], []
        lm = h.w.mod(sxh.F_LAYER)
        for g, offs in enumerate(groups):
            for o in offs:
                k = len(qs)
                i = h.felt("q[%d].index" % k)
                ex.assume(zi(i) == n * zi(cos[g]) + o)
                y, x = h.felt("q[%d].y_value" % k), h.felt("q[%d].x_inv_value" % k)
                qs.append(SStruct("FriLayerQuery", {"index": i, "y_value": y, "x_inv_value": x}, lm))
                ys.append(y); xs.append(x); idx.append(i)
        leaves = h.felts("leaf", L)
        ep = h.felt("eval_point")
        group = h.call("crates/fri/src/group.rs", "get_fri_group", [])
        params = SStruct("FriLayerComputationParams", {"coset_size": F(n), "fri_group": group, "eval_point": ep}, lm)
        queries = RList(qs)
        hold.update(cos=cos, ys=ys, xs=xs, idx=idx, leaves=deep_copy(leaves), ep=ep, group=list(group), queries=deep_copy(queries))
        ex.notes.append(("left", queries, leaves))
        return h.call(sxh.F_LAYER, "compute_next_layer", [queries, leaves, params])
    outs = ex.explore(entry, max_paths=64, budget_s=120)
    return ex, outs, hold


def spec_of(ex, o, hold, n, groups, L):
    """z3 formula `this path's result is the specified one` (False on a structural mismatch)"""
    exp = reference(n, groups, hold["cos"], hold["ys"], hold["xs"], hold["leaves"], hold["group"])
    if exp[0] == "err":
        ok = o.kind == "err" and isinstance(o.value, EnumV) and o.value.chain()[-1] == "WitnessTooShort"
        return z3.BoolVal(ok)
    if o.kind != "ok":
        return z3.BoolVal(False)
    _, vidx, vy, calls, used = exp
    nq, gi, gy = o.value
    left = [x for x in o.notes if isinstance(x, tuple) and x[0] == "left"][0]
    ev = [e for e in o.events if e[0] == "uninterpreted:fri_formula"]
    if len(nq) != len(groups) or len(gi) != len(vidx) or len(gy) != len(vy) or len(ev) != len(calls) or len(left[1]) != 0 or len(left[2]) != L - used:
        return z3.BoolVal(False)
    conj = []
    conj += [zi(a) == zi(b) for a, b in zip(gi, vidx)]
    conj += [zi(a) == zi(b) for a, b in zip(gy, vy)]
    for k, (e, (elems, last)) in enumerate(zip(ev, calls)):
        a_elems, a_ep, a_xinv, a_size = e[1]
        if len(a_elems) != len(elems):
            return z3.BoolVal(False)
        conj += [zi(a) == zi(b) for a, b in zip(a_elems, elems)]
        cx = ex.f_mul(last[0], last[1])
        conj.append(zi(a_xinv) == zi(cx))
        conj.append(zi(a_ep) == zi(hold["ep"]))
        conj.append(zi(a_size) == n)
        q = nq[k]
        conj.append(zi(q.fields["index"]) == zi(vidx[k]))
        conj.append(zi(q.fields["y_value"]) == zi(e[2]))
        conj.append(zi(q.fields["x_inv_value"]) == zi(ex.f_pow(cx, F(n), 0)))
    return z3.And(*conj) if conj else z3.BoolVal(True)


def native_compare(n, groups, c):
    """replay the concretised case on the real compute_next_layer and compare with the reference on concrete values"""
    req = {"fn": "compute_next_layer", "queries": to_json(c["queries"]), "sibling_witness": to_json(c["leaves"]), "coset_size": hx(n),
           "eval_point": to_json(c["ep"])}
    ans = replay([req], LAY)[0]
    val = lambda x: x.v if isinstance(x, F) else int(x)
    cos = [val(x) for x in c["cos"]]
    exp = reference(n, groups, cos, [val(x) for x in c["ys"]], [val(x) for x in c["xs"]], [val(x) for x in c["leaves"]], [val(x) for x in c["group"]])
    if exp[0] == "err":
        good = "err" in ans and "WitnessTooShort" in str(ans["err"])
        return req, ans, good, "Err(WitnessTooShort)"
    _, vidx, vy, calls, used = exp
    want = {"verify_indices": [hx(x) for x in vidx], "verify_y_values": [hx(x) for x in vy], "next_indices": [hx(x) for x in vidx],
            "next_x_inv": [hx(pow(a * b % P, n, P)) for _, (a, b) in calls], "queries_left": 0, "siblings_left": len(c["leaves"]) - used}
    if "ok" not in ans:
        return req, ans, False, want
    a = ans["ok"]
    got = {"verify_indices": a["verify_indices"], "verify_y_values": a["verify_y_values"], "next_indices": [q["index"] for q in a["next_queries"]],
           "next_x_inv": [q["x_inv_value"] for q in a["next_queries"]], "queries_left": a["queries_left"], "siblings_left": a["siblings_left"]}
    norm = lambda d: {k: ([int(x, 16) for x in v] if isinstance(v, list) else v) for k, v in d.items()}
    return req, ans, norm(got) == norm(want), want


def ob_gathering(tier):
    sizes = [(2, 3), (4, 3)] + ([(8, 2), (16, 2), (2, 4)] if tier == "thorough" else [(8, 2)])
    ob = obligation("C06S.coset_gathering", "for every sorted duplicate-free query set of the shape, compute_next_layer groups the queries by coset "
                    "(index div coset_size), places each queried value at its in-coset offset (index mod coset_size) and fills the other positions with the "
                    "sibling leaves in order; it hands fri_formula exactly these coset values with x_inv = x_inv(last query of the coset) * fri_group[offset], "
                    "returns one next-layer query per coset (index = coset index, x_inv = that x_inv ^ coset_size), consumes all queries and exactly the "
                    "needed leaves, and answers WitnessTooShort iff the sibling witness has fewer leaves than needed", FNS,
                    "coset sizes / max queries %s; every partition of the queries into cosets and every in-coset offset pattern enumerated; coset indices "
                    "symbolic below 2^%d (strictly increasing, so adjacent cosets are included), y / x_inv / leaves / eval_point symbolic felts; witness length "
                    "exact, one short and one long; fri_formula uninterpreted (its fold identity is C06.fold.*)" % (sizes, INDEX_BITS))
    def body(ob):
        st = Stats()
        w = world("recursive")
        cases = 0
        for n, mmax in sizes:
            for m in range(1, mmax + 1):
                for groups in shapes(n, m):
                    need = len(groups) * n - m
                    for L in sorted(set([need, max(0, need - 1), need + 1])):
                        cases += 1
                        tag = "n=%d offsets=%s leaves=%d" % (n, groups, L)
                        try:
                            ex, outs, hold = run_case(w, n, groups, L)
                        except LoopBound as l:
                            return finish(ob, "inconclusive", st, detail="%s: %s" % (tag, l))
                        bad = [o for o in outs if o.kind in ("panic", "unbounded")]
                        goals = [z3.And(*(o.pc + [z3.Not(spec_of(ex, o, hold, n, groups, L))])) for o in outs]
                        if not outs:
                            return finish(ob, "inconclusive", st, detail="%s: no feasible path" % tag)
                        v, _ = check(ex.base + ex.axioms + [z3.Or(*goals)], st, timeout_s=120, want_model=False)
                        if v == "unsat":
                            continue
                        if v != "sat":
                            return finish(ob, "inconclusive", st, detail="%s: solver answered %s" % (tag, v))
                        # which path, which input: concretise and replay on the real function
                        for o, goal in zip(outs, goals):
                            v2, model = sxh.solve_path(ex, o, hold, st, timeout_s=60, extra=[z3.Not(spec_of(ex, o, hold, n, groups, L))])
                            if v2 != "sat":
                                continue
                            c = concretize(hold, model)
                            req, ans, good, want = native_compare(n, groups, c)
                            rep = {"reproduced": not good, "request": req, "real_output": ans, "expected": want}
                            return finish(ob, "violated" if not good else "inconclusive", st,
                                          detail="%s: path %s departs from the coset geometry; real compute_next_layer on the solver's query set %s: %s" % (
                                              tag, o.label(), [q["index"] for q in req["queries"]], "differs from the reference" if not good else "agrees (spurious)"),
                                          cex={"case": tag, "request": req}, replay_rec=rep)
                        return finish(ob, "inconclusive", st, detail="%s: disjunction sat but no single path reproduced" % tag)
        # translator validation: reference vs real function on concrete instances (includes a straddling pair and a full coset)
        for n, idx in ((2, [4, 6, 17, 19]), (4, [3, 4, 9]), (2, [1, 2]), (4, [8, 9, 10, 11]), (8, [7, 8])):
            groups, cos = [], []
            for i in idx:
                if cos and cos[-1] == i // n:
                    groups[-1] = groups[-1] + (i % n,)
                else:
                    cos.append(i // n)
                    groups.append((i % n,))
            need = len(groups) * n - len(idx)
            c = {"queries": RList([SStruct("FriLayerQuery", {"index": F(i), "y_value": F(1000 + i), "x_inv_value": F(7 + i)}, w.mod(sxh.F_LAYER)) for i in idx]),
                 "leaves": RList([F(50 + k) for k in range(need)]), "ep": F(5), "cos": [F(x) for x in cos], "ys": [F(1000 + i) for i in idx],
                 "xs": [F(7 + i) for i in idx], "group": fri_group_concrete(w)}
            req, ans, good, want = native_compare(n, groups, c)
            if not good:
                rep = {"reproduced": True, "request": req, "real_output": ans, "expected": want}
                return finish(ob, "violated", st, detail="honest concrete query set %s (coset size %d): the real compute_next_layer departs from the coset "
                              "geometry: %s" % (idx, n, str(ans)[:200]), cex={"request": req}, replay_rec=rep)
        return finish(ob, "holds", st, detail="%d cases (shape x witness length), every path equals the reference; real function = reference on 5 concrete "
                      "query sets (straddling pair, full coset, multi-query cosets)" % cases)
    return guarded(ob, body)


_group = {}

def fri_group_concrete(w):
    if "g" not in _group:
        ex = Exec(w)
        out = {}
        def entry(ex):
            out["g"] = list(H(ex).call("crates/fri/src/group.rs", "get_fri_group", []))
            return ()
        ex.run_concrete(entry)
        _group["g"] = out["g"]
    return _group["g"]


def run(tier):
    obs = [ob_gathering(tier)]
    return {"property": "C06S", "tier": tier, "engine": "felt-sx", "assumptions": ASSUMPTIONS, "obligations": obs,
            "outside": ["more than 3 (thorough: 4) queries in one layer", "coset indices >= 2^%d" % INDEX_BITS,
                        "unsorted or duplicated query lists (generate_queries sorts and dedups: C10)"]}
