"""Small STARK instances on the ToyLayout (/verif/replay_e2/src/toy.rs, parsed like the repository): symbolic inputs of stark_commit /
stark_verify / verify_oods / eval_oods_boundary_poly_at_points with honest vector lengths (+ tweaks)."""
import z3

import common
from common import P, hx
from rsparse import Unsupported
from symex import F, RList, ResultV, RustPanic
from sx import Exec, Pruned
from sxval import SF, SStruct, zi, deep_copy
import sxh
import frimodel
from sxh import H, set_path
from sxlib import to_json


def toy_world():
    return sxh.world("recursive", toy=True)


def toy_types(w):
    return {"Layout": (w.mod(sxh.TOY), "Layout")}


def layout_consts(ex, names=("MASK_SIZE", "N_CONSTRAINTS", "CONSTRAINT_DEGREE")):
    return dict((n, ex.assoc_const("Layout", n, 0)) for n in names)


def abstract_layout(ex, comp_result=None):
    """uninterpreted eval_composition_polynomial / eval_oods_polynomial: arguments are recorded in the path's events, results are fresh felts"""
    def comp(ex_, args, line):
        k = sum(1 for e in ex_.events if e[0] == "eval_composition_polynomial") + 1
        r = ex_.sym_felt("toy_composition_%d" % k) if comp_result is None else comp_result
        ex_.events.append(("eval_composition_polynomial", [deep_copy(a) for a in args], r, ex_.file, line))
        return ResultV("Ok", r)
    def oods(ex_, args, line):
        k = sum(1 for e in ex_.events if e[0] == "eval_oods_polynomial") + 1
        r = ex_.sym_felt("toy_oods_poly_%d" % k)
        ex_.events.append(("eval_oods_polynomial", [deep_copy(a) for a in args], r, ex_.file, line))
        return ResultV("Ok", r)
    return {("Layout", "eval_composition_polynomial"): comp, ("Layout", "eval_oods_polynomial"): oods}


def public_input(h, name="pi"):
    return h.struct(sxh.F_PUBMEM, "PublicInput", name, {name + ".segments": 0, name + ".main_page": 0, name + ".continuous_page_headers": 0})


def domains(h, cfg):
    return h.call(sxh.F_DOMAINS, "new", [cfg.fields["log_trace_domain_size"], cfg.fields["log_n_cosets"]], owner="StarkDomains")


def commit_inputs(h, g, n_oods, tweak=None, n_bits=None):
    """inputs of stark_commit for FRI geometry g (steps / bound / lnc): config validated by construction (and by the real validate in the
    C18 harness), unsent commitment with n_oods OODS values"""
    tweak = tweak or {}
    n = len(g["steps"])
    cfg = sxh.stark_config_concrete(h, "cfg", g["steps"], g["bound"], g["lnc"])
    if n_bits is not None:
        set_path(cfg, "proof_of_work.n_bits", n_bits)
    un = h.struct(sxh.F_STARKTYPES, "StarkUnsentCommitment", "un", {
        "un.oods_values": n_oods, "un.fri.inner_layers": max(0, n - 1 + tweak.get("unsent_inner_layers", 0)),
        "un.fri.last_layer_coefficients": max(0, g["n_coefficients"] + tweak.get("last_layer_coefficients", 0))})
    if "config_inner_layers" in tweak:
        k = max(0, n - 1 + tweak["config_inner_layers"])
        il = cfg.fields["fri"].fields["inner_layers"]
        cfg.fields["fri"].fields["inner_layers"] = RList(list(il)[:k] + [deep_copy(il[-1]) for _ in range(max(0, k - len(il)))])
    if "fri_step_sizes" in tweak:
        k = max(0, n + tweak["fri_step_sizes"])
        ss = cfg.fields["fri"].fields["fri_step_sizes"]
        cfg.fields["fri"].fields["fri_step_sizes"] = RList(list(ss)[:k] + [F(1)] * max(0, k - len(ss)))
    tr = h.transcript()
    pi = public_input(h)
    return {"tr": tr, "pi": pi, "un": un, "cfg": cfg}


def commit_request(c, dom):
    return {"fn": "stark_commit", "transcript": {"digest": to_json(c["tr"].fields["digest"]), "counter": to_json(c["tr"].fields["counter"])},
            "public_input": to_json(c["pi"]), "unsent_commitment": to_json(c["un"]), "config": to_json(c["cfg"]), "stark_domains": to_json(dom)}


def table_commitment(h, name, n_columns, height, nvf):
    t = h.struct(sxh.F_TTYPES, "Commitment", name, {})
    set_path(t, "config.n_columns", F(n_columns))
    set_path(t, "config.vector.height", F(height))
    set_path(t, "config.vector.n_verifier_friendly_commitment_layers", nvf)
    set_path(t, "vector_commitment.config", deep_copy(t.fields["config"].fields["vector"]))
    return t


def verify_inputs(h, g, n0, n1, n_oods, consts, tweak=None, nvf=None):
    """inputs of stark_verify::<Toy>: commitment as stark_commit returns it (oods_values of n_oods entries), witness with honest lengths"""
    tweak = tweak or {}
    nvf = F(0) if nvf is None else nvf
    lis = g["log_input_size"]
    nq = len(g["queries"])
    w = h.w
    ie = h.struct(sxh.TOY, "InteractionElements", "ie", {})
    traces = SStruct("Commitment", {"original": table_commitment(h, "tco", n0, lis, nvf), "interaction_elements": ie,
                                    "interaction": table_commitment(h, "tci", n1, lis, nvf)}, w.mod(sxh.F_TRACE))
    comp = table_commitment(h, "cc", consts["CONSTRAINT_DEGREE"], lis, nvf)
    fri = frimodel.fri_commitment(h, g, nvf, name="fc", tweak=tweak)
    com = SStruct("StarkCommitment", {"traces": traces, "composition": comp, "interaction_after_composition": h.felt("z"),
                                      "oods_values": h.felts("oods", n_oods),
                                      "interaction_after_oods": h.felts("oc", consts["MASK_SIZE"] + consts["CONSTRAINT_DEGREE"]), "fri": fri}, w.mod(sxh.F_STARKTYPES))
    na = frimodel.merkle_auth_count(g["queries"], lis)
    shape = {"wit.traces_decommitment.original.values": max(0, nq * n0 + tweak.get("original_values", 0)),
             "wit.traces_decommitment.interaction.values": max(0, nq * n1 + tweak.get("interaction_values", 0)),
             "wit.traces_witness.original.vector.authentications": max(0, na + tweak.get("original_auth", 0)),
             "wit.traces_witness.interaction.vector.authentications": max(0, na + tweak.get("interaction_auth", 0)),
             "wit.composition_decommitment.values": max(0, nq * consts["CONSTRAINT_DEGREE"] + tweak.get("composition_values", 0)),
             "wit.composition_witness.vector.authentications": max(0, na + tweak.get("composition_auth", 0)),
             "wit.fri_witness.layers": 0}
    wit = h.struct(sxh.F_STARKTYPES, "StarkWitness", "wit", shape)
    wit.fields["fri_witness"] = frimodel.fri_witness(h, g, name="fw", tweak=tweak)
    qs = RList([F(q) for q in g["queries"]])
    pi = public_input(h)
    return {"n0": n0, "n1": n1, "pi": pi, "qs": qs, "com": com, "wit": wit}


def verify_request(c, dom):
    return {"fn": "stark_verify", "n_original_columns": c["n0"], "n_interaction_columns": c["n1"], "public_input": to_json(c["pi"]),
            "queries": to_json(c["qs"]), "commitment": to_json(c["com"]), "witness": to_json(c["wit"]), "stark_domains": to_json(dom)}
