"""felt-sx: symbolic executor for the structural properties (Vec / iterator / Option / Result heavy code).

  * Felt = z3 Int in [0,P): + - neg exact (case split), comparisons on the canonical integer, general * / pow / field_div are
    uninterpreted functions with the obvious laws, small constants exact.
  * hashes = uninterpreted COLLISION-FREE functions; injectivity without quantifiers: for every application t = h(a,b) created
    during execution the instance axioms inv1_h(t) = a, inv2_h(t) = b, tagof(t) = id_h are asserted.
  * Vec / slices have concrete lengths; contents are symbolic.
  * every path ends in an Outcome: ok / err / panic(site, message) / unbounded(site) with its path condition.
Paths are enumerated by re-execution with a decision prefix (as symex.explore), pruned by an incremental z3 solver.
"""
import os
import time

import z3

import rsparse
from rsparse import Unsupported
from symex import F, RList, ResultV, P, BreakEx, ReturnEx, RustPanic, LoopBound
from sxval import (SF, SI, BI, NZ, SStruct, EnumV, Closure, ByteChunk, Hasher, Digest, DigestSlice, BITS, TWO64,
                   is_felt, is_int, is_bool, zi, zb, b_and, b_or, b_not, concrete_of, deep_copy)
from sxworld import World, cfg_active

I = z3.IntSort()
FELT_ASSOC = {"ZERO": 0, "ONE": 1, "TWO": 2, "THREE": 3, "MAX": P - 1}
INT_MAX = dict(((t, "MAX"), 2**b - 1) for t, b in BITS.items())

ASSUMPTIONS = [
    "Felt arithmetic: + - neg exact in the integers mod p = 2^251+17*2^192+1 (case split); * , pow, field_div by a symbolic value are "
    "uninterpreted functions constrained by: range [0,p), x*0=0, x*1=x, commutativity (argument ordering), no zero divisors, "
    "x^0=1, x^1=x, 1^e=1, a/1=a, 0/b=0, a/b=0 => a=0; multiplication / division by a small constant is exact; 2^e exact for e <= 256",
    "multiplication by a fixed non-zero constant is injective (instances unmul_c(c*x) = x); 1/x is an involution (instances inv(inv x) = x)",
    "poseidon_hash, pedersen_hash: uninterpreted, deterministic, COLLISION-FREE (instances inv1_h(h(a,b)) = a, inv2_h(h(a,b)) = b)",
    "poseidon_hash_many: chain HM_step(acc, x_i) from acc=0 closed by HM_end(acc, n); both collision-free, HM_step(..) >= 1",
    "Keccak256 / Blake2s256 (Digest API) and the truncated digests (bytes [12..32], [1..32], [0..16]): collision-free on the byte string, "
    "chained per input chunk (felt 32 bytes, u64 8 bytes, u8, digest 32 bytes)",
    "hash families have disjoint ranges (instances tagof(t) = id_h)",
    "machine integers: usize/u64 arithmetic panics on overflow/underflow (the replay crate is built with overflow-checks = true)",
]


SITE_OBS = None      # set to a dict by C17: (file, line) -> observation of loop / iterator sites during symbolic execution
ITER_METHODS = ("retain", "position", "find", "windows", "chunks", "chunks_exact", "binary_search", "map", "flat_map", "fold", "for_each", "filter", "extend", "extend_from_slice", "collect", "to_vec", "sort", "dedup", "drain",
                "chain", "zip", "all", "any", "sum", "rev", "enumerate", "skip", "take", "step_by", "iter", "iter_mut", "into_iter", "to_owned", "clone", "contains")


class Outcome(object):
    def __init__(self, kind, value=None, pc=(), site=None, msg=None, events=(), notes=()):
        self.kind, self.value, self.pc, self.site, self.msg = kind, value, list(pc), site, msg
        self.events, self.notes = list(events), list(notes)
    def label(self):
        if self.kind == "ok":
            return "Ok"
        if self.kind == "err":
            v = self.value
            return "Err(%s)" % ("/".join(v.chain()) if isinstance(v, EnumV) else repr(v)[:60])
        if self.kind == "panic":
            return "Panic(%s:%s %s)" % (self.site[0], self.site[1], self.msg)
        return "%s(%s)" % (self.kind, self.msg)
    def __repr__(self):
        return "<%s |pc|=%d>" % (self.label(), len(self.pc))


class Unbounded(Exception):
    def __init__(self, file, line, msg):
        self.file, self.line, self.msg = file, line, msg
        Exception.__init__(self, "%s:%s: %s" % (file, line, msg))


class Infeasible(Exception):
    pass


class Pruned(Exception):
    """raised by a harness when a precondition (e.g. `config accepted by validate`) fails on this path"""
    pass


class PathCtx(object):
    def __init__(self, prefix, base, timeout_ms):
        self.prefix = list(prefix)
        self.trace = []            # [(decision, forked)]
        self.pc = []
        self.solver = z3.Solver()
        self.solver.set("timeout", timeout_ms)
        for a in base:
            self.solver.add(a)
        self.checks = 0


class Exec(object):
    def __init__(self, world, types=None, abstract=None, hash_oracle=None, max_loop=8, branch_timeout_ms=4000,
                 int_bound=8, overrides=None, abstract_prefixes=()):
        self.world = world
        self.types = dict(types or {})           # generic parameter -> (module, owner)
        self.abstract = dict(abstract or {})      # (owner|None, fn name) -> python callable(exec, args, line)
        self.oracle = hash_oracle                 # concrete hash evaluation (translator validation)
        self.max_loop = max_loop
        self.int_bound = int_bound
        self.branch_timeout_ms = branch_timeout_ms
        self.overrides = dict(overrides or {})    # (owner, CONST) -> value   (abstract layout constants)
        self.abstract_prefixes = tuple(abstract_prefixes)    # free functions NOT in the loaded world whose names start so are uninterpreted
        self.base = []            # input constraints (ranges, preconditions)
        self.axioms = []          # instance axioms of the uninterpreted functions (valid on every path)
        self._axiom_ids = set()
        self._fresh = 0
        self.ctx = None
        self.file, self.owner, self.mod = "?", None, None
        self.prefix = ""
        self.hint = None
        self.events = []
        self.notes = []
        self.loop_sites = {}      # (file, line) -> {"kind":..., "max_iter": n, "bound": text}
        self.stats = {"paths": 0, "checks": 0, "exec_s": 0.0}
        self.focus_loop = None    # (file, line): paths end when this loop exits (C17 bound search)
        self._uf = {}
        self._pow2_of = {}
        self._defs = {}
        self._const_cache = {}
        self.ret_stack = []

    # ================================================================== solver / paths
    def axiom(self, a):
        i = a.get_id()
        if i in self._axiom_ids:
            return
        self._axiom_ids.add(i)
        self.axioms.append(a)
        if self.ctx is not None:
            self.ctx.solver.add(a)

    def assume(self, a):
        """precondition on the inputs (part of every path)"""
        i = a.get_id()
        if i in self._axiom_ids:
            return
        self._axiom_ids.add(i)
        self.base.append(a)
        if self.ctx is not None:
            self.ctx.solver.add(a)

    def fresh(self, name, lo=0, hi=None):
        """fresh integer constant; the counter is global to the executor (never reused across paths)"""
        self._fresh_global = getattr(self, "_fresh_global", 0) + 1
        v = z3.Int("%s!%d" % (name, self._fresh_global))
        if lo is not None:
            self.axiom(v >= lo)
        if hi is not None:
            self.axiom(v <= hi)
        return v

    def defined(self, key, make):
        """definitional fresh values, memoised on the defining terms so that re-executions of a path prefix (and different
        paths computing the same value) share one constant with one defining axiom"""
        k = tuple(x.get_id() if z3.is_expr(x) else x for x in key)
        hit = self._defs.get(k)
        if hit is None:
            hit = (make(), key)          # key kept alive: z3 ids are only stable while the term is referenced
            self._defs[k] = hit
        return hit[0]

    def uf(self, name, arity, ret=None):
        k = (name, arity)
        if k not in self._uf:
            self._uf[k] = z3.Function(name, *([I] * arity + [ret or I]))
        return self._uf[k]

    def _sat(self, cond):
        c = self.ctx
        c.checks += 1
        self.stats["checks"] += 1
        r = c.solver.check(cond)
        return r != z3.unsat

    def truth(self, c, line):
        if isinstance(c, bool):
            return c
        if not isinstance(c, z3.BoolRef):
            raise Unsupported(self.file, line, "condition is not a boolean: %r" % (c,))
        c = z3.simplify(c)
        if z3.is_true(c):
            return True
        if z3.is_false(c):
            return False
        ctx = self.ctx
        if ctx is None:
            raise Unsupported(self.file, line, "symbolic condition outside a path context")
        k = len(ctx.trace)
        if k < len(ctx.prefix):
            b = ctx.prefix[k]
            forked = None
        else:
            can_t = self._sat(c)
            can_f = self._sat(z3.Not(c))
            if can_t and can_f:
                b, forked = True, True
            elif can_t:
                b, forked = True, False
            elif can_f:
                b, forked = False, False
            else:
                raise Infeasible()
        ctx.trace.append((b, forked))
        lit = c if b else z3.Not(c)
        ctx.pc.append(lit)
        ctx.solver.add(lit)
        return b

    def concretize(self, x, limit, line):
        """python int value of an integer-like value; branches over 0..limit; returns None for `> limit`"""
        if isinstance(x, bool):
            raise Unsupported(self.file, line, "bool used as integer")
        if isinstance(x, int):
            return x if x <= limit else None
        if isinstance(x, F):
            return x.v if x.v <= limit else None
        t = zi(x)
        c = concrete_of(z3.simplify(t))
        if c is not None:
            return c if c <= limit else None
        for k in range(0, limit + 1):
            if self.truth(t == k, line):
                return k
        return None

    def explore(self, entry, max_paths=400, budget_s=None):
        """entry(self) -> value; runs every feasible path.  Returns [Outcome]."""
        outcomes, stack = [], [[]]
        t0 = time.time()
        while stack:
            prefix = stack.pop()
            out, ctx = self.run_once(entry, prefix)
            if out is not None:
                outcomes.append(out)
            for k in range(len(prefix), len(ctx.trace)):
                if ctx.trace[k][1]:
                    stack.append([t[0] for t in ctx.trace[:k]] + [not ctx.trace[k][0]])
            if len(outcomes) > max_paths:
                raise LoopBound("more than %d symbolic paths" % max_paths)
            if budget_s is not None and time.time() - t0 > budget_s:
                raise LoopBound("path exploration exceeded %ds (%d paths so far)" % (budget_s, len(outcomes)))
        self.stats["exec_s"] += time.time() - t0
        return outcomes

    def run_once(self, entry, prefix=()):
        ctx = PathCtx(prefix, self.base + self.axioms, self.branch_timeout_ms)
        self.ctx = ctx
        self.events, self.notes = [], []
        self._fresh = 0
        self.file, self.owner, self.mod, self.prefix, self.hint = "?", None, None, "", None
        self.ret_stack = []
        self.stats["paths"] += 1
        out = None
        try:
            try:
                v = entry(self)
                if isinstance(v, ResultV) and v.kind == "Err":
                    out = Outcome("err", v.value, ctx.pc, events=self.events, notes=self.notes)
                elif isinstance(v, ResultV) and v.kind == "Ok":
                    out = Outcome("ok", v.value, ctx.pc, events=self.events, notes=self.notes)
                else:
                    out = Outcome("ok", v, ctx.pc, events=self.events, notes=self.notes)
            except RustPanic as p:
                out = Outcome("panic", None, ctx.pc, site=(p.file, p.line), msg=p.what, events=self.events, notes=self.notes)
            except Unbounded as u:
                out = Outcome("unbounded", None, ctx.pc, site=(u.file, u.line), msg=u.msg, events=self.events, notes=self.notes)
            except (Infeasible, Pruned):
                out = None
        finally:
            self.ctx = None
        return out, ctx

    def run_concrete(self, entry):
        """single concrete run (translator validation): every condition must be concrete"""
        out, _ = self.run_once(entry, ())
        return out

    # ================================================================== helpers
    def unsupported(self, line, msg):
        raise Unsupported(self.file, line, msg)

    def panic(self, line, what):
        raise RustPanic(self.file, line, what)

    def felt(self, x, line):
        if isinstance(x, (F, SF)):
            return x
        if isinstance(x, ElemRef):
            return self.felt(x.get(), line)
        if isinstance(x, bool):
            self.unsupported(line, "bool used as Felt")
        if isinstance(x, int):
            return F(x)
        if isinstance(x, SI):
            if x.hi < P:
                return SF(x.t)
            return SF(x.t % P)
        if isinstance(x, NZ):
            return self.felt(x.v, line)
        if isinstance(x, BI):
            if isinstance(x.v, int):
                return F(x.v)
            return SF(x.v % P)
        self.unsupported(line, "value %r is not a field element" % (x,))

    def sym_felt(self, name):
        v = z3.Int(name)
        self.assume(z3.And(v >= 0, v < P))
        return SF(v)

    def sym_int(self, name, bits=64, hi=None):
        v = z3.Int(name)
        hi = (2**bits - 1) if hi is None else hi
        self.assume(z3.And(v >= 0, v <= hi))
        return SI(v, hi)

    # ---- felt arithmetic
    def f_add(self, a, b):
        if isinstance(a, F) and isinstance(b, F):
            return F(a.v + b.v)
        if isinstance(a, F) and a.v == 0:
            return b
        if isinstance(b, F) and b.v == 0:
            return a
        s = zi(a) + zi(b)
        return SF(z3.If(s >= P, s - P, s))

    def f_sub(self, a, b):
        if isinstance(a, F) and isinstance(b, F):
            return F(a.v - b.v)
        if isinstance(b, F) and b.v == 0:
            return a
        d = zi(a) - zi(b)
        return SF(z3.If(d < 0, d + P, d))

    def f_neg(self, a):
        if isinstance(a, F):
            return F(-a.v)
        return SF(z3.If(a.t == 0, 0, P - a.t))

    SMALL = 1 << 17

    def f_mul(self, a, b):
        if isinstance(a, F) and isinstance(b, F):
            return F(a.v * b.v)
        if isinstance(b, F):
            a, b = b, a
        if isinstance(a, F):
            c = a.v
            if c == 0:
                return F(0)
            if c == 1:
                return b
            if c == P - 1:
                return self.f_neg(b)
            if c <= self.SMALL or c < 2**130:
                # exact: c*b = r + q*P with 0 <= q < c
                def mk():
                    r, q = self.fresh("mr", 0, P - 1), self.fresh("mq", 0, c - 1)
                    self.axiom(c * b.t == r + q * P)
                    return r
                return SF(self.defined(("mulc", c, b.t), mk))
            f = self.uf("mulc_%x" % c, 1)
            g = self.uf("unmulc_%x" % c, 1)
            r = f(b.t)
            self.axiom(z3.And(r >= 0, r < P, g(r) == b.t, (r == 0) == (b.t == 0)))
            return SF(r)
        x, y = a.t, b.t
        if str(x.hash()) + x.sexpr()[:40] > str(y.hash()) + y.sexpr()[:40]:
            x, y = y, x
        if x.eq(y):
            pass
        f = self.uf("fmul", 2)
        r = f(x, y)
        for u, v in ((x, y), (y, x)):
            if v.get_id() in self._pow2_of:
                et = self._pow2_of[v.get_id()][0]
                # multiplication by 2^e: exact whenever the integer product stays below p (e <= 128 tabulated)
                def mk(u=u, et=et):
                    self.axiom(z3.And(*[z3.Implies(z3.And(et == k, u * (2**k) < P), r == u * (2**k)) for k in range(0, 129)]))
                    return True
                self.defined(("mulpow2", u, et), mk)
        self.axiom(z3.And(r >= 0, r < P, z3.Implies(x == 0, r == 0), z3.Implies(y == 0, r == 0), z3.Implies(x == 1, r == y),
                          z3.Implies(y == 1, r == x), z3.Implies(r == 0, z3.Or(x == 0, y == 0)), f(y, x) == r))
        return SF(r)

    def f_inv(self, a, line):
        """1/a (a already known / assumed non-zero)"""
        if isinstance(a, F):
            return F(pow(a.v, P - 2, P))
        f = self.uf("finv", 1)
        r = f(a.t)
        self.axiom(z3.And(r >= 0, r < P, f(r) == a.t, z3.Implies(a.t != 0, r != 0), z3.Implies(a.t == 1, r == 1)))
        return SF(r)

    def f_div(self, a, b, line):
        """a / b in the field, b != 0 on this path"""
        if isinstance(b, F):
            if isinstance(a, F):
                return F(a.v * pow(b.v, P - 2, P))
            c = b.v
            if c == 1:
                return a
            if c <= self.SMALL:
                def mk():
                    r, j = self.fresh("dr", 0, P - 1), self.fresh("dj", 0, c - 1)
                    self.axiom(c * r == a.t + j * P)
                    return r
                return SF(self.defined(("divc", c, a.t), mk))
            return self.f_mul(F(pow(c, P - 2, P)), a)
        if isinstance(a, F) and a.v == 1:
            return self.f_inv(b, line)
        if isinstance(a, F) and a.v == 0:
            return F(0)
        f = self.uf("fdiv", 2)
        r = f(zi(a), b.t)
        self.axiom(z3.And(r >= 0, r < P, z3.Implies(zi(a) == 0, r == 0), z3.Implies(b.t == 1, r == zi(a)),
                          z3.Implies(r == 0, zi(a) == 0)))
        return SF(r)

    POW2_TABLE = 256

    def f_pow(self, base, e, line):
        """base: F|SF, e: F|SF|int|SI"""
        ez = e.v if isinstance(e, F) else e
        if isinstance(base, F) and isinstance(ez, int):
            return F(pow(base.v, ez, P))
        if isinstance(ez, int):
            if ez == 0:
                return F(1)
            if ez <= 16:
                r = base
                for _ in range(ez - 1):
                    r = self.f_mul(r, base)
                return r
            et = z3.IntVal(ez)
        else:
            et = zi(ez)
        if isinstance(base, F) and base.v == 2:
            f = self.uf("pow2", 1)
            def mk():
                r = f(et)
                ax = [r >= 0, r < P, z3.Implies(et > self.POW2_TABLE, r >= 1)]
                # exact table for small exponents
                cases = [z3.Implies(et == k, r == pow(2, k, P)) for k in range(0, self.POW2_TABLE + 1)]
                self.axiom(z3.And(*(ax + cases)))
                return r
            r = self.defined(("pow2", et), mk)
            self._pow2_of[r.get_id()] = (et, r)
            return SF(r)
        if isinstance(base, F) and base.v in (0, 1):
            if base.v == 1:
                return F(1)
            return SF(z3.If(et == 0, 1, 0))
        f = self.uf("fpow", 2)
        bt = zi(base)
        r = f(bt, et)
        self.axiom(z3.And(r >= 0, r < P, z3.Implies(et == 0, r == 1), z3.Implies(et == 1, r == bt), z3.Implies(bt == 1, r == 1),
                          z3.Implies(z3.And(bt == 0, et != 0), r == 0), z3.Implies(bt != 0, r != 0)))
        return SF(r)

    def f_divrem(self, a, d, line):
        """integer quotient / remainder of the canonical representatives; d != 0 on this path"""
        if isinstance(a, F) and isinstance(d, F):
            return F(a.v // d.v), F(a.v % d.v)
        if isinstance(d, F):
            c = d.v
            def mk():
                q, r = self.fresh("q", 0, P - 1), self.fresh("r", 0, c - 1)
                self.axiom(zi(a) == q * c + r)
                return (q, r)
            q, r = self.defined(("divrem", c, zi(a)), mk)
            return SF(q), SF(r)
        def mk2():
            q, r = self.fresh("q", 0, P - 1), self.fresh("r", 0, P - 1)
            self.axiom(z3.Implies(d.t > 0, z3.And(zi(a) == q * d.t + r, r < d.t)))
            return (q, r)
        q, r = self.defined(("divrem2", zi(a), d.t), mk2)
        return SF(q), SF(r)

    # ---- hashes
    TAGS = {"poseidon2": 1, "poseidon_many": 2, "pedersen": 3, "bytes": 4}

    def hash2(self, family, a, b, line):
        a, b = self.felt(a, line), self.felt(b, line)
        if isinstance(a, F) and isinstance(b, F) and self.oracle is not None:
            r = F(self.oracle.hash2(family, a.v, b.v))
        else:
            h = self.uf("H_" + family, 2)
            t = h(zi(a), zi(b))
            self.axiom(z3.And(t >= 0, t < P, self.uf("inv1_" + family, 1)(t) == zi(a), self.uf("inv2_" + family, 1)(t) == zi(b),
                              self.uf("tagof", 1)(t) == self.TAGS[family]))
            r = SF(t)
        self.events.append((family, [a, b], r, self.file, line))
        return r

    def hash_many(self, items, line):
        items = [self.felt(x, line) for x in items]
        if all(isinstance(x, F) for x in items) and self.oracle is not None:
            r = F(self.oracle.hash_many([x.v for x in items]))
        else:
            step, end = self.uf("HM_step", 2), self.uf("HM_end", 2)
            s1, s2, e1, e2 = self.uf("inv1_HM_step", 1), self.uf("inv2_HM_step", 1), self.uf("inv1_HM_end", 1), self.uf("inv2_HM_end", 1)
            acc = z3.IntVal(0)
            for x in items:
                n = step(acc, zi(x))
                self.axiom(z3.And(n >= 1, s1(n) == acc, s2(n) == zi(x)))
                acc = n
            t = end(acc, z3.IntVal(len(items)))
            self.axiom(z3.And(t >= 0, t < P, e1(t) == acc, e2(t) == len(items), self.uf("tagof", 1)(t) == self.TAGS["poseidon_many"]))
            r = SF(t)
        self.events.append(("poseidon_many", items, r, self.file, line))
        return r

    CHUNK_KIND = {"felt": 1, "u64": 2, "u8": 3, "digest": 4, "big": 5}

    def view(self, base, lo, hi):
        if isinstance(base, View):
            return View(base.root, base.lo + lo, base.lo + hi)
        return View(base, lo, hi)

    def byte_len(self, data, line):
        n = 0
        for x in data:
            if isinstance(x, ByteChunk):
                if x.kind not in CHUNK_BYTES:
                    self.unsupported(line, "byte length of a %s chunk" % x.kind)
                n += CHUNK_BYTES[x.kind]
            else:
                n += 1
        return n

    def expand_bytes(self, data, line):
        out = []
        for x in data:
            if isinstance(x, ByteChunk) and CHUNK_BYTES.get(x.kind, 0) > 1:
                out.extend(BytePart(x, k) for k in range(CHUNK_BYTES[x.kind]))
            elif isinstance(x, ByteChunk) and x.kind == "u8":
                out.append(x.v)
            elif isinstance(x, ByteChunk):
                self.unsupported(line, "copy of a %s byte chunk" % x.kind)
            else:
                out.append(x)
        return out

    def tokens_of(self, data, line):
        out = []
        data = list(data)
        i = 0
        while i < len(data):
            x = data[i]
            if isinstance(x, BytePart):
                n = CHUNK_BYTES[x.chunk.kind]
                grp = data[i:i + n]
                if x.k != 0 or len(grp) != n or not all(isinstance(g, BytePart) and g.chunk is x.chunk and g.k == j for j, g in enumerate(grp)):
                    self.unsupported(line, "byte buffer holds a partial / reordered copy of a multi-byte value")
                out.append(x.chunk)
                i += n
                continue
            i += 1
            if isinstance(x, ByteChunk):
                out.append(x)
            elif is_int(x):
                out.append(ByteChunk("u8", x))
            else:
                self.unsupported(line, "byte vector element %r" % (x,))
        return out

    def digest_acc(self, d, line):
        if d.acc is None:
            step = self.uf("B_step_" + d.family, 3)
            s1, s2 = self.uf("inv1_B_step_" + d.family, 1), self.uf("inv2_B_step_" + d.family, 1)
            acc = z3.IntVal(0)
            for tk in d.tokens:
                v = self.digest_full(tk.v, line) if tk.kind == "digest" else zi(tk.v)
                n = step(acc, z3.IntVal(self.CHUNK_KIND[tk.kind]), v)
                self.axiom(z3.And(n >= 1, s1(n) == acc, s2(n) == v, self.uf("inv3_B_step_" + d.family, 1)(n) == self.CHUNK_KIND[tk.kind]))
                acc = n
            d.acc = acc
        return d.acc

    def digest_full(self, d, line):
        acc = self.digest_acc(d, line)
        t = self.uf("B_full_" + d.family, 1)(acc)
        self.axiom(z3.And(t >= 0, t < 2**256, self.uf("inv_B_full_" + d.family, 1)(t) == acc))
        return t

    def concrete_bytes(self, tokens, line):
        out = b""
        for tk in tokens:
            if tk.kind == "digest":
                if tk.v.raw is None:
                    return None
                out += tk.v.raw
                continue
            v = tk.v.v if isinstance(tk.v, (F, BI)) else tk.v
            if not isinstance(v, int):
                return None
            n = {"felt": 32, "u64": 8, "u8": 1}.get(tk.kind)
            if tk.kind == "big":
                n = max(1, (v.bit_length() + 7) // 8)
            out += v.to_bytes(n, "big")
        return out

    def finalize(self, hasher, line):
        d = Digest(hasher.family, list(hasher.tokens))
        if self.oracle is not None:
            raw = self.concrete_bytes(d.tokens, line)
            if raw is not None:
                d.raw = self.oracle.digest(hasher.family, raw)
        self.events.append(("digest_" + hasher.family, list(d.tokens), d, self.file, line))
        return d

    def felt_from_bytes(self, x, line):
        if isinstance(x, DigestSlice):
            d = x.d
            if d.raw is not None:
                return F(int.from_bytes(d.raw[x.lo:x.hi], "big"))
            acc = self.digest_acc(d, line)
            name = "B_end_%s_%d_%d" % (d.family, x.lo, x.hi)
            t = self.uf(name, 1)(acc)
            nb = 8 * (x.hi - x.lo)
            self.axiom(z3.And(t >= 0, t < min(P, 2**nb), self.uf("inv_" + name, 1)(t) == acc, self.uf("tagof", 1)(t) == self.TAGS["bytes"]))
            return SF(t)
        if isinstance(x, Digest):
            return self.felt_from_bytes(DigestSlice(x, 0, 32), line)
        if isinstance(x, list) and len(x) == 1 and isinstance(x[0], ByteChunk) and x[0].kind in ("big", "felt", "u64"):
            return self.felt(BI(x[0].v.v) if isinstance(x[0].v, BI) else x[0].v, line)
        self.unsupported(line, "Felt::from_bytes_be_slice of %r" % (x,))

    # ================================================================== integer / generic arithmetic
    def i_arith(self, op, a, b, line):
        """machine integers (python int / SI)"""
        if isinstance(a, int) and isinstance(b, int):
            if op == "+":
                return a + b
            if op == "-":
                if a < b:
                    self.panic(line, "attempt to subtract with overflow")
                return a - b
            if op == "*":
                return a * b
            if op == "/":
                if b == 0:
                    self.panic(line, "attempt to divide by zero")
                return a // b
            if op == "%":
                if b == 0:
                    self.panic(line, "attempt to calculate the remainder with a divisor of zero")
                return a % b
            self.unsupported(line, "integer operator %s" % op)
        ahi = a if isinstance(a, int) else a.hi
        bhi = b if isinstance(b, int) else b.hi
        x, y = zi(a), zi(b)
        if op == "+":
            hi = ahi + bhi
            if hi >= TWO64 and not self.truth(x + y < TWO64, line):
                self.panic(line, "attempt to add with overflow")
            return SI(x + y, min(hi, TWO64 - 1))
        if op == "-":
            if self.truth(x < y, line):
                self.panic(line, "attempt to subtract with overflow")
            return SI(x - y, ahi)
        if op == "*":
            hi = ahi * bhi
            if hi >= TWO64 and not self.truth(x * y < TWO64, line):
                self.panic(line, "attempt to multiply with overflow")
            return SI(x * y, min(hi, TWO64 - 1))
        if op in ("/", "%"):
            if self.truth(y == 0, line):
                self.panic(line, "attempt to divide by zero" if op == "/" else "attempt to calculate the remainder with a divisor of zero")
            if isinstance(b, int):
                return SI(x / b, ahi // b) if op == "/" else SI(x % b, b - 1)
            return SI(x / y, ahi) if op == "/" else SI(x % y, bhi)
        self.unsupported(line, "integer operator %s" % op)

    def arith(self, op, a, b, line):
        if isinstance(a, ElemRef):
            a = a.get()
        if isinstance(b, ElemRef):
            b = b.get()
        if isinstance(a, NZ):
            a = a.v
        if isinstance(b, NZ):
            b = b.v
        if is_int(a) and is_int(b):
            return self.i_arith(op, a, b, line)
        if isinstance(a, BI) or isinstance(b, BI):
            x = a.v if isinstance(a, BI) else a
            y = b.v if isinstance(b, BI) else b
            if isinstance(x, int) and isinstance(y, int):
                if op == "/":
                    if y == 0:
                        self.panic(line, "attempt to divide by zero")
                    return BI(x // y)
                return BI({"+": x + y, "-": x - y, "*": x * y}[op])
            xz, yz = zi(x), zi(y)
            if op == "/":
                if self.truth(yz == 0, line):
                    self.panic(line, "attempt to divide by zero")
                return BI(xz / yz)
            return BI({"+": xz + yz, "-": xz - yz, "*": xz * yz}[op])
        a, b = self.felt(a, line), self.felt(b, line)
        if op == "+":
            return self.f_add(a, b)
        if op == "-":
            return self.f_sub(a, b)
        if op == "*":
            return self.f_mul(a, b)
        self.unsupported(line, "operator %s on Felt" % op)

    def compare(self, op, a, b, line):
        if isinstance(a, ElemRef):
            a = a.get()
        if isinstance(b, ElemRef):
            b = b.get()
        if isinstance(a, NZ):
            a = a.v
        if isinstance(b, NZ):
            b = b.v
        if is_bool(a) and is_bool(b):
            if isinstance(a, bool) and isinstance(b, bool):
                return (a == b) if op == "==" else (a != b)
            e = zb(a) == zb(b)
            return e if op == "==" else z3.Not(e)
        if isinstance(a, BI) or isinstance(b, BI):
            a = a.v if isinstance(a, BI) else a
            b = b.v if isinstance(b, BI) else b
            if isinstance(a, int) and isinstance(b, int):
                return {"==": a == b, "!=": a != b, "<": a < b, "<=": a <= b, ">": a > b, ">=": a >= b}[op]
            x, y = zi(a), zi(b)
        elif is_int(a) and is_int(b):
            if isinstance(a, int) and isinstance(b, int):
                return {"==": a == b, "!=": a != b, "<": a < b, "<=": a <= b, ">": a > b, ">=": a >= b}[op]
            x, y = zi(a), zi(b)
        elif (is_felt(a) or is_int(a)) and (is_felt(b) or is_int(b)):
            a, b = self.felt(a, line), self.felt(b, line)
            if isinstance(a, F) and isinstance(b, F):
                return {"==": a.v == b.v, "!=": a.v != b.v, "<": a.v < b.v, "<=": a.v <= b.v, ">": a.v > b.v, ">=": a.v >= b.v}[op]
            x, y = zi(a), zi(b)
        else:
            return self.struct_eq(op, a, b, line)
        return {"==": x == y, "!=": x != y, "<": x < y, "<=": x <= y, ">": x > y, ">=": x >= y}[op]

    def struct_eq(self, op, a, b, line):
        if op not in ("==", "!="):
            self.unsupported(line, "ordering comparison of %r and %r" % (type(a).__name__, type(b).__name__))
        e = self.deep_eq(a, b, line)
        return e if op == "==" else b_not(e)

    def deep_eq(self, a, b, line):
        if isinstance(a, list) and isinstance(b, list):
            if len(a) != len(b):
                return False
            r = True
            for x, y in zip(a, b):
                r = b_and(r, self.deep_eq(x, y, line))
            return r
        if isinstance(a, tuple) and isinstance(b, tuple) and len(a) == len(b):
            r = True
            for x, y in zip(a, b):
                r = b_and(r, self.deep_eq(x, y, line))
            return r
        if isinstance(a, SStruct) and isinstance(b, SStruct) and a.name == b.name:
            r = True
            for k in a.fields:
                r = b_and(r, self.deep_eq(a.fields[k], b.fields[k], line))
            return r
        if isinstance(a, ResultV) and isinstance(b, ResultV):
            if a.kind != b.kind:
                return False
            return True if a.value is None else self.deep_eq(a.value, b.value, line)
        if (is_felt(a) or is_int(a) or isinstance(a, (BI, NZ))) and (is_felt(b) or is_int(b) or isinstance(b, (BI, NZ))):
            return self.compare("==", a, b, line)
        if is_bool(a) and is_bool(b):
            return self.compare("==", a, b, line)
        self.unsupported(line, "equality of %r and %r" % (type(a).__name__, type(b).__name__))

    # ================================================================== name resolution
    def const_value(self, name, line):
        key = (self.mod.rel if self.mod else None, self.prefix, name)
        if key in self._const_cache:
            return self._const_cache[key]
        cands = self.world.find_const(name, self.mod, self.prefix)
        if not cands:
            return None
        vals = []
        for e, m in cands:
            if e[0] == "unsupported":
                raise Unsupported(m.file, e[2], "constant %s: %s" % (name, e[1]))
            save = (self.file, self.owner, self.mod, self.prefix)
            self.file, self.owner, self.mod = m.file, None, m
            self.prefix = name.rsplit("::", 1)[0] + "::" if "::" in name and False else ""
            try:
                vals.append(self.eval(e, [{}]))
            finally:
                self.file, self.owner, self.mod, self.prefix = save
        v = vals[0]
        for w in vals[1:]:
            if repr(w) != repr(v):
                self.unsupported(line, "constant %s has several different definitions in scope" % name)
        self._const_cache[key] = v
        return v

    def resolve_owner(self, ty):
        """type name as written -> (module, owner name)"""
        if ty == "Self":
            return self.mod, self.owner
        if ty in self.types:
            return self.types[ty]
        return None, ty

    def assoc_const(self, ty, name, line):
        mod, owner = self.resolve_owner(ty)
        if (owner, name) in self.overrides:
            return self.overrides[(owner, name)]
        mods = [mod] if mod is not None else self.world.mods
        for m in mods:
            for (o, tr, n), e in m.assoc_consts.items():
                if o == owner and n == name:
                    save = (self.file, self.owner, self.mod)
                    self.file, self.owner, self.mod = m.file, owner, m
                    try:
                        return self.eval(e, [{}])
                    finally:
                        self.file, self.owner, self.mod = save
        return None

    def lookup(self, env, name):
        for scope in reversed(env):
            if name in scope:
                return scope[name]
        return KeyError

    # ================================================================== calls
    def ret_error_type(self, fn):
        """(enum name, module) of E in the declared `Result<T, E>` return type, or None"""
        if not fn.ret or "Result" not in fn.ret:
            return None
        txt = fn.ret
        inner = txt[txt.index("<") + 1: txt.rindex(">")] if "<" in txt else ""
        depth, cut = 0, None
        for i, ch in enumerate(inner):
            if ch in "<(":
                depth += 1
            elif ch in ">)":
                depth -= 1
            elif ch == "," and depth == 0:
                cut = i
        if cut is None:
            return None
        return inner[cut + 1:].strip()

    def call_fn(self, fn, mod, args, line, self_val=None):
        if len(args) != len(fn.params):
            self.unsupported(line, "arity mismatch calling %s" % fn.name)
        scope = {}
        if fn.has_self:
            scope["self"] = self_val
        for (pname, _), a in zip(fn.params, args):
            scope[pname] = a
        save = (self.file, self.owner, self.mod, self.prefix, self.hint)
        self.file, self.owner, self.mod, self.prefix, self.hint = fn.file, fn.owner, mod, getattr(fn, "prefix", ""), None
        self.ret_stack.append((fn, mod))
        try:
            try:
                if fn.ret and fn.ret.strip() not in ("()",):
                    self.hint = fn.ret.strip() if not fn.ret.strip().startswith("Result") else None
                v = self.exec_block(fn.body, [scope], hint=self.hint)
            except ReturnEx as r:
                v = r.value
            return v
        finally:
            self.ret_stack.pop()
            self.file, self.owner, self.mod, self.prefix, self.hint = save

    def call_closure(self, c, args, line):
        if not isinstance(c, Closure):
            if callable(c):
                return c(*args)
            self.unsupported(line, "call of a non-closure value %r" % (c,))
        if len(args) != len(c.params):
            self.unsupported(line, "closure arity mismatch")
        scope = {}
        for p, a in zip(c.params, args):
            if not self.bind(p, a, scope, line):
                self.unsupported(line, "closure parameter pattern does not match")
        save = (self.file, self.owner, self.mod, self.hint)
        self.file, self.owner, self.mod, self.hint = c.file, c.owner, c.mod, None
        try:
            return self.eval(c.body, c.env + [scope])
        finally:
            self.file, self.owner, self.mod, self.hint = save

    def convert_error(self, e, line):
        """`?`: convert the error value into the enclosing function's error type through a #[from] variant"""
        if not self.ret_stack:
            return e
        fn, mod = self.ret_stack[-1]
        et = self.ret_error_type(fn)
        if et is None or not isinstance(e, EnumV):
            return e
        ename = et.split("<")[0].split("::")[-1].strip()
        target = None
        order = [mod] + [m for m in self.world.mods if m is not mod]
        cands = []
        for m in order:
            for en, vs in m.enums.items():
                if en.split("::")[-1] == ename:
                    cands.append((en, vs, m))
        if not cands:
            return e
        hints = [s.strip().replace("swiftness_", "") for s in et.split("<")[0].split("::")[:-1] if s.strip() not in ("crate", "super", "self")]
        def score(c):
            comps = c[2].rel[:-3].split("/")
            return (100 if c[2] is mod and not hints else 0) + sum(20 for h in hints if h in comps)
        cands.sort(key=lambda c: -score(c))
        en, vs, m = cands[0]
        if e.enum == en and e.file == m.file:
            return e
        best = None
        for vname, info in vs.items():
            if not info["from"] or len(info["types"]) != 1:
                continue
            pt = info["types"][0]
            pname = pt.split("<")[0].split("::")[-1].strip()
            if pname != e.enum.split("::")[-1]:
                continue
            ph = [s.strip().replace("swiftness_", "") for s in pt.split("<")[0].split("::")[:-1] if s.strip() not in ("crate", "super", "self")]
            comps = (os.path.relpath(e.file, self.world_root())[:-3].split("/")) if e.file else []
            sc = sum(1 for h in ph if h in comps)
            if best is None or sc > best[0]:
                best = (sc, vname)
        if best is None:
            return e
        return EnumV(en, best[1], [e], m.file)

    def world_root(self):
        from common import REPO
        return REPO

    # ================================================================== statements
    def stmt_active(self, s):
        return cfg_active(getattr(s, "cfg", None), self.world.features)

    def exec_block(self, blk, env, hint=None):
        _, stmts, tail, _ = blk
        env = env + [{}]
        active = [s for s in stmts if self.stmt_active(s)]
        last_val = ()
        for k, s in enumerate(active):
            is_last = k == len(active) - 1
            if s[0] == "expr" and is_last and tail is None and not getattr(s, "semi", True):
                self.hint = hint
                return self.eval(s[1], env)
            self.exec_stmt(s, env)
        if tail is not None:
            self.hint = hint
            return self.eval(tail, env)
        return ()

    def bind(self, pat, val, scope, line):
        """returns False when a refutable pattern does not match"""
        k = pat[0]
        if k == "pid":
            scope[pat[1]] = val
            return True
        if k == "pwild":
            return True
        if k == "ptuple":
            if val == () and not pat[1]:
                return True
            if not isinstance(val, tuple) or len(val) != len(pat[1]):
                self.unsupported(line, "tuple pattern does not match value %r" % (val,))
            return all([self.bind(p, v, scope, line) for p, v in zip(pat[1], val)])
        if k == "pint":
            c = self.compare("==", val, pat[1], line)
            return self.truth(c, line)
        if k == "ppath":
            name = pat[1][-1]
            if isinstance(val, ResultV):
                return val.kind == name
            if isinstance(val, EnumV):
                return val.variant == name
            self.unsupported(line, "path pattern against %r" % (val,))
        if k == "pctor":
            name = pat[1][-1]
            if isinstance(val, ResultV):
                if val.kind != name:
                    return False
                if len(pat[2]) != 1:
                    self.unsupported(line, "constructor pattern arity")
                return self.bind(pat[2][0], val.value, scope, line)
            if isinstance(val, EnumV):
                if val.variant != name:
                    return False
                pl = val.payload or []
                if len(pl) != len(pat[2]):
                    self.unsupported(line, "constructor pattern arity")
                return all([self.bind(p, v, scope, line) for p, v in zip(pat[2], pl)])
            self.unsupported(line, "constructor pattern against %r" % (val,))
        if k == "pstruct":
            name = pat[1][-1]
            if isinstance(val, EnumV):
                if val.variant != name:
                    return False
                flds = val.payload or {}
            elif isinstance(val, SStruct):
                flds = val.fields
            else:
                self.unsupported(line, "struct pattern against %r" % (val,))
            return all([self.bind(p, flds[f], scope, line) for f, p in pat[2]])
        if isinstance(val, ElemRef) and k not in ("pid", "pwild"):
            val = val.get()
        if k == "pslice":
            before, rest, after = pat[1], pat[2], pat[3]
            if not isinstance(val, list):
                self.unsupported(line, "slice pattern against %r" % (type(val).__name__,))
            n = len(val)
            if rest is False:
                if n != len(before):
                    return False
            elif n < len(before) + len(after):
                return False
            ok = all([self.bind(p_, x, scope, line) for p_, x in zip(before, val[:len(before)])])
            if after:
                ok = ok and all([self.bind(p_, x, scope, line) for p_, x in zip(after, val[n - len(after):])])
            if rest:
                scope[rest] = RList(val[len(before):n - len(after)])
            return ok
        if k == "pbool":
            if isinstance(val, bool):
                return val == pat[1]
            return self.truth(val if pat[1] else b_not(val), line)
        if k == "pbind":
            if self.bind(pat[2], val, scope, line):
                scope[pat[1]] = val
                return True
            return False
        if k == "prange":
            return self.truth(b_and(self.compare(">=", val, pat[1], line), self.compare("<=", val, pat[2], line)), line)
        if k == "por":
            for alt in pat[1]:
                sc = {}
                if self.bind(alt, val, sc, line):
                    scope.update(sc)
                    return True
            return False
        self.unsupported(line, "unsupported pattern kind %s" % k)

    def exec_stmt(self, s, env):
        k = s[0]
        if k == "let":
            _, pat, _mut, init, line = s
            self.hint = getattr(s, "ty", None)
            val = self.eval(init, env) if init is not None else None
            self.hint = None
            if not self.bind(pat, val, env[-1], line):
                self.unsupported(line, "refutable pattern in let")
        elif k == "assign":
            _, op, lhs, rhs, line = s
            self.hint = None
            val = self.eval(rhs, env)
            self.assign(lhs, op, val, env, line)
        elif k == "expr":
            self.hint = None
            self.eval(s[1], env)
        else:
            self.unsupported(s[-1], "unknown statement kind %s" % k)

    def assign(self, lhs, op, val, env, line):
        def upd(old):
            return val if op == "=" else self.arith(op[0], old, val, line)
        if lhs[0] == "un" and lhs[1] == "*":
            tgt = self.eval(lhs[2], env)
            if isinstance(tgt, ElemRef):
                tgt.set(upd(tgt.get()))
                return
            lhs = lhs[2]
        if lhs[0] == "path" and len(lhs[1]) == 1:
            name = lhs[1][0]
            for scope in reversed(env):
                if name in scope:
                    if isinstance(scope[name], ElemRef) and op != "=":
                        scope[name].set(upd(scope[name].get()))
                        return
                    scope[name] = upd(scope[name])
                    return
            self.unsupported(line, "assignment to unknown variable %s" % name)
        if lhs[0] == "field":
            obj = self.eval(lhs[1], env)
            if isinstance(obj, SStruct) and lhs[2] in obj.fields:
                obj.fields[lhs[2]] = upd(obj.fields[lhs[2]])
                return
            self.unsupported(line, "assignment to field .%s of %r" % (lhs[2], type(obj).__name__))
        if lhs[0] == "index":
            obj = self.eval(lhs[1], env)
            i = self.eval(lhs[2], env)
            if isinstance(obj, list):
                i = self.index_value(obj, i, line)
                obj[i] = upd(obj[i])
                return
        self.unsupported(line, "unsupported assignment target")

    # ================================================================== expressions
    def eval(self, e, env):
        m = getattr(self, "ev_" + e[0], None)
        if m is None:
            self.unsupported(e[-1], "expression kind %s" % e[0])
        return m(e, env)

    def ev_int(self, e, env): return e[1]
    def ev_str(self, e, env): return e[1]
    def ev_bool(self, e, env): return e[1]

    def ev_path(self, e, env):
        segs, line = e[1], e[2]
        if len(segs) == 1:
            v = self.lookup(env, segs[0])
            if v is not KeyError:
                return v
            if segs[0] == "None":
                return ResultV("None")
            v = self.const_value(segs[0], line)
            if v is not None:
                return v
            self.unsupported(line, "unknown name %s" % segs[0])
        if len(segs) == 2:
            a, b = segs
            if a == "Felt" and b in FELT_ASSOC:
                return F(FELT_ASSOC[b])
            if a == "Felt" and b in ("from", "from_hex_unchecked", "from_bytes_be_slice"):
                return lambda *xs: self.felt_static(b, list(xs), line)
            if a == "NonZeroFelt" and b in FELT_ASSOC:
                return NZ(F(FELT_ASSOC[b]), True)
            if (a, b) in INT_MAX:
                return INT_MAX[(a, b)]
            v = self.assoc_const(a, b, line)
            if v is not None:
                return v
            en = self.world.find_enum(a, b, self.mod)
            if en is not None and en[1]["kind"] == "unit":
                return EnumV(en[0], b, None, en[2].file)
        # nested module constant of the current file (segments::N_SEGMENTS) or of any loaded file
        v = self.const_value("::".join(segs), line)
        if v is None and segs[0] in ("crate", "super", "self"):
            v = self.const_value("::".join(segs[1:]), line) if len(segs) > 2 else self.const_value(segs[-1], line)
        if v is None and len(segs) >= 2:
            v = self.const_value("::".join(segs[-2:]), line)
        if v is None and len(segs) >= 2:
            en = self.world.find_enum(segs[-2], segs[-1], self.mod)
            if en is not None and en[1]["kind"] == "unit":
                return EnumV(en[0], segs[-1], None, en[2].file)
        if v is not None:
            return v
        self.unsupported(line, "unknown path %s" % "::".join(segs))

    def ev_tuple(self, e, env):
        h = self.hint
        out = []
        for x in e[1]:
            self.hint = None
            out.append(self.eval(x, env))
        return tuple(out)

    def ev_array(self, e, env):
        self.hint = None
        return RList([self.eval(x, env) for x in e[1]])

    def ev_repeat(self, e, env):
        self.hint = None
        n = self.eval(e[2], env)
        n = self.concretize(n, 1 << 16, e[-1])
        v = self.eval(e[1], env)
        return RList([deep_copy(v) for _ in range(n)])

    def ev_closure(self, e, env):
        return Closure(e[1], e[2], env, self.file, self.owner, self.mod)

    def ev_un(self, e, env):
        _, op, x, line = e
        if op == "&mut" and x[0] == "index" and x[2][0] == "range":
            base = self.eval(x[1], env)
            rng = self.eval(x[2], env)
            if isinstance(base, list):
                lo, hi = self.slice_bounds(base, rng, line)
                return self.view(base, lo, hi)
        v = self.eval(x, env)
        if op == "*" and isinstance(v, ElemRef):
            return v.get()
        if op in ("&", "&mut", "*"):
            return v
        if op == "-":
            v = self.felt(v, line)
            return self.f_neg(v)
        if op == "!":
            if is_bool(v):
                return b_not(v)
        self.unsupported(line, "unary %s" % op)

    def ev_bin(self, e, env):
        _, op, l, r, line = e
        self.hint = None
        if op == "&&":
            a = self.truth(self.eval(l, env), line)
            return self.truth(self.eval(r, env), line) if a else False
        if op == "||":
            a = self.truth(self.eval(l, env), line)
            return True if a else self.truth(self.eval(r, env), line)
        a = self.eval(l, env)
        self.hint = None
        b = self.eval(r, env)
        if op in ("==", "!=", "<", "<=", ">", ">="):
            return self.compare(op, a, b, line)
        return self.arith(op, a, b, line)

    def ev_cast(self, e, env):
        self.hint = None
        v = self.eval(e[1], env)
        ty = e[2].strip()
        if isinstance(v, int) and not isinstance(v, bool):
            if ty in BITS:
                return v % (2**BITS[ty])
            return v
        if isinstance(v, SI):
            if ty in BITS and v.hi >= 2**BITS[ty]:
                return SI(v.t % (2**BITS[ty]), 2**BITS[ty] - 1)
            return v
        if isinstance(v, bool):
            return 1 if v else 0
        self.unsupported(e[-1], "`as %s` cast of %r" % (ty, v))

    def ev_block(self, e, env):
        return self.exec_block(e, env, hint=self.hint)

    def ev_if(self, e, env):
        _, cond, then, els, line = e
        h = self.hint
        self.hint = None
        c = self.truth(self.eval(cond, env), line)
        if c:
            return self.exec_block(then, env, hint=h)
        if els is not None:
            return self.exec_block(els, env, hint=h)
        return ()

    def ev_iflet(self, e, env):
        _, pat, scrut, then, els, line = e
        h = self.hint
        self.hint = None
        v = self.eval(scrut, env)
        scope = {}
        if self.bind(pat, v, scope, line):
            return self.exec_block(then, env + [scope], hint=h)
        if els is not None:
            return self.exec_block(els, env, hint=h)
        return ()

    def ev_match(self, e, env):
        _, scrut, arms, line = e
        h = self.hint
        self.hint = None
        v = self.eval(scrut, env)
        if isinstance(v, (F, SF)):
            self.unsupported(line, "match on a Felt")
        for arm in arms:
            pat, body = arm[0], arm[1]
            scope = {}
            if self.bind(pat, v, scope, line):
                if len(arm) > 2 and not self.truth(self.eval(arm[2], env + [scope]), line):
                    continue
                self.hint = h
                return self.eval(body, env + [scope])
        self.panic(line, "non-exhaustive match")

    def observe_site(self, line, kind, n, symbolic=False, term=None):
        if SITE_OBS is None:
            return
        o = SITE_OBS.setdefault((self.file, line), {"kind": kind, "counts": set(), "symbolic": False, "terms": []})
        o["counts"].add(n)
        if symbolic:
            o["symbolic"] = True
        if term is not None and self.ctx is not None and len(o["terms"]) < 6:
            o["terms"].append((list(self.ctx.pc), term, self))

    def loop_site(self, line, kind, n, bound=None):
        self.observe_site(line, kind, n, symbolic=bool(bound))
        key = (self.file, line)
        s = self.loop_sites.setdefault(key, {"kind": kind, "max_iter": 0, "bound": set(), "fn": self.ret_stack[-1][0].name if self.ret_stack else "?"})
        s["max_iter"] = max(s["max_iter"], n)
        if bound:
            s["bound"].add(bound)

    def ev_loop(self, e, env):
        _, blk, line = e
        n = 0
        checks0 = len(self.ctx.trace) if self.ctx else 0
        while True:
            self.loop_site(line, "loop", n)
            if self.ctx is not None and len(self.ctx.trace) > checks0:
                self.observe_site(line, "loop", n, symbolic=True)
            if n > self.max_loop and self.ctx is not None and len(self.ctx.trace) > checks0:
                raise Unbounded(self.file, line, "`loop` still running after %d iterations with a data-dependent exit condition" % n)
            if n > 200000:
                raise Unbounded(self.file, line, "`loop` did not terminate within 200000 iterations")
            try:
                self.exec_block(blk, env)
            except BreakEx as b:
                if not _mine(b, e):
                    raise
                _left_loop(self, line)
                return b.value if b.value is not None else ()
            except ContinueEx as c:
                if not _mine(c, e):
                    raise
            n += 1

    def ev_whilelet(self, e, env):
        _, pat, scrut, blk, line = e
        n = 0
        trace0 = len(self.ctx.trace) if self.ctx else 0
        while True:
            self.loop_site(line, "while", n)
            self.hint = None
            v = self.eval(scrut, env)
            scope = {}
            if not self.bind(pat, v, scope, line):
                _left_loop(self, line)
                return ()
            if n > self.max_loop and self.ctx is not None and len(self.ctx.trace) > trace0:
                raise Unbounded(self.file, line, "`while let` still running after %d iterations with a data-dependent condition" % n)
            if n > 200000:
                raise Unbounded(self.file, line, "`while let` did not terminate within 200000 iterations")
            try:
                self.exec_block(blk, env + [scope])
            except BreakEx as b:
                if not _mine(b, e):
                    raise
                return ()
            except ContinueEx as c:
                if not _mine(c, e):
                    raise
            n += 1

    def ev_letelse(self, e, env):
        _, pat, init, blk, line = e
        self.hint = None
        v = self.eval(init, env)
        scope = {}
        if self.bind(pat, v, scope, line):
            env[-1].update(scope)
            return ()
        self.exec_block(blk, env)
        self.unsupported(line, "the else block of `let .. else` did not diverge")

    def ev_matches(self, e, env):
        _, x, pat, guard, line = e
        self.hint = None
        v = self.eval(x, env)
        scope = {}
        if not self.bind(pat, v, scope, line):
            return False
        if guard is not None:
            return self.truth(self.eval(guard, env + [scope]), line)
        return True

    def ev_while(self, e, env):
        _, cond, blk, line = e
        n = 0
        symbolic = False
        trace0 = len(self.ctx.trace) if self.ctx else 0
        while True:
            self.loop_site(line, "while", n)
            self.hint = None
            c = self.eval(cond, env)
            if not isinstance(c, bool):
                self.observe_site(line, "while", n, symbolic=True)
            if not isinstance(c, bool) or (self.ctx is not None and len(self.ctx.trace) > trace0):
                symbolic = True          # the condition, or a branch taken inside the loop, depends on symbolic data
            if symbolic and n > self.max_loop:
                raise Unbounded(self.file, line, "`while` still running after %d iterations with a data-dependent condition" % n)
            if n > 200000:
                raise Unbounded(self.file, line, "`while` did not terminate within 200000 iterations")
            if not self.truth(c, line):
                _left_loop(self, line)
                return ()
            try:
                self.exec_block(blk, env)
            except BreakEx as b:
                if not _mine(b, e):
                    raise
                _left_loop(self, line)
                return ()
            except ContinueEx as c2:
                if not _mine(c2, e):
                    raise
            n += 1

    def iter_list(self, seq, line, what="iteration"):
        """materialise an iterable value as a python list"""
        if isinstance(seq, tuple) and len(seq) == 3 and seq[0] == "range":
            lo, hi = seq[1], seq[2]
            lo = 0 if lo is None else lo
            if hi is None:
                self.unsupported(line, "unbounded range")
            lo_c = self.concretize(lo, 1 << 20, line)
            if isinstance(hi, (int, F)):
                hi_c = hi if isinstance(hi, int) else hi.v
            else:
                hi_c = self.concretize(hi, lo_c + self.int_bound, line)
                if hi_c is None:
                    raise Unbounded(self.file, line, "range upper bound %s is a value of the input, not bounded by %d" % (
                        str(z3.simplify(zi(hi)))[:80], lo_c + self.int_bound))
            if hi_c - lo_c > 1 << 20:
                raise Unbounded(self.file, line, "range of %d elements" % (hi_c - lo_c))
            return list(range(lo_c, hi_c))
        if isinstance(seq, list):
            return seq
        if isinstance(seq, ResultV):
            return [seq.value] if seq.kind in ("Some", "Ok") else []
        self.unsupported(line, "%s over %r" % (what, type(seq).__name__))

    def lazy_range(self, seq, line):
        """`lo..hi` with a symbolic upper bound: one branch `k < hi` per iteration (the body may leave the loop early)"""
        lo, hi = seq[1], seq[2]
        lo_c = self.concretize(0 if lo is None else lo, 1 << 20, line)
        k = lo_c
        self.observe_site(line, "for", 0, symbolic=True, term=zi(hi))
        while True:
            if not self.truth(self.compare("<", k, hi, line), line):
                return
            if k - lo_c >= self.int_bound:
                raise Unbounded(self.file, line, "range upper bound %s is a value of the input, not bounded by %d" % (
                    str(z3.simplify(zi(hi)))[:80], lo_c + self.int_bound))
            yield k
            k += 1

    def ev_for(self, e, env):
        _, pat, it, blk, line = e
        self.hint = None
        seq = self.eval(it, env)
        sym = isinstance(seq, tuple) and len(seq) == 3 and seq[0] == "range" and not isinstance(seq[2], (int, F)) and seq[2] is not None
        if sym:
            n = 0
            for item in self.lazy_range(seq, line):
                n += 1
                self.loop_site(line, "for", n, "value")
                scope = {}
                self.bind(pat, item, scope, line)
                try:
                    self.exec_block(blk, env + [scope])
                except BreakEx as b:
                    if not _mine(b, e):
                        raise
                    break
                except ContinueEx as c:
                    if not _mine(c, e):
                        raise
                    continue
            self.loop_site(line, "for", n, "value")
            return ()
        items = self.iter_list(seq, line)
        self.loop_site(line, "for", len(items), "value" if sym else None)
        for item in list(items):
            scope = {}
            if not self.bind(pat, item, scope, line):
                self.unsupported(line, "refutable pattern in for")
            try:
                self.exec_block(blk, env + [scope])
            except BreakEx as b:
                if not _mine(b, e):
                    raise
                break
            except ContinueEx as c:
                if not _mine(c, e):
                    raise
                continue
        return ()

    def ev_break(self, e, env):
        b = BreakEx(self.eval(e[1], env) if e[1] is not None else None)
        b.label = getattr(e, "label", None)
        raise b

    def ev_continue(self, e, env):
        raise ContinueEx(getattr(e, "label", None))

    def ev_return(self, e, env):
        raise ReturnEx(self.eval(e[1], env) if e[1] is not None else ())

    def ev_try(self, e, env):
        v = self.eval(e[1], env)
        if isinstance(v, ResultV):
            if v.kind in ("Ok", "Some"):
                return v.value
            if v.kind == "Err":
                raise ReturnEx(ResultV("Err", self.convert_error(v.value, e[-1])))
            raise ReturnEx(v)
        self.unsupported(e[-1], "`?` applied to a non-Result value %r" % (v,))

    def ev_range(self, e, env):
        _, lo, hi, incl, line = e
        self.hint = None
        lo = self.eval(lo, env) if lo is not None else None
        hi = self.eval(hi, env) if hi is not None else None
        if incl and hi is not None:
            hi = self.arith("+", hi, 1, line)
        return ("range", lo, hi)

    def ev_struct(self, e, env):
        _, segs, fields, line = e
        name = segs[-1]
        vals = {}
        for f, x in fields:
            self.hint = None
            vals[f] = self.eval(x, env)
        if len(segs) >= 2 or name not in ("Self",):
            en = self.world.find_enum(segs[-2], name, self.mod) if len(segs) >= 2 else None
            if en is not None and en[1]["kind"] == "struct":
                return EnumV(en[0], name, vals, en[2].file)
        if name == "Self":
            return SStruct(self.owner, vals, self.mod)
        hit = self.world.struct_by_fields(name, list(vals), self.mod)
        if hit is None:
            self.unsupported(line, "struct literal %s {%s}: no parsed struct with these fields" % (name, ", ".join(vals)))
        return SStruct(hit[0], vals, hit[1])

    def ev_field(self, e, env):
        _, recv, name, line = e
        self.hint = None
        v = self.eval(recv, env)
        if isinstance(v, SStruct):
            if name in v.fields:
                return v.fields[name]
            if isinstance(name, int) and str(name) in v.fields:      # tuple struct field .0 / .1
                return v.fields[str(name)]
            self.unsupported(line, "struct %s has no field %s" % (v.name, name))
        if isinstance(v, tuple) and isinstance(name, int):
            return v[name]
        if isinstance(v, RList) and name == 0 and v.rtype:
            return v
        self.unsupported(line, "field access .%s on %r" % (name, type(v).__name__))

    def index_value(self, v, i, line):
        """checked concrete index into a list"""
        n = len(v)
        if isinstance(i, (F, SF)):
            self.unsupported(line, "index is a Felt")
        c = self.concretize(i, n - 1 if n > 0 else 0, line) if n > 0 else None
        if n == 0 and isinstance(i, int):
            c = None
        if c is None or c >= n:
            shown = i if isinstance(i, int) else "?"
            self.panic(line, "index out of bounds: the len is %d but the index is %s" % (n, shown))
        return c

    def slice_bounds(self, v, rng, line):
        n = len(v)
        lo = 0 if rng[1] is None else rng[1]
        hi = n if rng[2] is None else rng[2]
        lo_c = self.concretize(lo, n + 1, line)
        hi_c = self.concretize(hi, n + 1, line)
        if hi_c is None or hi_c > n:
            if lo_c is not None and hi_c is not None and lo_c > hi_c:
                self.panic(line, "slice index starts at %d but ends at %d" % (lo_c, hi_c))
            self.panic(line, "range end index %s out of range for slice of length %d" % (hi_c if hi_c is not None else "?", n))
        if lo_c is None or lo_c > hi_c:
            if lo_c is None or lo_c > n:
                if rng[2] is None:
                    self.panic(line, "range start index %s out of range for slice of length %d" % (lo_c if lo_c is not None else "?", n))
            self.panic(line, "slice index starts at %s but ends at %d" % (lo_c if lo_c is not None else "?", hi_c))
        return lo_c, hi_c

    def ev_index(self, e, env):
        _, recv, idx, line = e
        self.hint = None
        v = self.eval(recv, env)
        self.hint = None
        i = self.eval(idx, env)
        if isinstance(v, Digest):
            if isinstance(i, tuple) and i[0] == "range":
                lo = 0 if i[1] is None else i[1]
                hi = 32 if i[2] is None else i[2]
                if not isinstance(lo, int) or not isinstance(hi, int) or lo > hi or hi > 32:
                    self.unsupported(line, "digest slice with non-constant / invalid bounds")
                return DigestSlice(v, lo, hi)
            self.unsupported(line, "byte indexing of a digest")
        if not isinstance(v, list):
            self.unsupported(line, "indexing a non-slice value %r" % (type(v).__name__,))
        if isinstance(i, tuple) and len(i) == 3 and i[0] == "range":
            lo, hi = self.slice_bounds(v, i, line)
            return RList(v[lo:hi], rtype=None)
        return v[self.index_value(v, i, line)]

    # ================================================================== macros / calls
    def ev_macro(self, e, env):
        _, name, args, line = e
        self.hint = None
        if name in ("panic", "unreachable", "unimplemented", "todo"):
            self.panic(line, getattr(e, "ty", None) or (name + "!"))
        if name in ("println", "eprintln", "debug_assert", "debug_assert_eq"):
            return ()
        if name == "felt_nonzero":
            return NZ(self.felt(self.eval(args[0], env), line), False)
        if name == "felt_try_nonzero":
            return self.nz_try_from(self.eval(args[0], env), line)
        if name == "felt":
            return self.felt(self.eval(args[0], env), line)
        if name == "felt_hex":
            return F(int(self.eval(args[0], env), 16))
        if name == "vec":
            if len(args) == 3 and args[1][0] == "str" and args[1][1] == ";":
                n = self.concretize(self.eval(args[2], env), 1 << 16, line)
                if n is None:
                    raise Unbounded(self.file, line, "vec![x; n] with n not bounded")
                v = self.eval(args[0], env)
                return RList([deep_copy(v) for _ in range(n)])
            return RList([self.eval(a, env) for a in args])
        if name in ("assert", "assert_eq", "assert_ne"):
            if name == "assert":
                c = self.eval(args[0], env)
                msg = args[1][1] if len(args) > 1 and args[1][0] == "str" else "assertion failed"
            else:
                a, b = self.eval(args[0], env), self.eval(args[1], env)
                c = self.compare("==" if name == "assert_eq" else "!=", a, b, line)
                msg = args[2][1] if len(args) > 2 and args[2][0] == "str" else "assertion `left %s right` failed" % ("==" if name == "assert_eq" else "!=")
            if not self.truth(c, line):
                self.panic(line, msg)
            return ()
        if name == "ensure":
            c = self.eval(args[0], env)
            if not self.truth(c, line):
                raise ReturnEx(ResultV("Err", self.eval(args[1], env)))
            return ()
        if name == "assure":
            c = self.eval(args[0], env)
            if not self.truth(c, line):
                return ResultV("Err", self.eval(args[1], env))
            return ResultV("Ok", ())
        self.unsupported(line, "macro %s!" % name)

    def nz_try_from(self, v, line):
        v = self.felt(v, line)
        if self.truth(self.compare("==", v, 0, line), line):
            return ResultV("Err", EnumV("FeltIsZeroError", "FeltIsZeroError", None, None))
        return ResultV("Ok", NZ(v, True))

    def make_variant(self, en, vname, args, line):
        ename, info, m = en
        if info["kind"] == "unit":
            return EnumV(ename, vname, None, m.file)
        return EnumV(ename, vname, list(args), m.file)

    def ev_call(self, e, env):
        _, callee, argexprs, line = e
        if callee[0] != "path":
            f = self.eval(callee, env)
            args = [self.eval(a, env) for a in argexprs]
            return self.call_closure(f, args, line)
        segs = callee[1]
        name = segs[-1]
        if len(segs) >= 2 and segs[-2] == "mem" and name in ("replace", "take", "swap"):
            # core::mem::{replace, take, swap} on places written `&mut <place>`
            def place(a):
                if a[0] == "un" and a[1] == "&mut":
                    return a[2]
                self.unsupported(line, "mem::%s on an argument that is not `&mut <place>`" % name)
            self.hint = None
            p0 = place(argexprs[0])
            old_v = self.eval(p0, env)
            if isinstance(old_v, ElemRef):
                old_v = old_v.get()
            if name == "replace":
                self.assign(p0, "=", self.eval(argexprs[1], env), env, line)
                return old_v
            if name == "take":
                if isinstance(old_v, list):
                    new_v = RList([])
                elif is_felt(old_v):
                    new_v = F(0)
                elif is_int(old_v):
                    new_v = 0
                elif isinstance(old_v, ResultV) and old_v.kind in ("Some", "None"):
                    new_v = ResultV("None")
                else:
                    self.unsupported(line, "mem::take of %r (Default not modelled)" % (type(old_v).__name__,))
                keep = deep_copy(old_v) if isinstance(old_v, list) else old_v
                self.assign(p0, "=", new_v, env, line)
                return keep
            p1 = place(argexprs[1])
            other = self.eval(p1, env)
            self.assign(p0, "=", other, env, line)
            self.assign(p1, "=", old_v, env, line)
            return ()
        hint = self.hint
        args = []
        for a in argexprs:
            self.hint = None
            args.append(self.eval(a, env))
        self.hint = hint
        if len(segs) == 1:
            if name in ("Ok", "Err", "Some"):
                return ResultV(name, args[0] if args else ())
            v = self.lookup(env, name)
            if v is not KeyError:
                return self.call_closure(v, args, line)
            if (None, name) in self.abstract:
                return self.abstract[(None, name)](self, args, line)
            if name in ("poseidon_hash", "pedersen_hash", "poseidon_hash_many"):
                return self.builtin_hash(name, args, line)
            fn, mod = self.world.find_fn(name, self.mod)
            if fn is not None:
                return self.call_fn(fn, mod, args, line)
            # tuple struct constructor
            for m in self.world.mods:
                if name in m.tuple_structs:
                    if len(args) == 1 and isinstance(args[0], list):
                        r = RList(args[0], rtype=name)
                        r.mod = m
                        return r
                    return SStruct(name, dict((str(i), a) for i, a in enumerate(args)), m)
            if any(name.startswith(p_) for p_ in self.abstract_prefixes):
                return self.uninterpreted_call(name, args, line)
            self.unsupported(line, "call of unknown function %s" % name)
        ty = segs[-2]
        if ty == "Felt":
            return self.felt_static(name, args, line)
        if ty == "NonZeroFelt":
            if name == "from_felt_unchecked":
                return NZ(self.felt(args[0], line), False)
            if name == "try_from":
                return self.nz_try_from(args[0], line)
        if ty == "Vec" and name in ("new", "with_capacity"):
            return RList([])
        if ty == "Vec" and name == "from":
            return self.convert_into(args[0], "Vec", line)
        if ty in ("Keccak256", "Blake2s256") and name == "new":
            return Hasher("keccak" if ty == "Keccak256" else "blake2s")
        if ty in BITS and name in ("from", "try_from"):
            a0 = args[0].get() if isinstance(args[0], ElemRef) else args[0]
            if name == "from":
                if is_int(a0) or isinstance(a0, bool):
                    return (1 if a0 else 0) if isinstance(a0, bool) else a0
                self.unsupported(line, "%s::from of %r" % (ty, type(a0).__name__))
            val = a0.v if isinstance(a0, (BI, F)) else a0.t if isinstance(a0, (SI, SF)) else a0
            if isinstance(val, int) or z3.is_expr(val):
                return self.try_into_int(val, ty, line)
            self.unsupported(line, "%s::try_from of %r" % (ty, type(a0).__name__))
        if ty == "iter" and name == "successors":
            return Lazy("successors", args[0], args[1])
        if ty == "iter" and name == "repeat":
            return Lazy("repeat", args[0])
        if ty == "iter" and name == "once":
            return RList([args[0]])
        if ty == "iter" and name == "empty":
            return RList([])
        if ty == "VecDeque" and name in ("new", "with_capacity"):
            return RList([])
        if ty == "VecDeque" and name == "from":
            return deep_copy(args[0])
        if ty in ("Some", "Ok", "Err"):
            pass
        mod, owner = self.resolve_owner(ty)
        if len(segs) >= 3 and segs[-3] in ("Self",) + tuple(self.types):
            # Self::InteractionElements::new  (associated type)
            m0, o0 = self.resolve_owner(segs[-3])
            at = None
            for m in ([m0] if m0 is not None else self.world.mods):
                if (o0, ty) in m.assoc_types:
                    at = m.assoc_types[(o0, ty)]
                    r = self.world.resolve_type(at, m)
                    if r is not None:
                        mod, owner = r[2], r[1]
                    break
        if (owner, name) in self.abstract:
            return self.abstract[(owner, name)](self, args, line)
        # enum variant constructor
        en = self.world.find_enum(ty, name, self.mod)
        if en is not None:
            return self.make_variant(en, name, args, line)
        fn, fmod = self.world.find_method(owner, name, mod if mod is not None else self.mod)
        if fn is not None:
            if fn.has_self:
                return self.call_fn(fn, fmod, args[1:], line, self_val=args[0])
            return self.call_fn(fn, fmod, args, line)
        # module-qualified free function  (oods::verify_oods, fri::fri_verify)
        if ty[:1].islower():
            fn, fmod = self.world.find_fn(name, self.mod)
            if fn is not None:
                return self.call_fn(fn, fmod, args, line)
        self.unsupported(line, "call of unknown function %s" % "::".join(segs))

    def uninterpreted_call(self, name, args, line):
        """function outside the loaded world treated as an uninterpreted function of its felt arguments (recorded in the events)"""
        flat = [a for a in args if is_felt(a)]
        if len(flat) == len(args) and 1 <= len(flat) <= 4:
            t = self.uf("U_" + name, len(flat))(*[zi(a) for a in flat])
            self.axiom(z3.And(t >= 0, t < P))
            r = SF(t)
        else:
            k = sum(1 for e in self.events if e[0] == "uninterpreted:" + name) + 1
            r = self.sym_felt("%s#%d" % (name, k))
        self.events.append(("uninterpreted:" + name, list(args), r, self.file, line))
        return r

    def builtin_hash(self, name, args, line):
        if name == "poseidon_hash":
            return self.hash2("poseidon2", args[0], args[1], line)
        if name == "pedersen_hash":
            return self.hash2("pedersen", args[0], args[1], line)
        return self.hash_many(self.iter_list(args[0], line, "poseidon_hash_many"), line)

    def felt_static(self, name, args, line):
        if name == "from":
            return self.felt(args[0], line)
        if name == "from_hex_unchecked":
            return F(int(args[0], 16))
        if name == "from_hex":
            return ResultV("Ok", F(int(args[0], 16)))
        if name == "from_dec_str":
            return ResultV("Ok", F(int(args[0])))
        if name in ("from_bytes_be_slice", "from_bytes_be"):
            return self.felt_from_bytes(args[0], line)
        self.unsupported(line, "Felt::%s" % name)

    def convert_into(self, v, target, line):
        """`.into()` / `T::from(v)` through a parsed `impl From<X> for T`"""
        if isinstance(v, SStruct):
            for m in self.world.mods:
                for im in m.impls:
                    if im["trait"] == "From" and im["trait_text"].replace(" ", "") == "From<%s>" % v.name and "from" in im["fns"]:
                        if target is None or im["type"] == target.split("<")[0].strip().split("::")[-1].strip():
                            return self.call_fn(im["fns"]["from"], m, [v], line)
        if isinstance(v, list) and target is not None:
            tname = target.split("<")[0].strip().split("::")[-1].strip()
            for m in self.world.mods:
                for im in m.impls:
                    if im["trait"] == "From" and im["type"] == tname and im["trait_text"].replace(" ", "").startswith("From<Vec<") and "from" in im["fns"]:
                        return self.call_fn(im["fns"]["from"], m, [v], line)
        return v

    def ev_mcall(self, e, env):
        _, recv, name, argexprs, line = e
        if name == "contains" and recv[0] == "range" and len(argexprs) == 1:
            # (lo..hi).contains(&x) / (lo..=hi).contains(&x): PartialOrd comparisons, no iteration
            self.hint = None
            lo = self.eval(recv[1], env) if recv[1] is not None else None
            hi = self.eval(recv[2], env) if recv[2] is not None else None
            x = self.eval(argexprs[0], env)
            c = True
            if lo is not None:
                c = b_and(c, self.compare(">=", x, lo, line))
            if hi is not None:
                c = b_and(c, self.compare("<=" if recv[3] else "<", x, hi, line))
            return c
        hint = self.hint
        if name in ("try_into", "into", "collect", "unwrap", "expect", "map_err", "clone", "to_owned"):
            self.hint = hint
        else:
            self.hint = None
        v = self.eval(recv, env)
        args = []
        for a in argexprs:
            self.hint = "usize" if name in ("skip", "take", "step_by", "get", "drain", "with_capacity", "pow") else None
            args.append(self.eval(a, env))
        self.hint = hint
        tf = getattr(e, "turbofish", None)
        return self.method(v, name, args, line, tf)

    # ================================================================== methods
    def target_bits(self, tf, line):
        t = (tf or self.hint or "").replace("<", " ").replace(">", " ").replace(",", " ").split()
        for w in t:
            if w in BITS:
                return BITS[w], w
        self.notes.append("%s:%s: integer target type of try_into() not visible in the source text; assumed usize" % (self.file, line))
        return 64, "usize"

    def method(self, v, name, args, line, tf=None):
        if isinstance(v, Lazy):
            if name == "take":
                n = self.concretize(args[0], 1 << 16, line)
                if n is None:
                    raise Unbounded(self.file, line, "take(n) of an unbounded iterator with n not bounded")
                return RList(v.take(self, n, line))
            if name in ("iter", "into_iter", "by_ref"):
                return v
            self.unsupported(line, ".%s() on an unbounded iterator (only take / zip are supported)" % name)
        if isinstance(v, ElemRef):
            v = v.get()
        args = [a.get() if isinstance(a, ElemRef) and name not in ("push", "insert", "extend") else a for a in args]
        # user methods on typed values
        if isinstance(v, SStruct) or (isinstance(v, RList) and v.rtype):
            owner = v.name if isinstance(v, SStruct) else v.rtype
            if (owner, name) in self.abstract:
                return self.abstract[(owner, name)](self, [v] + args, line)
            fn, mod = self.world.find_method(owner, name, getattr(v, "mod", None))
            if fn is not None and fn.has_self:
                return self.call_fn(fn, mod, args, line, self_val=v)
        if isinstance(v, NZ):
            if name in ("clone", "borrow", "into"):
                return v
            v = v.v
        if isinstance(v, list):
            return self.list_method(v, name, args, line, tf)
        if isinstance(v, tuple) and len(v) == 3 and v[0] == "range":
            if v[2] is not None and not isinstance(v[2], (int, F)):
                self.observe_site(line, "iter:" + name, 0, symbolic=True, term=zi(v[2]))
            return self.list_method(RList(self.iter_list(v, line)), name, args, line, tf)
        if isinstance(v, ResultV):
            return self.result_method(v, name, args, line)
        if isinstance(v, Hasher):
            if name == "update":
                v.tokens.extend(self.tokens_of(self.iter_list(args[0], line), line))
                return ()
            if name in ("finalize", "finalize_reset"):
                return self.finalize(v, line)
        if isinstance(v, Digest):
            if name in ("as_slice", "clone", "as_ref"):
                return v
            if name == "to_vec":
                self.observe_site(line, "iter:to_vec", 32)
                return RList([ByteChunk("digest", v)])
        if isinstance(v, SStruct):
            if name in ("clone", "to_owned"):
                return deep_copy(v)
            if name == "into":
                return self.convert_into(v, self.hint, line)
            self.unsupported(line, "unknown method .%s() on struct %s" % (name, v.name))
        if isinstance(v, EnumV):
            if name in ("clone", "into", "to_owned"):
                return v
        if isinstance(v, tuple):
            if name in ("clone", "to_owned"):
                return deep_copy(v)
        if isinstance(v, BI):
            return self.bigint_method(v, name, args, line, tf)
        if is_int(v):
            return self.int_method(v, name, args, line, tf)
        if is_felt(v):
            return self.felt_method(v, name, args, line, tf)
        if is_bool(v):
            if name == "clone":
                return v
            if name == "then_some":
                return ResultV("Some", args[0]) if self.truth(v, line) else ResultV("None")
        self.unsupported(line, "unknown method .%s() on %r" % (name, type(v).__name__))

    def try_into_int(self, val, tf, line):
        """val: python int or z3 Int (non-negative)"""
        bits, tname = self.target_bits(tf, line)
        lim = 2**bits
        if isinstance(val, int):
            ok = val < lim
        else:
            ok = self.truth(val < lim, line)
        if not ok:
            return ResultV("Err", EnumV("TryFromBigIntError", "TryFromBigIntError", [()], None))
        return ResultV("Ok", val if isinstance(val, int) else SI(val, lim - 1))

    def bigint_method(self, v, name, args, line, tf):
        if name == "try_into":
            return self.try_into_int(v.v, tf, line)
        if name in ("clone", "into", "to_bigint", "to_biguint"):
            return v
        if name == "to_bytes_be":
            return RList([ByteChunk("big", v)])
        if name == "cmp":
            o = args[0]
            lt = self.compare("<", v, o, line)
            if self.truth(lt, line):
                return EnumV("Ordering", "Less", None, None)
            if self.truth(self.compare("==", v, o, line), line):
                return EnumV("Ordering", "Equal", None, None)
            return EnumV("Ordering", "Greater", None, None)
        self.unsupported(line, "unknown method .%s() on a big integer" % name)

    def int_method(self, v, name, args, line, tf):
        if name in ("clone", "into", "to_owned", "borrow"):
            return v
        if name == "try_into":
            return self.try_into_int(v if isinstance(v, int) else v.t, tf, line)
        if name in ("to_be_bytes",):
            return RList([ByteChunk("u64", v)])
        if name == "reverse_bits":
            if isinstance(v, int):
                return int(format(v, "064b")[::-1], 2)
            f = self.uf("revbits64", 1)
            r = f(v.t)
            self.axiom(z3.And(r >= 0, r < TWO64, f(r) == v.t))
            return SI(r, TWO64 - 1)
        if name in ("pow",):
            e = args[0]
            if isinstance(v, int) and isinstance(e, int):
                return v ** e
        if isinstance(v, int) and name in ("checked_ilog2", "ilog2", "is_power_of_two", "leading_zeros", "trailing_zeros", "count_ones", "count_zeros",
                                            "next_power_of_two", "checked_next_power_of_two", "isqrt"):
            if name == "checked_ilog2":
                return ResultV("Some", v.bit_length() - 1) if v > 0 else ResultV("None")
            if name == "ilog2":
                if v <= 0:
                    self.panic(line, "argument of integer logarithm must be positive")
                return v.bit_length() - 1
            if name == "is_power_of_two":
                return v > 0 and v & (v - 1) == 0
            if name == "leading_zeros":
                return 64 - v.bit_length()
            if name == "trailing_zeros":
                return 64 if v == 0 else (v & -v).bit_length() - 1
            if name == "count_ones":
                return bin(v).count("1")
            if name == "count_zeros":
                return 64 - bin(v).count("1")
            if name in ("next_power_of_two", "checked_next_power_of_two"):
                r = 1 if v <= 1 else 1 << (v - 1).bit_length()
                return r if name == "next_power_of_two" else ResultV("Some", r)
        if name in ("checked_ilog2", "ilog2", "is_power_of_two", "trailing_zeros", "leading_zeros", "count_ones") and isinstance(v, SI):
            # symbolic machine integer: case split over its (small) feasible values
            c = self.concretize(v, 1 << 12, line)
            if c is None:
                self.unsupported(line, ".%s() of a symbolic integer above 4096" % name)
            return self.int_method(c, name, args, line, tf)
        if name in ("checked_pow", "pow") and isinstance(v, int):
            e = self.concretize(args[0], 256, line)
            if e is None:
                self.unsupported(line, "integer power with a large symbolic exponent")
            r = v ** e
            if name == "checked_pow":
                return ResultV("Some", r) if r < TWO64 else ResultV("None")
            if r >= TWO64:
                self.panic(line, "attempt to multiply with overflow")
            return r
        if name in ("abs_diff",):
            if self.truth(self.compare("<", v, args[0], line), line):
                return self.i_arith("-", args[0], v, line)
            return self.i_arith("-", v, args[0], line)
        if name in ("min", "max"):
            o = args[0]
            c = self.compare("<=" if name == "min" else ">=", v, o, line)
            return v if self.truth(c, line) else o
        if name == "saturating_sub":
            if self.truth(self.compare("<", v, args[0], line), line):
                return 0
            return self.i_arith("-", v, args[0], line)
        if name in ("checked_sub",):
            if self.truth(self.compare("<", v, args[0], line), line):
                return ResultV("None")
            return ResultV("Some", self.i_arith("-", v, args[0], line))
        if name in ("checked_add", "checked_mul"):
            op = "+" if name == "checked_add" else "*"
            o = args[0]
            if isinstance(v, int) and isinstance(o, int):
                r = v + o if op == "+" else v * o
                return ResultV("Some", r) if r < TWO64 else ResultV("None")
            x, y = zi(v), zi(o)
            r = x + y if op == "+" else x * y
            hi = ((v if isinstance(v, int) else v.hi) + (o if isinstance(o, int) else o.hi)) if op == "+" else \
                ((v if isinstance(v, int) else v.hi) * (o if isinstance(o, int) else o.hi))
            if hi >= TWO64 and not self.truth(r < TWO64, line):
                return ResultV("None")
            return ResultV("Some", SI(r, min(hi, TWO64 - 1)))
        if name in ("checked_div", "checked_rem"):
            if self.truth(self.compare("==", args[0], 0, line), line):
                return ResultV("None")
            return ResultV("Some", self.i_arith("/" if name == "checked_div" else "%", v, args[0], line))
        if name in ("wrapping_sub", "wrapping_add"):
            self.unsupported(line, "wrapping arithmetic")
        self.unsupported(line, "unknown method .%s() on an integer" % name)

    def divisor(self, d, line, what):
        """value of a NonZeroFelt divisor; the library panics when an unchecked zero reaches the division"""
        if isinstance(d, NZ):
            x = d.v
            if not d.checked and self.truth(self.compare("==", x, 0, line), line):
                self.panic(line, what)
            return x
        return self.felt(d, line)

    def felt_method(self, v, name, args, line, tf):
        if name in ("clone", "into", "to_owned", "borrow"):
            return v
        if name in ("to_biguint", "to_bigint"):
            return BI(v.v if isinstance(v, F) else v.t)
        if name == "to_bytes_be":
            return RList([ByteChunk("felt", v)])
        if name == "pow_felt":
            return self.f_pow(v, self.felt(args[0], line), line)
        if name == "pow":
            return self.f_pow(v, args[0], line)
        if name == "field_div":
            d = self.divisor(args[0], line, "called `Result::unwrap()` on an `Err` value: InvZeroError (field_div by an unchecked zero NonZeroFelt)")
            return self.f_div(v, d, line)
        if name in ("floor_div", "div_rem"):
            d = self.divisor(args[0], line, "attempt to divide by zero")
            q, r = self.f_divrem(v, d, line)
            return q if name == "floor_div" else (q, r)
        if name == "double":
            return self.f_add(v, v)
        if name == "square":
            return self.f_mul(v, v)
        if name == "inverse":
            if self.truth(self.compare("==", v, 0, line), line):
                return ResultV("None")
            return ResultV("Some", self.f_inv(v, line))
        if name == "is_zero":
            return self.compare("==", v, 0, line)
        if name == "try_into":
            return self.try_into_int(v.v if isinstance(v, F) else v.t, tf, line)
        self.unsupported(line, "unknown Felt method .%s()" % name)

    def result_method(self, v, name, args, line):
        good = v.kind in ("Ok", "Some")
        if name in ("unwrap", "expect"):
            if good:
                return v.value
            if v.kind == "None":
                self.panic(line, "called `Option::unwrap()` on a `None` value" if name == "unwrap" else str(args[0]))
            self.panic(line, "called `Result::unwrap()` on an `Err` value: %r" % (v.value,))
        if name == "is_ok": return v.kind == "Ok"
        if name == "is_err": return v.kind == "Err"
        if name == "is_some": return v.kind == "Some"
        if name == "is_none": return v.kind == "None"
        if name == "ok_or":
            return ResultV("Ok", v.value) if good else ResultV("Err", args[0])
        if name == "ok_or_else":
            return ResultV("Ok", v.value) if good else ResultV("Err", self.call_closure(args[0], [], line))
        if name == "ok":
            return ResultV("Some", v.value) if v.kind == "Ok" else ResultV("None")
        if name == "map_err":
            return v if good else ResultV("Err", self.call_closure(args[0], [v.value], line))
        if name == "map":
            return ResultV(v.kind, self.call_closure(args[0], [v.value], line)) if good else v
        if name == "and":
            return args[0] if good else v
        if name == "and_then":
            return self.call_closure(args[0], [v.value], line) if good else v
        if name in ("or",):
            return v if good else args[0]
        if name == "unwrap_or":
            return v.value if good else args[0]
        if name == "map_or":
            return self.call_closure(args[1], [v.value], line) if good else args[0]
        if name == "map_or_else":
            return self.call_closure(args[1], [v.value], line) if good else self.call_closure(args[0], [] if v.kind == "None" else [v.value], line)
        if name == "unwrap_or_else":
            return v.value if good else self.call_closure(args[0], [] if v.kind == "None" else [v.value], line)
        if name == "filter":
            return v if good and self.truth(self.call_closure(args[0], [v.value], line), line) else ResultV("None")
        if name == "unwrap_or_default":
            return v.value if good else 0
        if name in ("is_some_and", "is_ok_and"):
            return self.truth(self.call_closure(args[0], [v.value], line), line) if good else False
        if name == "is_none_or":
            return self.truth(self.call_closure(args[0], [v.value], line), line) if good else True
        if name in ("clone", "as_ref", "as_mut", "copied", "cloned", "to_owned"):
            return v
        if name in ("iter", "into_iter"):
            return RList([v.value] if good else [])
        self.unsupported(line, "method .%s on Result/Option" % name)

    def list_method(self, v, name, args, line, tf=None):
        rt = getattr(v, "rtype", None)
        if SITE_OBS is not None and name in ITER_METHODS:
            self.observe_site(line, "iter:" + name, len(v))
        if name == "len":
            return len(v)
        if name in ("iter", "into_iter", "as_slice", "copied", "cloned", "as_ref", "borrow", "as_mut", "by_ref", "deref"):
            return v
        if name in ("to_vec", "clone", "to_owned"):
            return deep_copy(v)
        if name == "collect":
            r = RList(list(v))
            h = (tf or self.hint or "")
            if "Result" in h:
                for x in v:
                    if isinstance(x, ResultV) and x.kind == "Err":
                        return x
                return ResultV("Ok", RList([x.value if isinstance(x, ResultV) else x for x in v]))
            return r
        if name == "rev":
            return RList(list(reversed(v)))
        if name == "enumerate":
            return RList([(i, x) for i, x in enumerate(v)])
        if name == "is_empty":
            return len(v) == 0
        if name == "get":
            i = args[0]
            if isinstance(i, tuple) and len(i) == 3 and i[0] == "range":
                # slice.get(a..b): None instead of a panic when the range does not fit
                n = len(v)
                lo = 0 if i[1] is None else i[1]
                hi = n if i[2] is None else i[2]
                lo_c = self.concretize(lo, n + 1, line)
                hi_c = self.concretize(hi, n + 1, line)
                if lo_c is None or hi_c is None or hi_c > n or lo_c > hi_c:
                    return ResultV("None")
                return ResultV("Some", RList(v[lo_c:hi_c]))
            c = self.concretize(i, len(v), line)
            return ResultV("Some", v[c]) if c is not None and c < len(v) else ResultV("None")
        if name in ("push", "push_back"):
            v.append(args[0])
            return ()
        if name == "pop":
            return ResultV("Some", v.pop()) if v else ResultV("None")
        if name in ("extend", "extend_from_slice"):
            v.extend(self.iter_list(args[0], line, "extend"))
            return ()
        if name in ("first", "last"):
            if not v:
                return ResultV("None")
            return ResultV("Some", v[0] if name == "first" else v[-1])
        if name == "map":
            return RList([self.call_closure(args[0], [x], line) for x in list(v)])
        if name == "flat_map":
            out = []
            for x in list(v):
                out.extend(self.iter_list(self.call_closure(args[0], [x], line), line, "flat_map"))
            return RList(out)
        if name == "filter":
            return RList([x for x in list(v) if self.truth(self.call_closure(args[0], [x], line), line)])
        if name == "for_each":
            for x in list(v):
                self.call_closure(args[0], [x], line)
            return ()
        if name == "chain":
            return RList(list(v) + list(self.iter_list(args[0], line, "chain")))
        if name == "zip":
            o = args[0]
            if isinstance(o, tuple) and len(o) == 3 and o[0] == "range" and o[2] is None:
                lo = self.concretize(0 if o[1] is None else o[1], 1 << 30, line)
                return RList([(x, lo + i) for i, x in enumerate(v)])
            if isinstance(o, Lazy):
                return RList(list(zip(v, o.take(self, len(v), line))))
            return RList(list(zip(v, self.iter_list(o, line, "zip"))))
        if name == "skip":
            c = self.concretize(args[0], len(v), line)
            return RList(v[c:] if c is not None else [])
        if name == "take":
            c = self.concretize(args[0], len(v), line)
            return RList(v[:c] if c is not None else list(v))
        if name == "step_by":
            c = self.concretize(args[0], max(len(v), 1), line)
            if c == 0:
                self.panic(line, "assertion failed: step != 0")
            return RList(v[::c] if c is not None else v[:1])
        if name == "fold":
            acc = args[0]
            for x in list(v):
                acc = self.call_closure(args[1], [acc, x], line)
            return acc
        if name in ("sum", "product"):
            acc = F(0) if name == "sum" else F(1)
            for x in v:
                acc = self.arith("+" if name == "sum" else "*", acc, x, line)
            return acc
        if name in ("all", "any"):
            for x in list(v):
                c = self.truth(self.call_closure(args[0], [x], line), line)
                if name == "all" and not c:
                    return False
                if name == "any" and c:
                    return True
            return name == "all"
        if name == "count":
            return len(v)
        if name == "next":
            return ResultV("Some", v.pop(0)) if v else ResultV("None")
        if name == "drain":
            rng = args[0]
            if not (isinstance(rng, tuple) and rng[0] == "range"):
                self.unsupported(line, ".drain() without a range")
            lo, hi = self.slice_bounds(v, rng, line)
            out = v[lo:hi]
            del v[lo:hi]
            return RList(out)
        if name == "iter_mut" or (name in ("first_mut", "last_mut", "get_mut")):
            scalar = all(not isinstance(x, (SStruct, list)) for x in v)
            if name == "iter_mut":
                return RList([ElemRef(v, i) for i in range(len(v))]) if (scalar and v) else v
            if name == "get_mut":
                c = self.concretize(args[0], len(v), line)
                if c is None or c >= len(v):
                    return ResultV("None")
                return ResultV("Some", ElemRef(v, c) if scalar else v[c])
            if not v:
                return ResultV("None")
            i = 0 if name == "first_mut" else len(v) - 1
            return ResultV("Some", ElemRef(v, i) if scalar else v[i])
        if name == "unzip":
            a_, b_ = RList([]), RList([])
            for x in v:
                if not (isinstance(x, tuple) and len(x) == 2):
                    self.unsupported(line, ".unzip() over non-pairs")
                a_.append(x[0])
                b_.append(x[1])
            return (a_, b_)
        if name == "nth":
            c = self.concretize(args[0], len(v), line)
            return ResultV("Some", v[c]) if c is not None and c < len(v) else ResultV("None")
        if name == "filter_map":
            out = []
            for x in list(v):
                r = self.call_closure(args[0], [x], line)
                if isinstance(r, ResultV) and r.kind == "Some":
                    out.append(r.value)
                elif not (isinstance(r, ResultV) and r.kind == "None"):
                    self.unsupported(line, "filter_map closure did not return an Option")
            return RList(out)
        if name == "try_fold":
            acc = args[0]
            for x in list(v):
                r = self.call_closure(args[1], [acc, x], line)
                if not isinstance(r, ResultV):
                    self.unsupported(line, "try_fold closure did not return Option / Result")
                if r.kind in ("Err", "None"):
                    return r
                acc = r.value
            if v:
                return ResultV(r.kind, acc)
            from symex import closure_result_kind
            k_ = closure_result_kind(args[1])
            if k_ is not None:
                return ResultV(k_, acc)
            h_ = self.hint or ""
            if "Option" in h_ or "Result" in h_:
                return ResultV("Some" if "Option" in h_ else "Ok", acc)
            self.unsupported(line, "try_fold over an empty iterator: Option / Result not determined by the source text")
        if name in ("split_first", "split_last"):
            if not v:
                return ResultV("None")
            return ResultV("Some", (v[0], RList(v[1:])) if name == "split_first" else (v[-1], RList(v[:-1])))
        if name in ("split_at_mut",):
            c = self.concretize(args[0], len(v), line)
            if c is None or c > len(v):
                self.panic(line, "mid > len")
            return (self.view(v, 0, c), self.view(v, c, len(v)))
        if name in ("chunks_exact_mut", "chunks_mut"):
            c = self.concretize(args[0], len(v) + 1, line)
            if c is None:
                c = len(v) + 1
            if c == 0:
                self.panic(line, "chunk size must be non-zero")
            end = len(v) // c * c if name == "chunks_exact_mut" else len(v)
            return RList([self.view(v, i, min(i + c, len(v))) for i in range(0, end, c)])
        if name in ("copy_from_slice", "clone_from_slice"):
            src = self.iter_list(args[0], line, name)
            n_src = self.byte_len(src, line) if any(isinstance(x, ByteChunk) for x in src) else len(src)
            if n_src != len(v):
                self.panic(line, "source slice length (%d) does not match destination slice length (%d)" % (n_src, len(v)))
            items = self.expand_bytes(src, line) if any(isinstance(x, ByteChunk) for x in src) else list(src)
            if isinstance(v, View):
                v.write(items)
            else:
                v[:] = items
            return ()
        if name == "fill":
            items = [args[0]] * len(v)
            if isinstance(v, View):
                v.write(items)
            else:
                v[:] = items
            return ()
        if name in ("push_front",):
            v.insert(0, args[0])
            return ()
        if name in ("pop_front",):
            return ResultV("Some", v.pop(0)) if v else ResultV("None")
        if name in ("pop_back",):
            return ResultV("Some", v.pop()) if v else ResultV("None")
        if name in ("front", "back", "peek"):
            if not v:
                return ResultV("None")
            return ResultV("Some", v[0] if name != "back" else v[-1])
        if name in ("peekable", "fuse", "make_contiguous", "as_mut_slice"):
            return v
        if name in ("binary_search",):
            # on a sorted slice: Ok(index of an equal element) | Err(insertion point that keeps the order)
            x = args[0]
            for i in range(len(v)):
                if self.truth(self.deep_eq(v[i], x, line), line):
                    return ResultV("Ok", i)
                if self.truth(self.compare("<", x, v[i], line), line):
                    return ResultV("Err", i)
            return ResultV("Err", len(v))
        if name == "insert":
            c = self.concretize(args[0], len(v), line)
            if c is None or c > len(v):
                self.panic(line, "insertion index (is %s) should be <= len (is %d)" % (c if c is not None else "?", len(v)))
            v.insert(c, args[1])
            return ()
        if name in ("remove", "swap_remove"):
            c = self.index_value(v, args[0], line)
            x = v[c]
            if name == "remove":
                del v[c]
            else:
                v[c] = v[-1]
                del v[-1]
            return x
        if name == "swap":
            a_, b_ = self.index_value(v, args[0], line), self.index_value(v, args[1], line)
            v[a_], v[b_] = v[b_], v[a_]
            return ()
        if name == "retain":
            keep = [x for x in list(v) if self.truth(self.call_closure(args[0], [x], line), line)]
            del v[:]
            v.extend(keep)
            return ()
        if name == "position":
            for i, x in enumerate(list(v)):
                if self.truth(self.call_closure(args[0], [x], line), line):
                    return ResultV("Some", i)
            return ResultV("None")
        if name in ("find",):
            for x in list(v):
                if self.truth(self.call_closure(args[0], [x], line), line):
                    return ResultV("Some", x)
            return ResultV("None")
        if name in ("sort_unstable", "sort_by_key", "sort_unstable_by_key") and name == "sort_unstable":
            return self.list_method(v, "sort", args, line, tf)
        if name in ("last_mut", "first_mut"):
            return self.list_method(v, name[:-4], args, line, tf)
        if name in ("max", "min") and not args:
            if not v:
                return ResultV("None")
            best = v[0]
            for x in v[1:]:
                c = self.compare(">" if name == "max" else "<", x, best, line)
                if self.truth(c, line):
                    best = x
            return ResultV("Some", best)
        if name == "clear":
            del v[:]
            return ()
        if name == "split_at":
            c = self.concretize(args[0], len(v), line)
            if c is None or c > len(v):
                self.panic(line, "mid > len")
            return (RList(v[:c]), RList(v[c:]))
        if name in ("windows", "chunks", "chunks_exact"):
            c = self.concretize(args[0], len(v) + 1, line)
            if c is None:
                c = len(v) + 1          # any size above the length behaves alike
            if c == 0:
                self.panic(line, "%s size must be non-zero" % name)
            if name == "windows":
                return RList([RList(v[i:i + c]) for i in range(0, len(v) - c + 1)])
            n_full = len(v) // c * c
            return RList([RList(v[i:i + c]) for i in range(0, len(v) if name == "chunks" else n_full, c)])
        if name == "truncate":
            c = self.concretize(args[0], len(v), line)
            if c is not None:
                del v[c:]
            return ()
        if name == "contains":
            r = False
            for x in v:
                r = b_or(r, self.deep_eq(x, args[0], line))
            return r
        if name == "sort":
            n = len(v)
            for i in range(n):
                for j in range(n - 1 - i):
                    a, b = self.felt(v[j], line), self.felt(v[j + 1], line)
                    if isinstance(a, F) and isinstance(b, F):
                        if a.v > b.v:
                            v[j], v[j + 1] = b, a
                    else:
                        c = zi(a) <= zi(b)
                        v[j], v[j + 1] = SF(z3.If(c, zi(a), zi(b))), SF(z3.If(c, zi(b), zi(a)))
            return ()
        if name == "dedup":
            i = 1
            while i < len(v):
                if self.truth(self.deep_eq(v[i], v[i - 1], line), line):
                    del v[i]
                else:
                    i += 1
            return ()
        if name == "reverse":
            v.reverse()
            return ()
        if name == "concat":
            out = []
            for x in v:
                out.extend(x)
            return RList(out)
        if name == "into":
            return self.convert_into(v, self.hint, line)
        if name == "try_into":
            return ResultV("Ok", v)
        self.unsupported(line, "unknown slice / iterator method .%s()" % name)


def _left_loop(ex, line):
    if ex.focus_loop is not None and ex.focus_loop == (ex.file, line):
        raise Pruned()


class ContinueEx(Exception):
    def __init__(self, label=None):
        Exception.__init__(self)
        self.label = label


def _mine(exc, node):
    """does this break / continue belong to the loop `node`? (unlabelled: innermost loop; labelled: the loop carrying the label)"""
    lab = getattr(exc, "label", None)
    return lab is None or lab == getattr(node, "label", None)


class Lazy(object):
    """unbounded iterator (core::iter::successors / repeat / open range); only bounded consumers are supported"""
    def __init__(self, kind, first, f=None):
        self.kind, self.first, self.f = kind, first, f
    def take(self, ex, n, line):
        out = []
        if self.kind == "repeat":
            return [self.first] * n
        cur = self.first
        while len(out) < n:
            if isinstance(cur, ResultV) and cur.kind == "None":
                break
            x = cur.value if isinstance(cur, ResultV) else cur
            out.append(x)
            cur = ex.call_closure(self.f, [x], line)
        return out


class ElemRef(object):
    """`&mut` reference to a scalar element of a Vec / slice (iter_mut, first_mut, get_mut ..)"""
    def __init__(self, base, i):
        self.base, self.i = base, i
    def get(self):
        return self.base[self.i]
    def set(self, v):
        self.base[self.i] = v


class BytePart(object):
    """byte k of a multi-byte chunk copied into a byte buffer"""
    __slots__ = ("chunk", "k")
    def __init__(self, chunk, k):
        self.chunk, self.k = chunk, k


class View(RList):
    """mutable sub-slice (split_at_mut, chunks_exact_mut, &mut v[a..b]): writes go through to the root list"""
    def __init__(self, root, lo, hi):
        RList.__init__(self, root[lo:hi])
        self.root, self.lo, self.hi = root, lo, hi
    def write(self, items):
        self.root[self.lo:self.hi] = items
        self[:] = items


CHUNK_BYTES = {"felt": 32, "u64": 8, "u8": 1, "digest": 32}
