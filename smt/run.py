#!/usr/bin/env python3-vt
"""Engine E2 (felt-smt) driver.

    python3-vt /verif/smt/run.py <PROP> --tier quick|thorough --out <file.json>

PROP in C06, C07, C12, C15, C16, C01 (ring / real encodings) and C13, C14, C07S, C02S, C01S, C08S, C17, C18
(felt-sx: symbolic execution of the Vec / iterator heavy code, z3 integers, collision-free UF hashes).  Exit code 0 when the run completed (whatever the
verdicts); non-zero only on an internal crash.  Environment: VERIF_REPO (default /repo),
VERIF_SEED (default 0), VERIF_XCHECK=0 disables the z3-binary / cvc5 cross-checks.
"""
import argparse
import json
import os
import sys
import time

sys.path.insert(0, os.path.dirname(os.path.abspath(__file__)))
sys.setrecursionlimit(20000)


def main():
    ap = argparse.ArgumentParser()
    ap.add_argument("prop", choices=["C06", "C07", "C12", "C15", "C16", "C01",
                                     "C13", "C14", "C06S", "C07S", "C02S", "C01S", "C08S", "C10S", "C17", "C18", "C04S", "C05S"])
    ap.add_argument("--tier", choices=["quick", "thorough"], default="quick")
    ap.add_argument("--out", default=None)
    ap.add_argument("--layouts", default=None, help="comma separated subset of layouts (C16/C01/C14)")
    ap.add_argument("--features", default=None, help="C04S/C05S: commitment hash variant(s), comma separated, of keccak_160_lsb (default) "
                    "keccak_248_lsb blake2s_160_lsb blake2s_248_lsb; thorough runs all four")
    ap.add_argument("--only", default=None, help="comma separated entry points / obligation groups (C18, C17; debugging aid)")
    args = ap.parse_args()
    t0 = time.time()
    if args.out:
        os.environ["VERIF_REPLAY_DIR"] = os.path.abspath(args.out) + ".replays"
    import common
    if args.prop == "C06":
        import c06
        res = c06.run_c06(args.tier)
    elif args.prop == "C07":
        import c06
        res = c06.run_c07(args.tier)
    elif args.prop == "C12":
        import c12
        res = c12.run(args.tier)
    elif args.prop == "C15":
        import c15
        res = c15.run(args.tier)
    elif args.prop == "C16":
        import c16
        res = c16.run_c16(args.tier, args.layouts.split(",") if args.layouts else None)
    elif args.prop == "C01":
        import c16
        res = c16.run_c01(args.tier, args.layouts.split(",") if args.layouts else None)
    elif args.prop == "C13":
        import c13
        res = c13.run(args.tier)
    elif args.prop == "C14":
        import c14
        res = c14.run(args.tier, args.layouts.split(",") if args.layouts else None)
    elif args.prop == "C18":
        import c18
        res = c18.run(args.tier, args.only.split(",") if args.only else None)
    elif args.prop == "C06S":
        import c06s
        res = c06s.run(args.tier)
    elif args.prop == "C07S":
        import c07s
        res = c07s.run(args.tier)
    elif args.prop in ("C04S", "C05S"):
        import c04s
        res = c04s.run(args.prop, args.tier, args.features.split(",") if args.features else None)
    elif args.prop == "C10S":
        import c10s
        res = c10s.run(args.tier)
    elif args.prop in ("C01S", "C08S", "C02S"):
        import cstark
        res = cstark.run(args.prop, args.tier)
    else:
        import c17
        res = c17.run(args.tier, args.only.split(",") if args.only else None)
    res["repo"] = common.REPO
    res["seed"] = common.SEED
    res["wall_s"] = round(time.time() - t0, 2)
    res["solvers"] = common.solver_versions()
    res["replay_binaries"] = dict(common._replay_bins)      # feature set -> binary (`replay_e2 < request.json` re-runs a replay)
    for ob in res["obligations"]:
        print("%-12s %-34s q=%-4d %7.2fs  %s" % (ob["verdict"].upper(), ob["id"], ob["queries"], ob["solver_s"],
                                               (ob["detail"] or "")[:150].replace("\n", " ")))
    counts = {}
    for ob in res["obligations"]:
        counts[ob["verdict"]] = counts.get(ob["verdict"], 0) + 1
    print("%s %s: %s  (wall %.1fs, repo %s)" % (res["property"], res["tier"], counts, res["wall_s"], common.REPO))
    if args.out:
        with open(args.out, "w") as f:
            json.dump(res, f, indent=1, default=str)
    return 0


if __name__ == "__main__":
    sys.exit(main())
