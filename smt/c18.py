"""C18 - malformed proofs give errors, not crashes: every Panic path of the symbolically executed entry points is decided by z3 and
replayed on the real function.  Inner entry points are analysed under `config accepted by the real validate` (the real validate is
executed first on the same symbolic config; paths where it does not return Ok are pruned)."""
import itertools
import os
import time
import traceback

import z3

import common
from common import Stats, check, finish, obligation, replay, hx, P
from rsparse import Unsupported
from symex import F, RList, ResultV, RustPanic, LoopBound
from sx import Exec, Pruned, ASSUMPTIONS
from sxlib import concretize, to_json, mval, leaf_terms, outcome_label, native_label, same_outcome
from sxval import SF, SI, SStruct, EnumV, zi, deep_copy
import sxh
from sxh import H, world

REPLAY_LAYOUTS = ["recursive"]


class Entry(object):
    def __init__(self, name, functions, shapes, build, pre="", bounds="", toy=False, abstract=None, types=None, int_bound=8, max_paths=400,
                 budget_s=120, info=None, layout="recursive", abstract_prefixes=()):
        self.name, self.functions, self.shapes, self.build = name, functions, shapes, build
        self.pre, self.bounds, self.toy = pre, bounds, toy
        self.abstract, self.types, self.int_bound, self.max_paths, self.budget_s = abstract, types, int_bound, max_paths, budget_s
        self.layout, self.abstract_prefixes = layout, tuple(abstract_prefixes)
        self.info = info      # Entry without the validate precondition: its panics are listed as unreachable through StarkProof::verify


def protected(h, f):
    """run a precondition: panics / errors inside it prune the path (they belong to that function's own entry)"""
    try:
        return f()
    except RustPanic:
        raise Pruned()


def run_entry(en, tier):
    """returns list of obligations"""
    w = world(en.layout, toy=en.toy)
    rl = [en.layout]
    t0 = time.time()
    sites = {}          # (file, line) -> list of (shape, ex, outcome, hold)
    n_paths, n_shapes, unb = 0, 0, {}
    errors = []
    kinds = {}
    for shape in en.shapes:
        if time.time() - t0 > en.budget_s * (3 if tier == "thorough" else 1):
            errors.append("time budget exhausted before shape %s" % (shape,))
            break
        types = {}
        if en.types:
            types = en.types(w)
        ex = Exec(w, types=types, abstract=en.abstract(w) if en.abstract else None, int_bound=en.int_bound, abstract_prefixes=en.abstract_prefixes)
        hold = {}
        def entry(ex, shape=shape, hold=hold):
            h = H(ex)
            inputs, thunk = en.build(h, shape)
            hold["inputs"] = deep_copy(inputs)
            hold["felt_vars"] = [t for n, k, t in h.b.vars if k == "felt"]
            return thunk()
        try:
            outs = ex.explore(entry, max_paths=en.max_paths, budget_s=en.budget_s)
        except Unsupported as u:
            errors.append("shape %s: %s" % (shape, u))
            continue
        except LoopBound as l:
            errors.append("shape %s: %s" % (shape, l))
            continue
        n_shapes += 1
        n_paths += len(outs)
        for o in outs:
            kinds[o.kind] = kinds.get(o.kind, 0) + 1
            if o.kind == "panic":
                sites.setdefault((sxh.rel_site(o), o.site[1]), []).append((shape, ex, o, dict(hold)))
            elif o.kind == "unbounded":
                unb[(sxh.rel_site(o), o.site[1])] = o.msg
    obs = []
    summary = "%d shapes, %d paths %s" % (n_shapes, n_paths, kinds)
    if unb:
        summary += "; value-bounded loops cut at the exploration bound (see C17): %s" % sorted("%s:%s" % k for k in unb)
    for (file, line), cands in sorted(sites.items()):
        oid = "C18.%s.%s:%s" % (en.name, os.path.basename(file), line)
        ob = obligation(oid, "%s: no input reaches the panic at %s:%s" % (en.name, file, line), en.functions,
                        (en.bounds + "; " if en.bounds else "") + "precondition: " + (en.pre or "none"))
        st = Stats()
        done = False
        tried = 0
        for shape, ex, o, hold in cands[:12]:
            tried += 1
            v, model = sxh.solve_path(ex, o, hold["inputs"], st, timeout_s=60, bias_vars=hold.get("felt_vars", ()))
            if v != "sat":
                continue
            conc = concretize(hold["inputs"], model)
            try:
                reqs = en_request(en, conc)
            except Exception as e:     # noqa
                obs.append(finish(ob, "inconclusive", st, detail="panic `%s` feasible for shape %s but no replay request could be built: %r" % (o.msg, shape, e)))
                done = True
                break
            ans = replay(reqs, rl)
            main = ans[0]
            repair_log = []
            if "err" in main:
                reqs[0], main, repair_log = sxh.repair_replay(reqs[0], rl)
                ans[0] = main
            same_site = "panic" in main and (main.get("file") is None or not str(main.get("file", "")).startswith("crates/") and "/crates/" not in str(main.get("file", ""))
                                             or (str(file).endswith(_tail(main.get("file"))) and int(main.get("line", -1)) == int(line)))
            pre_ok = all("ok" in a for a in ans[1:])
            rep = {"reproduced": "panic" in main and pre_ok, "same_site": bool(same_site), "request": reqs[0], "real_output": main,
                   "precondition_requests": reqs[1:], "precondition_outputs": ans[1:], "repair": repair_log}
            cex = {"shape": str(shape), "entry": en.name, "site": "%s:%s" % (file, line), "message": o.msg, "request": reqs[0]}
            if rep["reproduced"]:
                obs.append(finish(ob, "violated", st, detail="panic `%s`; real function: %s%s; %s" % (
                    o.msg, str(main)[:200], "" if pre_ok or not reqs[1:] else " (precondition NOT confirmed natively)", summary), cex=cex, replay_rec=rep))
            else:
                obs.append(finish(ob, "inconclusive", st, detail="solver says the panic `%s` is reachable (shape %s) but the real function gives %s "
                                  "(preconditions natively ok: %s)" % (o.msg, shape, str(main)[:200], pre_ok), cex=cex, replay_rec=rep))
            done = True
            break
        if not done:
            # every candidate path infeasible (or undecided)
            if st.notes:
                obs.append(finish(ob, "inconclusive", st, detail="panic paths at this site could not be decided"))
            # infeasible panic paths are not reported as obligations of their own
    base = obligation("C18.%s" % en.name, "%s returns a value or an Err on every path (no panic)" % en.name, en.functions,
                      (en.bounds + "; " if en.bounds else "") + "precondition: " + (en.pre or "none"))
    viol = [o for o in obs if o["verdict"] == "violated"]
    inc = [o for o in obs if o["verdict"] == "inconclusive"]
    if en.info is not None:
        extra = []
        pfx = "C18.%s." % en.name
        known = set(o["id"][len(pfx):] for o in obs)
        for o in run_entry(en.info, tier):
            site = o["id"][len(pfx):]
            if o["verdict"] == "violated" and site not in known:
                extra.append("%s `%s` [replayed: %s]" % (site, (o["cex"] or {}).get("message"), str((o["replay"] or {}).get("real_output"))[:100]))
        summary += "; panic sites that need inputs which validate / the preceding verification steps reject - precondition dropped: %s - " \
                   "(unreachable through StarkProof::verify, not counted): %s" % (en.info.pre, extra or "none")
    if errors:
        obs.append(finish(base, "inconclusive", None, detail="; ".join(errors[:4]) + "; " + summary, solver="-"))
    elif not viol and not inc:
        obs.append(finish(base, "holds", None, detail=summary + "; %d panic site(s) on symbolic paths, all infeasible" % len(sites),
                          solver="z3 (path feasibility during symbolic execution and per panic path)"))
    return obs


def _tail(f):
    f = str(f or "")
    i = f.find("crates/")
    return f[i:] if i >= 0 else f


def en_request(en, conc):
    return conc["_request"](conc)


# ============================================================================================== builders
def small(n):
    return list(range(0, n + 1))


def b_fri_validate(h, shape):
    a, b = shape
    cfg = h.struct(sxh.F_FRICFG, "Config", "cfg", {"cfg.inner_layers": a, "cfg.fri_step_sizes": b})
    lnc, nvf = h.felt("log_n_cosets"), h.felt("nvf")
    inputs = {"cfg": cfg, "lnc": lnc, "nvf": nvf,
              "_request": lambda c: [{"fn": "fri_config_validate", "config": to_json(c["cfg"]), "log_n_cosets": to_json(c["lnc"]),
                                      "n_verifier_friendly_commitment_layers": to_json(c["nvf"])}]}
    return inputs, lambda: h.call(sxh.F_FRICFG, "validate", [lnc, nvf], owner="Config", self_val=cfg)


def stark_config(h, a, b, name="cfg"):
    return h.struct(sxh.F_STARKCFG, "StarkConfig", name, {name + ".fri.inner_layers": a, name + ".fri.fri_step_sizes": b})


def validate_req(c):
    return {"fn": "stark_config_validate", "config": to_json(c["cfg"]), "security_bits": to_json(c["sec"]),
            "num_columns_first": to_json(c["n1"]), "num_columns_second": to_json(c["n2"])}


def b_stark_validate(h, shape):
    a, b = shape
    cfg = stark_config(h, a, b)
    sec, n1, n2 = h.felt("sec"), h.felt("n1"), h.felt("n2")
    inputs = {"cfg": cfg, "sec": sec, "n1": n1, "n2": n2, "_request": lambda c: [validate_req(c)]}
    return inputs, lambda: h.call(sxh.F_STARKCFG, "validate", [sec, n1, n2], owner="StarkConfig", self_val=cfg)


def validated_config(h, a, b=None):
    """StarkConfig accepted by the real StarkConfig::validate on this path.  (a, b) = lengths of fri.inner_layers / fri_step_sizes with
    every number symbolic, or a = dict(steps=.., bound=.., lnc=..) for a concrete FRI / domain geometry (everything else symbolic)"""
    if isinstance(a, dict):
        cfg = sxh.stark_config_concrete(h, "cfg", a["steps"], a["bound"], a["lnc"], n_queries=a.get("n_queries"))
    else:
        cfg = stark_config(h, a, b)
    sec, n1, n2 = h.felt("sec"), h.felt("n1"), h.felt("n2")
    protected(h, lambda: h.require_ok(h.call(sxh.F_STARKCFG, "validate", [sec, n1, n2], owner="StarkConfig", self_val=cfg)))
    return cfg, {"cfg": cfg, "sec": sec, "n1": n1, "n2": n2}


def domains_of(h, cfg):
    return protected(h, lambda: h.call(sxh.F_DOMAINS, "new", [cfg.fields["log_trace_domain_size"], cfg.fields["log_n_cosets"]], owner="StarkDomains"))


def cfg_of(h, shape):
    return validated_config(h, shape) if isinstance(shape, dict) else validated_config(h, *shape)


def b_domains(h, shape):
    cfg, inp = cfg_of(h, shape)
    inp["_request"] = lambda c: [{"fn": "stark_domains_new", "log_trace_domain_size": to_json(c["cfg"].fields["log_trace_domain_size"]),
                                  "log_n_cosets": to_json(c["cfg"].fields["log_n_cosets"])}, validate_req(c)]
    return inp, lambda: h.call(sxh.F_DOMAINS, "new", [cfg.fields["log_trace_domain_size"], cfg.fields["log_n_cosets"]], owner="StarkDomains")


def tr_json(t):
    return {"digest": to_json(t.fields["digest"]), "counter": to_json(t.fields["counter"])}


EXPLORATION_BOUNDS = True       # C17 switches the artificial exploration bounds off (loop bounds must come from validate alone)


def b_generate_queries(h, shape):
    cfg, inp = cfg_of(h, shape)
    if EXPLORATION_BOUNDS:
        h.ex.assume(zi(cfg.fields["n_queries"]) <= 3)
    dom = domains_of(h, cfg)
    tr = h.transcript()
    inp.update(tr=tr, ub=dom.fields["eval_domain_size"])
    inp["_request"] = lambda c: [{"fn": "generate_queries", "transcript": tr_json(c["tr"]), "n_samples": to_json(c["cfg"].fields["n_queries"]),
                                  "query_upper_bound": to_json(c["ub"])}, validate_req(c)]
    return inp, lambda: h.call(sxh.F_QUERIES, "generate_queries", [tr, cfg.fields["n_queries"], dom.fields["eval_domain_size"]])


def b_queries_to_points(h, shape):
    cs, nq = shape
    cfg, inp = cfg_of(h, cs)
    dom = domains_of(h, cfg)
    qs = h.felts("q", nq)
    for q in qs:
        h.ex.assume(zi(q) < zi(dom.fields["eval_domain_size"]))
    inp.update(qs=qs, dom=dom)
    inp["_request"] = lambda c: [{"fn": "queries_to_points", "queries": to_json(c["qs"]), "stark_domains": to_json(c["dom"])}, validate_req(c)]
    return inp, lambda: h.call(sxh.F_QUERIES, "queries_to_points", [qs, dom])


def b_verify_pow(h, shape):
    pre = shape
    digest = h.felt("digest")
    nb = h.b.integer("n_bits", 8)
    nonce = h.b.integer("nonce", 64)
    cfg = SStruct("Config", {"n_bits": nb}, h.w.mod(sxh.F_POWCFG))
    if pre:
        protected(h, lambda: h.require_ok(h.call(sxh.F_POWCFG, "validate", [], owner="Config", self_val=cfg)))
    inp = {"digest": digest, "nb": nb, "nonce": nonce}
    inp["_request"] = lambda c: [{"fn": "verify_pow", "digest": to_json(c["digest"]), "n_bits": c["nb"], "nonce": c["nonce"]}] + (
        [{"fn": "pow_config_validate", "config": {"n_bits": c["nb"]}}] if pre else [])
    return inp, lambda: h.call(sxh.F_POW, "verify_pow", [RList([sxh_bytes(digest)]), nb, nonce])


def sxh_bytes(f):
    from sxval import ByteChunk
    return ByteChunk("felt", f)


def b_pow_commit(h, shape):
    tr = h.transcript()
    nb = h.b.integer("n_bits", 8)
    nonce = h.b.integer("nonce", 64)
    cfg = SStruct("Config", {"n_bits": nb}, h.w.mod(sxh.F_POWCFG))
    un = SStruct("UnsentCommitment", {"nonce": nonce}, h.w.mod(sxh.F_POW))
    protected(h, lambda: h.require_ok(h.call(sxh.F_POWCFG, "validate", [], owner="Config", self_val=cfg)))
    inp = {"tr": tr, "nb": nb, "nonce": nonce}
    inp["_request"] = lambda c: [{"fn": "pow_commit", "transcript": tr_json(c["tr"]), "unsent_commitment": {"nonce": c["nonce"]},
                                  "config": {"n_bits": c["nb"]}}, {"fn": "pow_config_validate", "config": {"n_bits": c["nb"]}}]
    return inp, lambda: h.call(sxh.F_POW, "commit", [tr, cfg], owner="UnsentCommitment", self_val=un)


def fri_cfg_req(c):
    return {"fn": "fri_config_validate", "config": to_json(c["cfg"]), "log_n_cosets": to_json(c["lnc"]),
            "n_verifier_friendly_commitment_layers": to_json(c["nvf"])}


def b_fri_commit(h, shape):
    a, b, c_, d = shape
    cfg = h.struct(sxh.F_FRICFG, "Config", "cfg", {"cfg.inner_layers": a, "cfg.fri_step_sizes": b})
    lnc, nvf = h.felt("log_n_cosets"), h.felt("nvf")
    protected(h, lambda: h.require_ok(h.call(sxh.F_FRICFG, "validate", [lnc, nvf], owner="Config", self_val=cfg)))
    un = h.struct(sxh.F_FRITYPES, "UnsentCommitment", "un", {"un.inner_layers": c_, "un.last_layer_coefficients": d})
    tr = h.transcript()
    inp = {"cfg": cfg, "lnc": lnc, "nvf": nvf, "un": un, "tr": tr}
    inp["_request"] = lambda c: [{"fn": "fri_commit", "transcript": tr_json(c["tr"]), "unsent_commitment": to_json(c["un"]), "config": to_json(c["cfg"])},
                                 fri_cfg_req(c)]
    return inp, lambda: h.call(sxh.F_FRI, "fri_commit", [tr, un, cfg])


def pub_input(h, name, segs, M, hdrs):
    return h.struct(sxh.F_PUBMEM, "PublicInput", name, {name + ".segments": segs, name + ".main_page": M, name + ".continuous_page_headers": hdrs})


def toy_types(w):
    return {"Layout": (w.mod(sxh.TOY), "Layout")}


def toy_abstract(w):
    def comp(ex, args, line):
        ex.events.append(("eval_composition_polynomial", list(args), None, ex.file, line))
        k = sum(1 for e in ex.events if e[0] == "eval_composition_polynomial")
        return ResultV("Ok", ex.sym_felt("toy_composition_%d" % k))
    def oods(ex, args, line):
        ex.events.append(("eval_oods_polynomial", list(args), None, ex.file, line))
        k = sum(1 for e in ex.events if e[0] == "eval_oods_polynomial")
        return ResultV("Ok", ex.sym_felt("toy_oods_poly_%d" % k))
    return {("Layout", "eval_composition_polynomial"): comp, ("Layout", "eval_oods_polynomial"): oods}


def toy_script(conc_events=None):
    return {}


def b_verify_oods(h, shape):
    L = shape
    oods = h.felts("oods", L)
    ie = h.struct(sxh.TOY, "InteractionElements", "ie", {})
    pi = pub_input(h, "pi", 0, 0, 0)
    cc = h.felts("cc", 2)
    z, tds, tg = h.felt("z"), h.felt("tds"), h.felt("tg")
    inp = {"oods": oods, "ie": ie, "pi": pi, "cc": cc, "z": z, "tds": tds, "tg": tg}
    inp["_request"] = lambda c: [{"fn": "verify_oods", "oods": to_json(c["oods"]), "interaction_elements": to_json(c["ie"]), "public_input": to_json(c["pi"]),
                                  "constraint_coefficients": to_json(c["cc"]), "oods_point": to_json(c["z"]), "trace_domain_size": to_json(c["tds"]),
                                  "trace_generator": to_json(c["tg"])}]
    return inp, lambda: h.call(sxh.F_OODS, "verify_oods", [oods, ie, pi, cc, z, tds, tg])


def b_pubmem_ratio(h, shape):
    M, hdrs = shape
    pi = pub_input(h, "pi", 0, M, hdrs)
    z, alpha, size = h.felt("z"), h.felt("alpha"), h.felt("size")
    inp = {"pi": pi, "z": z, "alpha": alpha, "size": size}
    inp["_request"] = lambda c: [{"fn": "pub_mem_ratio", "public_input": to_json(c["pi"]), "z": to_json(c["z"]), "alpha": to_json(c["alpha"]),
                                  "column_size": to_json(c["size"])}]
    return inp, lambda: h.call(sxh.F_PUBMEM, "get_public_memory_product_ratio", [z, alpha, size], owner="PublicInput", self_val=pi)


def layout_file(h):
    return h.w.layout_mod.rel


def b_validate_pi(h, shape):
    nseg = shape
    pi = pub_input(h, "pi", nseg, 0, 0)
    sd = h.struct(sxh.F_DOMAINS, "StarkDomains", "sd", {})
    inp = {"pi": pi, "sd": sd}
    inp["_request"] = lambda c: [{"fn": "validate_public_input", "layout": "recursive", "public_input": to_json(c["pi"]), "stark_domains": to_json(c["sd"])}]
    return inp, lambda: h.call(layout_file(h), "validate_public_input", [pi, sd], owner="Layout")


def b_verify_pi(h, shape):
    nseg, M, hdrs = shape
    pi = pub_input(h, "pi", nseg, M, hdrs)
    inp = {"pi": pi}
    inp["_request"] = lambda c: [{"fn": "verify_public_input", "layout": "recursive", "public_input": to_json(c["pi"])}]
    return inp, lambda: h.call(layout_file(h), "verify_public_input", [pi], owner="Layout")


def b_fri_formula(h, shape):
    n, pre = shape
    vals = h.felts("v", n)
    ep, xi, cs = h.felt("eval_point"), h.felt("x_inv"), h.felt("coset_size")
    if pre:
        h.ex.assume(z3.Or(*[zi(cs) == k for k in (2, 4, 8, 16)]))
    inp = {"vals": vals, "ep": ep, "xi": xi, "cs": cs}
    inp["_request"] = lambda c: [{"fn": "fri_formula", "values": to_json(c["vals"]), "eval_point": to_json(c["ep"]), "x_inv": to_json(c["xi"]),
                                  "coset_size": to_json(c["cs"])}]
    return inp, lambda: h.call(sxh.F_FORMULA, "fri_formula", [vals, ep, xi, cs])


def b_vector_decommit(h, shape):
    nq, na, height = shape
    com = h.struct(sxh.F_VTYPES, "Commitment", "com", {"com.config.height": F(height)})
    qs = RList([h.struct(sxh.F_VTYPES, "Query", "q%d" % i, {}) for i in range(nq)])
    wit = h.struct(sxh.F_VTYPES, "Witness", "wit", {"wit.authentications": na})
    for k in range(nq):
        h.ex.assume(zi(qs[k].fields["index"]) < 2**height)
        if k:
            h.ex.assume(zi(qs[k - 1].fields["index"]) < zi(qs[k].fields["index"]))
    inp = {"com": com, "qs": qs, "wit": wit}
    inp["_request"] = lambda c: [{"fn": "vector_commitment_decommit", "commitment": to_json(c["com"]), "queries": to_json(c["qs"]), "witness": to_json(c["wit"])}]
    return inp, lambda: h.call(sxh.F_VDECOMMIT, "vector_commitment_decommit", [com, qs, wit])


def b_table_decommit(h, shape):
    nq, nv, na, height = shape
    com = h.struct(sxh.F_TTYPES, "Commitment", "com", {"com.vector_commitment.config.height": F(height)})
    qs = h.felts("q", nq)
    dec = h.struct(sxh.F_TTYPES, "Decommitment", "dec", {"dec.values": nv})
    wit = h.struct(sxh.F_TTYPES, "Witness", "wit", {"wit.vector.authentications": na})
    for k in range(nq):
        h.ex.assume(zi(qs[k]) < 2**height)
        if k:
            h.ex.assume(zi(qs[k - 1]) < zi(qs[k]))
    inp = {"com": com, "qs": qs, "dec": dec, "wit": wit}
    inp["_request"] = lambda c: [{"fn": "table_decommit", "commitment": to_json(c["com"]), "queries": to_json(c["qs"]), "decommitment": to_json(c["dec"]),
                                  "witness": to_json(c["wit"])}]
    return inp, lambda: h.call(sxh.F_TDECOMMIT, "table_decommit", [com, qs, dec, wit])


def b_next_layer(h, shape):
    nq, ns, step = shape
    qm = h.w.mod(sxh.F_LAYER)
    qs = RList([h.struct(sxh.F_LAYER, "FriLayerQuery", "q%d" % i, {}) for i in range(nq)])
    sib = h.felts("sib", ns)
    group = h.call("crates/fri/src/group.rs", "get_fri_group", [])
    ep = h.felt("eval_point")
    params = SStruct("FriLayerComputationParams", {"coset_size": F(2**step), "fri_group": group, "eval_point": ep}, qm)
    for k in range(nq):
        h.ex.assume(zi(qs[k].fields["index"]) < 64)
        if k:
            h.ex.assume(zi(qs[k - 1].fields["index"]) < zi(qs[k].fields["index"]))
    inp = {"qs": qs, "sib": sib, "ep": ep, "cs": F(2**step)}
    inp["_request"] = lambda c: [{"fn": "compute_next_layer", "queries": to_json(c["qs"]), "sibling_witness": to_json(c["sib"]),
                                  "coset_size": to_json(c["cs"]), "eval_point": to_json(c["ep"])}]
    return inp, lambda: h.call(sxh.F_LAYER, "compute_next_layer", [qs, sib, params])


def standalone_entries():
    """fri_commit / queries_to_points taken alone under `config accepted by validate` only: used as the informational variants of the
    chained entries in c18deep (a panic here that the caller in StarkProof::verify excludes is listed, not counted)"""
    s3 = small(3)
    big = lambda lnc: {"steps": [0] + [4] * 11, "bound": 15, "lnc": lnc}
    cfg_shapes = [(1, 2), (2, 3), {"steps": [0, 1], "bound": 0, "lnc": 1}, big(5), big(6), {"steps": [0] + [4] * 14, "bound": 15, "lnc": 16}]
    E = []
    E.append(Entry("queries_to_points", [sxh.F_QUERIES + "::queries_to_points"], [((1, 2), 1), ((1, 2), 2), (cfg_shapes[2], 2), (big(5), 1), (big(6), 1), (cfg_shapes[-1], 1)], b_queries_to_points,
                   pre="StarkConfig::validate Ok; domains from the config; queries < eval_domain_size (as produced by generate_queries)", int_bound=16,
                   bounds="1..2 queries; symbolic 2-layer configs and concrete geometries with log_eval_domain_size in {2, 64, 65, 87}"))
    E.append(Entry("fri_commit", [sxh.F_FRI + "::fri_commit", sxh.F_FRI + "::fri_commit_rounds"], list(itertools.product(s3, s3, s3, s3)), b_fri_commit,
                   pre="fri::Config::validate(config, log_n_cosets, nvf) is Ok", int_bound=8, budget_s=240,
                   bounds="config.inner_layers, config.fri_step_sizes, unsent inner_layers, last_layer_coefficients lengths in 0..=3 independently"))
    return dict((e.name, e) for e in E)


def entries(tier):
    s3 = small(3)
    E = []
    E.append(Entry("fri_config_validate", [sxh.F_FRICFG + "::Config::validate"], list(itertools.product(s3, s3)), b_fri_validate,
                   bounds="inner_layers.len(), fri_step_sizes.len() in 0..=3 independently; every number a symbolic felt"))
    E.append(Entry("stark_config_validate", [sxh.F_STARKCFG + "::StarkConfig::validate"], list(itertools.product(s3, s3)), b_stark_validate,
                   bounds="fri.inner_layers.len(), fri.fri_step_sizes.len() in 0..=3 independently; every number symbolic",
                   int_bound=16))
    big = lambda lnc: {"steps": [0] + [4] * 11, "bound": 15, "lnc": lnc}
    cfg_shapes = [(1, 2), (2, 3), {"steps": [0, 1], "bound": 0, "lnc": 1}, big(5), big(6), {"steps": [0] + [4] * 14, "bound": 15, "lnc": 16}]
    E.append(Entry("stark_domains_new", [sxh.F_DOMAINS + "::StarkDomains::new"], cfg_shapes, b_domains,
                   pre="StarkConfig::validate(config) is Ok; domains from config.log_trace_domain_size / log_n_cosets", int_bound=16,
                   bounds="symbolic FRI shapes (inner_layers, step sizes) (1,2), (2,3) and concrete geometries with log_eval_domain_size in {2, 64, 65, 87}"))
    E.append(Entry("generate_queries", [sxh.F_QUERIES + "::generate_queries"], [cfg_shapes[0], cfg_shapes[2], cfg_shapes[-1]], b_generate_queries,
                   pre="StarkConfig::validate Ok; query_upper_bound = StarkDomains::new(..).eval_domain_size", int_bound=16,
                   bounds="n_queries <= 3 (of the validated 1..=48); transcript state symbolic"))
    E.append(Entry("verify_pow", [sxh.F_POW + "::verify_pow"], [True], b_verify_pow, pre="pow::Config::validate Ok (20 <= n_bits <= 50)",
                   bounds="digest, nonce symbolic; n_bits symbolic u8",
                   info=Entry("verify_pow", [sxh.F_POW + "::verify_pow"], [False], b_verify_pow, pre="none (n_bits full u8)")))
    E.append(Entry("pow_commit", [sxh.F_POW + "::UnsentCommitment::commit"], [None], b_pow_commit, pre="pow::Config::validate Ok",
                   bounds="transcript, nonce, n_bits symbolic"))
    E.append(Entry("verify_oods", [sxh.F_OODS + "::verify_oods"], list(range(0, 8)), b_verify_oods, toy=True, abstract=toy_abstract, types=toy_types,
                   pre="none (oods_values come straight from the proof)", bounds="ToyLayout (MASK_SIZE 3, evaluators uninterpreted); oods.len() in 0..=7"))
    E.append(Entry("get_public_memory_product_ratio", [sxh.F_PUBMEM + "::get_public_memory_product_ratio"], list(itertools.product(s3, small(2))),
                   b_pubmem_ratio, pre="none", bounds="main page 0..3 cells, 0..2 continuous headers; z, alpha, column size symbolic"))
    E.append(Entry("validate_public_input", ["crates/air/src/layout/recursive/mod.rs::validate_public_input"], [0, 1, 3, 5, 6, 7], b_validate_pi,
                   pre="none (taken alone)", bounds="recursive layout; segments.len() in {0,1,3,5,6,7}; all numbers symbolic"))
    E.append(Entry("verify_public_input", ["crates/air/src/layout/recursive/mod.rs::verify_public_input"],
                   [(0, 1, 0), (2, 1, 0), (6, 0, 0), (6, 1, 0), (6, 2, 0), (6, 3, 0), (6, 2, 1)], b_verify_pi,
                   pre="none (taken alone)", bounds="recursive layout; segments.len() in {0,2,6}; main page 0..3 cells; 0..1 headers"))
    E.append(Entry("fri_formula", [sxh.F_FORMULA + "::fri_formula"], [(n, True) for n in range(0, 5)] + [(16, True), (17, True)], b_fri_formula, int_bound=17,
                   pre="coset_size in {2,4,8,16} (2^step for a validated step size)", bounds="values.len() in 0..=4, 16, 17; contents symbolic",
                   info=Entry("fri_formula", [sxh.F_FORMULA + "::fri_formula"], [(n, False) for n in range(0, 3)], b_fri_formula, int_bound=17,
                              pre="none (coset_size any felt)")))
    E.append(Entry("vector_commitment_decommit", [sxh.F_VDECOMMIT + "::vector_commitment_decommit"],
                   [(q, a, hgt) for hgt in (0, 1, 2) for q in (0, 1, 2) for a in s3], b_vector_decommit, max_paths=600,
                   pre="query indices strictly increasing and < 2^height (as produced by generate_queries / the FRI coset indices)",
                   bounds="height in 0..=2 concrete, 0..2 queries (index/value symbolic), authentications 0..=3"))
    E.append(Entry("table_decommit", [sxh.F_TDECOMMIT + "::table_decommit"], [(q, v, a, hgt) for hgt in (0, 1) for q in (0, 1, 2) for v in s3 for a in (0, 1, 2)],
                   b_table_decommit, max_paths=600, pre="query indices strictly increasing and < 2^height", bounds="height in 0..=1, 0..2 queries, values 0..=3, authentications 0..=2; n_columns symbolic"))
    E.append(Entry("compute_next_layer", [sxh.F_LAYER + "::compute_next_layer", sxh.F_LAYER + "::compute_coset_elements"],
                   [(q, s, st) for st in (1, 2) for q in (0, 1, 2) for s in s3], b_next_layer, int_bound=17, max_paths=600,
                   pre="queries sorted, index < 64; coset size 2^step with step in {1,2} (validated range)", bounds="0..2 queries, 0..3 sibling leaves"))
    return E


_TODO = []


def _run_idx(args):
    i, tier = args
    return _run_one((_TODO[i], tier))


def _run_one(args):
    en, tier = args
    t0 = time.time()
    try:
        got = run_entry(en, tier)
    except common.ReplayUnavailable as r:
        ob = obligation("C18.%s" % en.name, en.name, en.functions, en.bounds)
        got = [finish(ob, "inconclusive", None, detail="native replay unavailable: %s" % r, solver="-")]
    except Exception as e:      # noqa - an internal error of one entry point must not hide the others
        ob = obligation("C18.%s" % en.name, en.name, en.functions, en.bounds)
        got = [finish(ob, "inconclusive", None, detail="internal error: %s" % traceback.format_exc()[-600:], solver="-")]
    for o in got:
        o["entry_wall_s"] = round(time.time() - t0, 1)
    return got


def run(tier, only=None):
    import c18deep
    import c18layout
    import multiprocessing as mp
    todo = [en for en in entries(tier) + c18deep.entries(tier) + c18layout.entries(tier) if not only or en.name in only]
    try:
        for lay_ in sorted(set(en.layout for en in todo)):
            common.replay_binary([lay_])       # build once per layout, before forking
    except common.ReplayUnavailable:
        pass
    global _TODO
    _TODO = todo
    obs = []
    if len(todo) > 1:
        with mp.get_context("fork").Pool(min(len(todo), max(2, (os.cpu_count() or 4) - 2))) as pool:
            for got in pool.imap(_run_idx, [(i, tier) for i in range(len(todo))]):
                obs += got
    else:
        for en in todo:
            obs += _run_one((en, tier))
    return {"property": "C18", "tier": tier, "engine": "felt-sx", "assumptions": ASSUMPTIONS, "obligations": obs,
            "outside": ["real layouts' eval_composition_polynomial / autogenerated evaluators (constant indices; length precondition = C01S)",
                        "allocation failure, stack depth", "vector lengths above 3 (15 for the FRI config shapes)"]}
