"""C13 - the public-input digest binds every field (felt-sx executor on the real PublicInput::get_hash)."""
import time

import z3

import common
from common import Stats, check, finish, guarded, obligation, replay, hx, rng, P
from rsparse import Unsupported
from symex import F, RList, ResultV
from sx import Exec, ASSUMPTIONS
from sxlib import Builder, concretize, to_json, random_fill, mval
from sxval import SF, SI, SStruct, zi
from sxworld import World, DEFAULT_FEATURES

PUBMEM = "crates/air/src/public_memory.rs"
DYNAMIC = "crates/air/src/dynamic.rs"
FN = PUBMEM + "::PublicInput::get_hash"


def features_for(stone):
    return (DEFAULT_FEATURES - {"stone5", "stone6"}) | {stone}


def run_hash(ex, tag, shape, dyn=False):
    """execute get_hash on a fresh symbolic public input; returns (digest value, input struct, nvf, builder, events)"""
    w = ex.world
    pm = w.mod(PUBMEM)
    res = {}
    def entry(ex):
        b = Builder(ex)
        sh = {tag + ".segments": shape[0], tag + ".main_page": shape[1], tag + ".continuous_page_headers": shape[2]}
        if dyn:
            sh[tag + ".dynamic_params?"] = True
        pi = b.struct(pm, "PublicInput", tag, sh)
        nvf = b.felt(tag + "#n_verifier_friendly_commitment_layers")
        res["pi"], res["nvf"], res["b"] = pi, nvf, b
        fn = pm.methods.get(("PublicInput", "get_hash"))
        if fn is None:
            raise Unsupported(pm.file, 0, "PublicInput::get_hash not found")
        return ex.call_fn(fn, pm, [nvf], fn.line, self_val=pi)
    outs = ex.explore(entry, max_paths=4)
    if len(outs) != 1 or outs[0].kind != "ok":
        raise Unsupported(pm.file, 0, "get_hash is expected to have exactly one non-failing path, got %r" % (outs,))
    res["events"] = outs[0].events
    return outs[0].value, res


def leaf_pairs(bA, bB, tagA, tagB):
    """[(field path, termA, termB)] for all symbolic leaves, matched by name"""
    mb = dict((n[len(tagB):], t) for n, k, t in bB.vars)
    out = []
    for n, k, t in bA.vars:
        key = n[len(tagA):]
        if key not in mb:
            raise Unsupported("?", 0, "leaf %s has no counterpart" % n)
        out.append((key.lstrip(".#"), t, mb[key]))
    return out


def classify(path, stone):
    """is this leaf one the statement requires to be bound?"""
    if path.endswith(".prod"):
        return False          # cumulative product: by design not part of the digest (reported as a note)
    if path == "n_verifier_friendly_commitment_layers":
        return stone == "stone6"
    return True


def native_hash_requests(pi, nvf):
    return {"fn": "get_hash", "public_input": to_json(pi), "n_verifier_friendly_commitment_layers": hx(nvf.v)}


def stone_layouts(stone):
    return ["recursive"] + (["stone6"] if stone == "stone6" else [])


def translator_validation(stone, shapes, dyn_shape=None):
    """>= 2 seeded concrete inputs through the Python executor (real hash values from replay_e2) and the real get_hash"""
    w = World(features=features_for(stone))
    orc = common.HashOracle(stone_layouts(stone))
    bad = []
    n = 0
    try:
        pm = w.mod(PUBMEM)
        r = rng("C13.tv." + stone)
        for shape, dyn in [(s, False) for s in shapes] + ([(dyn_shape, True)] if dyn_shape else []):
            ex = Exec(w, hash_oracle=orc)
            hold = {}
            def entry(ex):
                b = Builder(ex)
                sh = {"T.segments": shape[0], "T.main_page": shape[1], "T.continuous_page_headers": shape[2]}
                if dyn:
                    sh["T.dynamic_params?"] = True
                pi = b.struct(pm, "PublicInput", "T", sh)
                pi = random_fill(pi, r) if not dyn else random_fill(pi, r)
                if dyn:
                    dp = pi.fields["dynamic_params"].value
                    for k in dp.fields:
                        dp.fields[k] = r.randrange(2**32)
                hold["pi"] = pi
                hold["nvf"] = F(r.randrange(P))
                fn = pm.methods[("PublicInput", "get_hash")]
                return ex.call_fn(fn, pm, [hold["nvf"]], fn.line, self_val=pi)
            out = ex.run_concrete(entry)
            ans = replay([native_hash_requests(hold["pi"], hold["nvf"])], stone_layouts(stone))[0]
            n += 1
            if out.kind != "ok" or not isinstance(out.value, F) or ans.get("ok") != hx(out.value.v):
                bad.append("shape %s dyn=%s: executor %r vs real %s" % (shape, dyn, out.value if out.kind == "ok" else out, ans))
    finally:
        orc.close()
    return n, bad


def ob_binding(stone, shapes):
    ob = obligation("C13.a.binding." + stone,
                    "two public inputs of the same shape with equal digests agree on log_n_steps, rc_min, rc_max, layout, every segment "
                    "begin/stop, padding cell, every (address,value), every header's (start_address,size,hash)"
                    + (", n_verifier_friendly_commitment_layers" if stone == "stone6" else ""),
                    [FN], "feature %s; shapes (segments, main page cells, continuous headers) in %s; dynamic_params None; all fields symbolic felts; "
                    "hashes collision-free UF" % (stone, shapes))
    def body(ob):
        st = Stats()
        w = World(features=features_for(stone))
        ex = Exec(w)
        disj, info = [], []
        notes = set()
        unbound_sat = []
        for shape in shapes:
            tagA, tagB = "A%d_%d_%d" % shape, "B%d_%d_%d" % shape
            hA, rA = run_hash(ex, tagA, shape)
            hB, rB = run_hash(ex, tagB, shape)
            pairs = leaf_pairs(rA["b"], rB["b"], tagA, tagB)
            eq = zi(hA) == zi(hB)
            must = [(p, a, b) for p, a, b in pairs if classify(p, stone)]
            free = [(p, a, b) for p, a, b in pairs if not classify(p, stone)]
            d = z3.And(eq, z3.Or(*[a != b for _, a, b in must]))
            disj.append(d)
            info.append((shape, rA, rB, must, free, eq))
        base = ex.base + ex.axioms
        verdict, model = check(base + [z3.Or(*disj)], st, timeout_s=120, want_model=True)
        # notes: which leaves are NOT bound (expected: prod; under stone5 the friendly-layer count)
        shape, rA, rB, must, free, eq = info[-1]
        for p, a, b in free:
            v2, _ = check(base + [eq, a != b] + [x == y for q, x, y in must], st, timeout_s=30, xcheck=False)
            notes.add("%s is %s by the digest" % (p.split("]")[-1].lstrip("."), "NOT bound" if v2 == "sat" else "bound" if v2 == "unsat" else "undecided"))
        n, bad = translator_validation(stone, [shapes[0], shapes[-1]])
        tv = "translator validated on %d seeded inputs" % n
        if bad:
            return finish(ob, "inconclusive", st, detail="translator validation FAILED: " + "; ".join(bad))
        if verdict == "unsat":
            return finish(ob, "holds", st, detail="one query over %d shapes: unsat; notes: %s; %s" % (len(shapes), "; ".join(sorted(notes)), tv))
        if verdict != "sat":
            return finish(ob, "inconclusive", st, detail="solver gave no verdict")
        # counterexample: find the shape whose disjunct holds, replay both inputs on the real get_hash
        for (shape, rA, rB, must, free, eq), d in zip(info, disj):
            if mval(model, d):
                piA, piB = concretize(rA["pi"], model), concretize(rB["pi"], model)
                nA, nB = concretize(rA["nvf"], model), concretize(rB["nvf"], model)
                diff = [p for p, a, b in must if mval(model, a) != mval(model, b)]
                reqs = [native_hash_requests(piA, nA), native_hash_requests(piB, nB)]
                ans = replay(reqs, stone_layouts(stone))
                rep = {"reproduced": "ok" in ans[0] and ans[0] == ans[1], "requests": reqs, "real_output": ans,
                       "expected": "different digests (inputs differ in %s)" % diff}
                cex = {"shape": shape, "differing_fields": diff, "A": reqs[0], "B": reqs[1]}
                if rep["reproduced"]:
                    return finish(ob, "violated", st, detail="inputs differing in %s have the same real digest; %s" % (diff, tv), cex=cex, replay_rec=rep)
                return finish(ob, "inconclusive", st, detail="solver counterexample (fields %s) does not reproduce on the real get_hash "
                              "(encoding problem)" % diff, cex=cex, replay_rec=rep)
        return finish(ob, "inconclusive", st, detail="sat but no disjunct identified")
    return guarded(ob, body)


def ob_deterministic(stone, shape):
    ob = obligation("C13.a.deterministic." + stone, "equal public inputs have equal digests",
                    [FN], "feature %s; shape %s; UF congruence" % (stone, shape,))
    def body(ob):
        st = Stats()
        ex = Exec(World(features=features_for(stone)))
        hA, rA = run_hash(ex, "A", shape)
        hB, rB = run_hash(ex, "B", shape)
        pairs = leaf_pairs(rA["b"], rB["b"], "A", "B")
        v, _ = check(ex.base + ex.axioms + [a == b for _, a, b in pairs] + [zi(hA) != zi(hB)], st, timeout_s=60)
        return finish(ob, "holds" if v == "unsat" else "inconclusive" if v != "sat" else "violated", st,
                      detail="all leaves equal and digests different: %s" % v)
    return guarded(ob, body)


def ob_lengths(stone, shapes):
    ob = obligation("C13.b.lengths." + stone, "inputs with different main-page lengths or different numbers of continuous-page headers "
                    "have different digests", [FN],
                    "feature %s; all ordered pairs of different (main page, headers) shapes among %s with the same segment count" % (stone, shapes))
    def body(ob):
        st = Stats()
        ex = Exec(World(features=features_for(stone)))
        runs = {}
        for k, shape in enumerate(shapes):
            runs[shape] = run_hash(ex, "L%d" % k, shape)
        disj, pairs = [], []
        for s1 in shapes:
            for s2 in shapes:
                if s1 < s2 and s1[0] == s2[0] and (s1[1] != s2[1] or s1[2] != s2[2]):
                    disj.append(zi(runs[s1][0]) == zi(runs[s2][0]))
                    pairs.append((s1, s2))
        v, model = check(ex.base + ex.axioms + [z3.Or(*disj)], st, timeout_s=120, want_model=True)
        if v == "unsat":
            return finish(ob, "holds", st, detail="%d shape pairs in one query: unsat" % len(pairs))
        if v != "sat":
            return finish(ob, "inconclusive", st, detail="no verdict")
        for (s1, s2), d in zip(pairs, disj):
            if mval(model, d):
                p1, p2 = concretize(runs[s1][1]["pi"], model), concretize(runs[s2][1]["pi"], model)
                reqs = [native_hash_requests(p1, concretize(runs[s1][1]["nvf"], model)), native_hash_requests(p2, concretize(runs[s2][1]["nvf"], model))]
                ans = replay(reqs, stone_layouts(stone))
                rep = {"reproduced": "ok" in ans[0] and ans[0] == ans[1], "requests": reqs, "real_output": ans}
                return finish(ob, "violated" if rep["reproduced"] else "inconclusive", st,
                              detail="shapes %s and %s collide" % (s1, s2), cex={"A": reqs[0], "B": reqs[1]}, replay_rec=rep)
        return finish(ob, "inconclusive", st, detail="sat but no pair identified")
    return guarded(ob, body)


def ob_dynamic_flatten():
    ob = obligation("C13.c.flatten", "Vec::<usize>::from(DynamicParams) has exactly one entry per struct field, in declaration order",
                    [DYNAMIC + "::impl From<DynamicParams> for Vec<usize>"],
                    "every field a symbolic usize; field list parsed from the struct definition")
    def body(ob):
        st = Stats()
        w = World()
        ex = Exec(w)
        dm = w.mod(DYNAMIC)
        fields = dm.struct_fields.get("DynamicParams")
        if not fields:
            raise Unsupported(dm.file, 0, "struct DynamicParams not found")
        hold = {}
        def entry(ex):
            b = Builder(ex)
            dp = b.struct(dm, "DynamicParams", "dp", {})
            hold["dp"] = dp
            return ex.convert_into(dp, "Vec<usize>", 0)
        outs = ex.explore(entry, max_paths=4)
        if len(outs) != 1 or outs[0].kind != "ok" or not isinstance(outs[0].value, list):
            raise Unsupported(dm.file, 0, "conversion did not produce a vector: %r" % outs)
        vec = outs[0].value
        if len(vec) != len(fields):
            # native confirmation
            dpc = random_fill(hold["dp"], rng("C13.c"), small=1000)
            req = {"fn": "dynamic_params_to_vec", "params": to_json(dpc)}
            ans = replay([req], ["recursive"])[0]
            rep = {"reproduced": isinstance(ans.get("ok"), list) and len(ans["ok"]) != len(fields), "request": req, "real_output": ans}
            return finish(ob, "violated" if rep["reproduced"] else "inconclusive", st,
                          detail="flattened vector has %d entries, the struct %d fields" % (len(vec), len(fields)), replay_rec=rep)
        bad = z3.Or(*[zi(vec[i]) != zi(hold["dp"].fields[f]) for i, f in enumerate(fields)])
        v, model = check(ex.base + ex.axioms + [bad], st, timeout_s=60, want_model=True)
        if v == "unsat":
            # translator validation on the real conversion
            r = rng("C13.c")
            fails = []
            for _ in range(2):
                dpc = random_fill(hold["dp"], r, small=2**32)
                ans = replay([{"fn": "dynamic_params_to_vec", "params": to_json(dpc)}], ["recursive"])[0]
                if ans.get("ok") != [dpc.fields[f] for f in fields]:
                    fails.append(str(ans)[:200])
            if fails:
                return finish(ob, "inconclusive", st, detail="translator validation failed: %s" % fails)
            return finish(ob, "holds", st, detail="%d fields; out[i] != field_i unsat; real conversion agrees on 2 seeded inputs" % len(fields))
        if v != "sat":
            return finish(ob, "inconclusive", st, detail="no verdict")
        dpc = concretize(hold["dp"], model)
        req = {"fn": "dynamic_params_to_vec", "params": to_json(dpc)}
        ans = replay([req], ["recursive"])[0]
        exp = [dpc.fields[f] for f in fields]
        rep = {"reproduced": ans.get("ok") != exp, "request": req, "real_output": ans, "expected": exp}
        wrong = [f for i, f in enumerate(fields) if mval(model, zi(vec[i])) != mval(model, zi(hold["dp"].fields[f]))]
        return finish(ob, "violated" if rep["reproduced"] else "inconclusive", st, detail="entries out of declaration order at %s" % wrong[:5],
                      cex={"fields": wrong[:10]}, replay_rec=rep)
    return guarded(ob, body)


def ob_dynamic_hash(stone):
    ob = obligation("C13.c.hashed." + stone, "get_hash with Some(dynamic params) hashes the flattened parameters right after `layout`; two inputs "
                    "differing in one dynamic parameter have different digests", [FN, DYNAMIC],
                    "feature %s; shape (2 segments, 1 cell, 0 headers); every parameter a symbolic usize" % stone)
    def body(ob):
        st = Stats()
        w = World(features=features_for(stone))
        ex = Exec(w)
        shape = (2, 1, 0)
        hA, rA = run_hash(ex, "A", shape, dyn=True)
        hB, rB = run_hash(ex, "B", shape, dyn=True)
        fields = w.mod(DYNAMIC).struct_fields["DynamicParams"]
        dpA = rA["pi"].fields["dynamic_params"].value
        dpB = rB["pi"].fields["dynamic_params"].value
        # position: the last poseidon_many event of run A is the digest; its items must contain layout followed by the parameters
        ev = [e for e in rA["events"] if e[0] == "poseidon_many"][-1]
        items = ev[1]
        lay = rA["pi"].fields["layout"]
        pos = [i for i, x in enumerate(items) if isinstance(x, SF) and x.t.eq(lay.t)]
        detail = []
        ok_pos = len(pos) == 1 and len(items) >= pos[0] + 1 + len(fields)
        if ok_pos:
            q = z3.Or(*[zi(items[pos[0] + 1 + i]) != zi(dpA.fields[f]) for i, f in enumerate(fields)])
            v0, _ = check(ex.base + ex.axioms + [q], st, timeout_s=60)
            ok_pos = v0 == "unsat"
            detail.append("hashed vector = [.., layout, %d parameters in declaration order, ..]: %s" % (len(fields), v0))
        pairs = leaf_pairs(rA["b"], rB["b"], "A", "B")
        dyn_pairs = [(p, a, b) for p, a, b in pairs if p.startswith("dynamic_params.")]
        v, model = check(ex.base + ex.axioms + [zi(hA) == zi(hB), z3.Or(*[a != b for _, a, b in dyn_pairs])], st, timeout_s=120, want_model=True)
        n, bad = translator_validation(stone, [], dyn_shape=shape)
        if bad:
            return finish(ob, "inconclusive", st, detail="translator validation FAILED: " + "; ".join(bad))
        if v == "unsat" and ok_pos:
            return finish(ob, "holds", st, detail="; ".join(detail) + "; equal digests with a differing parameter: unsat; translator validated on 1 seeded input")
        if v == "sat":
            piA, piB = concretize(rA["pi"], model), concretize(rB["pi"], model)
            reqs = [native_hash_requests(piA, concretize(rA["nvf"], model)), native_hash_requests(piB, concretize(rB["nvf"], model))]
            ans = replay(reqs, stone_layouts(stone))
            diff = [p for p, a, b in dyn_pairs if mval(model, a) != mval(model, b)]
            rep = {"reproduced": "ok" in ans[0] and ans[0] == ans[1], "requests": reqs, "real_output": ans}
            return finish(ob, "violated" if rep["reproduced"] else "inconclusive", st, detail="parameters %s not bound" % diff[:5],
                          cex={"differing": diff[:10]}, replay_rec=rep)
        if v == "unsat" and not ok_pos:
            # position property fails although binding holds: observable natively as a digest differing from the reference order
            return finish(ob, "inconclusive", st, detail="; ".join(detail) + "; parameters are bound but not at the position right after `layout` "
                          "(cannot be observed on the real function without the prover's reference digest)")
        return finish(ob, "inconclusive", st, detail="no verdict")
    return guarded(ob, body)


def run(tier):
    t0 = time.time()
    S = [1, 2, 6]
    shapes = [(s, m, h) for s in S for m in (0, 1, 2) for h in (0, 1)]
    if tier == "thorough":
        shapes += [(s, m, h) for s in (6, 9, 11) for m in (3, 4) for h in (2,)]
    obs = []
    for stone in ("stone5", "stone6"):
        obs.append(ob_binding(stone, shapes))
        obs.append(ob_deterministic(stone, (2, 2, 1)))
        obs.append(ob_lengths(stone, [(2, m, h) for m in (0, 1, 2, 3) for h in (0, 1, 2)]))
    obs.append(ob_dynamic_flatten())
    for stone in ("stone5", "stone6"):
        obs.append(ob_dynamic_hash(stone))
    return {"property": "C13", "tier": tier, "engine": "felt-sx (symbolic execution of the parsed Rust, z3 integers + collision-free UF hashes)",
            "assumptions": ASSUMPTIONS, "obligations": obs,
            "outside": ["agreement of the seed with recorded prover challenges (concrete file replay)", "main pages longer than the enumerated shapes "
                        "(the Pedersen chain is uniform)", "blake2s builds (get_hash does not depend on the commitment hash feature)"]}
