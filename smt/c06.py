"""C06 (FRI fold identity, Horner) and C07-O3 (Horner perturbation) - engine E2."""
import z3

import rsparse
from algebras import RealAlg, RingAlg, Unmappable
from common import (P, Stats, check, finish, guarded, hx, inv, model_value_to_fp, obligation,
                    ok_int, rel, replay, repo_path, rng, ReplayUnavailable)
from symex import F, Interp, ResultV, RList, RustPanic, explore, Struct

FORMULA = "crates/fri/src/formula.rs"
GROUP = "crates/fri/src/group.rs"
FIRST = "crates/fri/src/first_layer.rs"
LAST = "crates/fri/src/last_layer.rs"


def modules():
    return dict((k, rsparse.parse_file(repo_path(k))) for k in (FORMULA, GROUP, FIRST, LAST))


def parsed_constants(mods):
    it = Interp(modules=[mods[FORMULA], mods[FIRST]])
    om = {}
    for name in ("OMEGA_16", "OMEGA_8", "OMEGA_4"):
        v = it.const_value(name, 0)
        if not isinstance(v, F):
            raise rsparse.Unsupported(repo_path(FORMULA), 0, "constant %s not found / not a Felt literal" % name)
        om[name] = v.v
    gi = it.const_value("FIELD_GENERATOR_INVERSE", 0)
    if not isinstance(gi, F):
        raise rsparse.Unsupported(repo_path(FIRST), 0, "constant FIELD_GENERATOR_INVERSE not found")
    git = Interp(modules=[mods[GROUP]])
    fn = mods[GROUP].fns.get("get_fri_group")
    if fn is None:
        raise rsparse.Unsupported(repo_path(GROUP), 0, "get_fri_group not found")
    grp = git.run(fn, [])
    if not isinstance(grp, list) or not all(isinstance(x, F) for x in grp):
        raise rsparse.Unsupported(repo_path(GROUP), fn.line, "get_fri_group does not return a vector of literals")
    return om, gi.v, [x.v for x in grp]


def bitrev(i, bits):
    return int(format(i, "0%db" % bits)[::-1], 2) if bits else 0


# --------------------------------------------------------------------------- concrete lemmas
def ob_lemmas(mods):
    ob = obligation("C06.group.lemmas",
                    "CONCRETE LEMMAS (big-integer evaluation of the parsed literals, no solver): "
                    "OMEGA_16^8 = -1, OMEGA_8 = OMEGA_16^2, OMEGA_4 = OMEGA_16^4, fri_group[i] = OMEGA_16^(e_i) with "
                    "e_i = -bitrev4(i) mod 16 (bit-reversed order-16 subgroup; first 2^k entries = subgroup of order 2^k), "
                    "FIELD_GENERATOR_INVERSE * 3 = 1 (all mod p)",
                    [FORMULA + "::OMEGA_16/OMEGA_8/OMEGA_4", GROUP + "::get_fri_group", FIRST + "::FIELD_GENERATOR_INVERSE"],
                    "16 + 5 concrete evaluations mod p")
    def body(ob):
        om, gi, grp = parsed_constants(mods)
        w = om["OMEGA_16"]
        bad = []
        if pow(w, 8, P) != P - 1: bad.append("OMEGA_16^8 != -1")
        if om["OMEGA_8"] != pow(w, 2, P): bad.append("OMEGA_8 != OMEGA_16^2")
        if om["OMEGA_4"] != pow(w, 4, P): bad.append("OMEGA_4 != OMEGA_16^4")
        if gi * 3 % P != 1: bad.append("FIELD_GENERATOR_INVERSE*3 != 1")
        if len(grp) != 16: bad.append("fri_group has %d elements" % len(grp))
        exps = []
        for i, g in enumerate(grp):
            e = next((e for e in range(16) if pow(w, e, P) == g), None)
            exps.append(e)
            if e is None:
                bad.append("fri_group[%d] is not a power of OMEGA_16" % i)
            elif len(grp) == 16 and e != (-bitrev(i, 4)) % 16:
                bad.append("fri_group[%d] = OMEGA_16^%d, expected exponent %d" % (i, e, (-bitrev(i, 4)) % 16))
        for k in range(1, 5):
            sub = grp[:2**k]
            if len(set(sub)) != 2**k or any(pow(g, 2**k, P) != 1 for g in sub):
                bad.append("first %d entries are not the subgroup of order %d" % (2**k, 2**k))
        detail = "exponents e_i = %s" % exps
        if bad:
            # A literal is wrong.  Replay = observe the same fact on the real build: the group through
            # get_fri_group(), FIELD_GENERATOR_INVERSE through gather_first_layer_queries, the private
            # OMEGA_* constants through the fold they are used in (real fri_formula on a concrete polynomial).
            rep = None
            try:
                r = rng("lemmas")
                facts, reqs = [], []
                ans = replay([{"fn": "fri_group"}, {"fn": "first_layer_x_inv", "x": "0x7"}])
                native = [int(x, 16) for x in ans[0]["ok"]]
                reqs.append({"fn": "fri_group"})
                if native != grp:
                    facts.append("native get_fri_group() differs from the parsed literals (encoding problem)")
                elif any(b.startswith("fri_group") or b.startswith("first ") for b in bad):
                    facts.append("native get_fri_group() returns the same 16 values: group lemma fails on the real output")
                xi = ok_int(ans[1])
                if xi is not None and gi * 3 % P != 1:
                    gi_native = inv(xi * 7 % P)
                    reqs.append({"fn": "first_layer_x_inv", "x": "0x7"})
                    if gi_native * 3 % P != 1:
                        facts.append("native FIELD_GENERATOR_INVERSE (observed through gather_first_layer_queries) * 3 != 1")
                if any(b.startswith("OMEGA") for b in bad) and len(grp) == 16:
                    for n in (4, 8, 16):
                        cf, b_, x_ = [r.randrange(P) for _ in range(2 * n)], r.randrange(P), r.randrange(1, P)
                        req, a, expv = native_fold_check(grp, n, cf, b_, x_)
                        if ok_int(a) != expv:
                            reqs.append(req)
                            facts.append("real fri_formula, coset size %d, deviates from the fold identity on a concrete polynomial "
                                         "(got %s, expected %s)" % (n, a, hx(expv)))
                reproduced = bool(facts) and not facts[0].startswith("native get_fri_group() differs")
                rep = {"reproduced": reproduced, "request": reqs, "real_output": "; ".join(facts) or "no deviation observed natively",
                       "expected": "; ".join(bad)}
            except (ReplayUnavailable, KeyError, TypeError) as ex:
                detail += " | replay unavailable: %s" % ex
            v = "violated" if rep and rep["reproduced"] else "inconclusive"
            return finish(ob, v, None, detail="; ".join(bad) + " | " + detail, cex={"failed_lemmas": bad}, replay_rec=rep,
                          solver="none (concrete big-integer table)")
        return finish(ob, "holds", None, detail=detail, solver="none (concrete big-integer table)")
    return guarded(ob, body)


# --------------------------------------------------------------------------- fold identity
def run_fri_formula(mods, alg, values, b, xinv, size):
    it = Interp(alg=alg, modules=[mods[FORMULA]])
    fn = mods[FORMULA].fns.get("fri_formula")
    if fn is None:
        raise rsparse.Unsupported(repo_path(FORMULA), 0, "fri_formula not found")
    return it.run(fn, [RList(values), b, xinv, F(size)])


def poly_eval_mod_p(coefs, x):
    r = 0
    for c in reversed(coefs):
        r = (r * x + c) % P
    return r


def fold_expected_mod_p(coefs, b, x, n):
    """n * sum_j b^j P_j(x^n) with P(X) = sum_j X^j P_j(X^n)"""
    y = pow(x, n, P)
    tot = 0
    for j in range(n):
        pj = poly_eval_mod_p(coefs[j::n], y)
        tot = (tot + pow(b, j, P) * pj) % P
    return tot * n % P


def native_fold_check(grp, n, coefs, b, x):
    vals = [poly_eval_mod_p(coefs, x * grp[i] % P) for i in range(n)]
    req = {"fn": "fri_formula", "values": [hx(v) for v in vals], "eval_point": hx(b), "x_inv": hx(inv(x)), "coset_size": hx(n)}
    ans = replay([req])[0]
    exp = fold_expected_mod_p(coefs, b, x, n)
    return req, ans, exp


def ob_fold(mods, k, tier):
    n = 2**k
    deg = 2 * n
    ob = obligation("C06.fold.k%d" % k,
                    "fold identity, coset size %d: for v_i = P(x*g_i), g = parsed get_fri_group()[0..%d], "
                    "fri_formula(v, b, 1/x, %d) = %d * sum_j b^j P_j(x^%d) where P(X) = sum_j X^j P_j(X^%d)" % (n, n, n, n, n, n),
                    [FORMULA + "::fri_formula", FORMULA + "::fri_formula%d" % n if n > 2 else FORMULA + "::fri_formula2",
                     GROUP + "::get_fri_group"],
                    "ALL polynomials P of degree < %d (generic coefficients), ALL challenges b, ALL coset points x != 0; "
                    "coset size %d" % (deg, n))
    def body(ob):
        st = Stats()
        om, gi, grp = parsed_constants(mods)
        r = rng("fold%d" % k)
        # translator validation: parsed function (concrete interpretation) vs real function
        tv = []
        for _ in range(2):
            vals = [r.randrange(P) for _ in range(n)]
            b, xi = r.randrange(P), r.randrange(1, P)
            mine = run_fri_formula(mods, None, [F(v) for v in vals], F(b), F(xi), n)
            req = {"fn": "fri_formula", "values": [hx(v) for v in vals], "eval_point": hx(b), "x_inv": hx(xi), "coset_size": hx(n)}
            tv.append((req, mine))
        answers = replay([q for q, _ in tv])
        for (req, mine), ans in zip(tv, answers):
            if not (isinstance(mine, ResultV) and mine.kind == "Ok" and isinstance(mine.value, F) and ok_int(ans) == mine.value.v):
                return finish(ob, "inconclusive", st, detail="translator validation FAILED (encoding bug): parsed fri_formula gives %r, "
                              "real gives %r on %r" % (mine, ans, req))
        if pow(om["OMEGA_16"], 8, P) != P - 1:
            # the formal t has no meaning: decide natively on a concrete polynomial
            return fold_native_fallback(ob, st, grp, n, deg, r, "OMEGA_16^8 != -1: ring encoding not applicable")
        alg = RingAlg(om["OMEGA_16"])
        a = [z3.Real("a%d" % j) for j in range(deg)]
        b, x = z3.Real("b"), z3.Real("x")
        try:
            xr = alg.scalar(x)
            vals = []
            for i in range(n):
                pt = alg.mul(xr, alg.const(grp[i]))
                acc, pw = None, None
                for j in range(deg):
                    term = alg.scalar(a[j]) if pw is None else alg.mul(alg.scalar(a[j]), pw)
                    acc = term if acc is None else alg.add(acc, term)
                    pw = pt if pw is None else alg.mul(pw, pt)
                vals.append(acc)
            out = run_fri_formula(mods, alg, vals, b, alg.scalar(1 / x), n)
        except Unmappable as u:
            return fold_native_fallback(ob, st, grp, n, deg, r, str(u))
        if not (isinstance(out, ResultV) and out.kind == "Ok"):
            return finish(ob, "violated", st, detail="fri_formula returned %r for a vector of the right length" % (out,))
        got = alg.coeffs(out.value)
        # expected: n * sum_j b^j (a_j + a_{n+j} x^n), a scalar (t-degree 0)
        xn = x
        for _ in range(n - 1):
            xn = xn * x
        exp, bp = None, None
        for j in range(n):
            pj = a[j] + a[n + j] * xn
            term = pj if bp is None else bp * pj
            exp = term if exp is None else exp + term
            bp = b if bp is None else bp * b
        exp = n * exp
        neq = z3.Or([got[0] != exp] + [g != 0 for g in got[1:]])
        verdict, model = check([x != 0, neq], st, timeout_s=120 if tier == "quick" else 600, want_model=True)
        if verdict == "unsat":
            return finish(ob, "holds", st, detail="ring encoding Z[t]/(t^8+1), t := OMEGA_16; unsat; translator validated at 2 points")
        if verdict == "inconclusive":
            return finish(ob, "inconclusive", st, detail="solver gave no verdict")
        # sat: map the model into F_p and replay natively
        coefs = [model_value_to_fp(model.eval(v, model_completion=True)) for v in a]
        bb = model_value_to_fp(model.eval(b, model_completion=True))
        xx = model_value_to_fp(model.eval(x, model_completion=True))
        tries = []
        if None not in coefs and bb is not None and xx not in (None, 0):
            tries.append(("solver model", coefs, bb, xx))
        for t in range(3):
            tries.append(("seeded random point", [r.randrange(P) for _ in range(deg)], r.randrange(P), r.randrange(1, P)))
        for what, cf, b_, x_ in tries:
            req, ans, expv = native_fold_check(grp, n, cf, b_, x_)
            if ok_int(ans) != expv:
                cex = {"source": what, "coefficients": [hx(c) for c in cf], "b": hx(b_), "x": hx(x_)}
                return finish(ob, "violated", st, detail="solver: sat; reproduced natively (%s)" % what, cex=cex,
                              replay_rec={"reproduced": True, "request": req, "real_output": str(ans), "expected": hx(expv)})
        return finish(ob, "inconclusive", st, detail="solver: sat, but the real fri_formula satisfies the identity at the model and at 3 "
                      "random points: encoding problem")
    return guarded(ob, body)


def fold_native_fallback(ob, st, grp, n, deg, r, why):
    for t in range(3):
        cf, b_, x_ = [r.randrange(P) for _ in range(deg)], r.randrange(P), r.randrange(1, P)
        req, ans, expv = native_fold_check(grp, n, cf, b_, x_)
        if ok_int(ans) != expv:
            cex = {"source": "concrete polynomial (constants not mappable into the ring)", "coefficients": [hx(c) for c in cf],
                   "b": hx(b_), "x": hx(x_)}
            return finish(ob, "violated", st, detail=why + "; real fri_formula evaluated natively on a concrete polynomial: mismatch",
                          cex=cex, replay_rec={"reproduced": True, "request": req, "real_output": str(ans), "expected": hx(expv)},
                          solver="none (constant outside the ring encoding; native evaluation)")
    return finish(ob, "inconclusive", st, detail=why + "; native evaluation on 3 concrete polynomials agrees with the identity")


def ob_dispatch(mods):
    ob = obligation("C06.fold.dispatch",
                    "fri_formula dispatch: coset_size in {2,4,8,16} with values.len() == coset_size returns Ok, "
                    "any other length 0..17 returns Err(InvalidValuesLength); other coset sizes panic (handed to C18)",
                    [FORMULA + "::fri_formula"],
                    "coset_size in {1..17}, values.len() in 0..=17 (table from symbolic execution, quantified by one integer query)")
    def body(ob):
        st = Stats()
        alg = RealAlg()
        table = {}
        panics = []
        for size in range(1, 18):
            for ln in range(0, 18):
                vals = [z3.Real("v%d" % i) for i in range(ln)]
                try:
                    out = run_fri_formula(mods, alg, vals, z3.Real("b"), z3.Real("xi"), size)
                except RustPanic:
                    table[(size, ln)] = 2
                    continue
                if isinstance(out, ResultV) and out.kind == "Ok":
                    table[(size, ln)] = 0
                elif isinstance(out, ResultV) and out.kind == "Err" and isinstance(out.value, Struct) and \
                        out.value.rtype.endswith("InvalidValuesLength"):
                    table[(size, ln)] = 1
                else:
                    table[(size, ln)] = 3
        s, l = z3.Int("size"), z3.Int("len")
        t = z3.IntVal(9)
        for (size, ln), v in table.items():
            t = z3.If(z3.And(s == size, l == ln), z3.IntVal(v), t)
        valid = z3.Or([s == c for c in (2, 4, 8, 16)])
        spec = z3.If(valid, z3.If(l == s, 0, 1), 2)
        verdict, model = check([s >= 1, s <= 17, l >= 0, l <= 17, t != spec], st, want_model=True)
        # native spot checks (translator validation of the control flow)
        reqs, exp = [], []
        for size, ln in ((2, 2), (4, 4), (8, 8), (16, 16), (2, 3), (4, 2), (8, 16), (16, 8), (16, 0)):
            reqs.append({"fn": "fri_formula", "values": ["0x1"] * ln, "eval_point": "0x2", "x_inv": "0x3", "coset_size": hx(size)})
            exp.append("ok" if size == ln else "err")
        ans = replay(reqs)
        for q, a, e in zip(reqs, ans, exp):
            if e not in a:
                if verdict == "unsat":
                    return finish(ob, "inconclusive", st, detail="translator validation FAILED: real fri_formula gave %r on %r" % (a, q))
        if verdict == "unsat":
            return finish(ob, "holds", st, detail="17x18 outcome table from symbolic execution; 9 native spot checks agree")
        if verdict == "sat":
            sz, ln = model[s].as_long(), model[l].as_long()
            req = {"fn": "fri_formula", "values": ["0x1"] * ln, "eval_point": "0x2", "x_inv": "0x3", "coset_size": hx(sz)}
            a = replay([req])[0]
            want = ("ok" if ln == sz else "err") if sz in (2, 4, 8, 16) else "panic"
            rep = {"reproduced": want not in a, "request": req, "real_output": str(a), "expected": want}
            return finish(ob, "violated" if rep["reproduced"] else "inconclusive", st,
                          detail="outcome for coset_size=%d len=%d deviates" % (sz, ln), cex={"coset_size": sz, "len": ln}, replay_rec=rep)
        return finish(ob, "inconclusive", st)
    return guarded(ob, body)


# --------------------------------------------------------------------------- Horner
def run_horner(mods, alg, coefs, x):
    it = Interp(alg=alg, modules=[mods[LAST]])
    fn = mods[LAST].fns.get("horner_eval")
    if fn is None:
        raise rsparse.Unsupported(repo_path(LAST), 0, "horner_eval not found")
    return it.run(fn, [RList(coefs), x])


def native_horner(coefs, x):
    """horner_eval is private: observed through verify_last_layer (point = 1/x_inv)"""
    req = {"fn": "verify_last_layer", "coefficients": [hx(c) for c in coefs], "x_inv": hx(inv(x)), "y": "0x0"}
    ans = replay([req])[0]
    try:
        return req, ans, int(ans["ok"]["horner"], 16)
    except (KeyError, TypeError):
        return req, ans, None


def ob_horner(mods, maxlen):
    ob = obligation("C06.horner",
                    "horner_eval(c, x) = sum_i c_i x^i",
                    [LAST + "::horner_eval"],
                    "ALL coefficient vectors of length 0..%d, ALL points x" % maxlen)
    def body(ob):
        st = Stats()
        r = rng("horner")
        for _ in range(2):
            ln = r.randrange(1, maxlen + 1)
            cf, x = [r.randrange(P) for _ in range(ln)], r.randrange(1, P)
            mine = run_horner(mods, None, [F(c) for c in cf], F(x))
            req, ans, nat = native_horner(cf, x)
            if not isinstance(mine, F) or nat != mine.v:
                return finish(ob, "inconclusive", st, detail="translator validation FAILED: parsed horner_eval %r vs real %r on %r" % (mine, ans, req))
        alg = RealAlg()
        x = z3.Real("x")
        for ln in range(0, maxlen + 1):
            c = [z3.Real("c%d" % i) for i in range(ln)]
            out = run_horner(mods, alg, c, x)
            out = alg.lift(out)
            exp, pw = z3.RealVal(0), None
            for i in range(ln):
                exp = exp + (c[i] if pw is None else c[i] * pw)
                pw = x if pw is None else pw * x
            verdict, model = check([out != exp], st, want_model=True)
            if verdict == "unsat":
                continue
            if verdict == "inconclusive":
                return finish(ob, "inconclusive", st, detail="no verdict at length %d" % ln)
            cf = [model_value_to_fp(model.eval(v, model_completion=True)) for v in c]
            xx = model_value_to_fp(model.eval(x, model_completion=True))
            tries = []
            if None not in cf and xx not in (None, 0):
                tries.append(("solver model", cf, xx))
            for _ in range(3):
                tries.append(("seeded random point", [r.randrange(P) for _ in range(ln)], r.randrange(1, P)))
            for what, cf_, x_ in tries:
                req, ans, nat = native_horner(cf_, x_)
                expv = sum(cv * pow(x_, i, P) for i, cv in enumerate(cf_)) % P
                if nat != expv:
                    return finish(ob, "violated", st, detail="length %d: sat, reproduced natively (%s)" % (ln, what),
                                  cex={"coefficients": [hx(v) for v in cf_], "x": hx(x_)},
                                  replay_rec={"reproduced": True, "request": req, "real_output": str(ans), "expected": hx(expv)})
            return finish(ob, "inconclusive", st, detail="length %d: sat but the real horner_eval agrees with sum c_i x^i: encoding problem" % ln)
        return finish(ob, "holds", st, detail="one real-arithmetic query per length; translator validated at 2 points through verify_last_layer")
    return guarded(ob, body)


def run_verify_last_layer(mods, alg, queries, coefs, decider):
    it = Interp(alg=alg, modules=[mods[LAST]], decide=decider)
    fn = mods[LAST].fns.get("verify_last_layer")
    if fn is None:
        raise rsparse.Unsupported(repo_path(LAST), 0, "verify_last_layer not found")
    qs = RList([Struct("FriLayerQuery", {"index": q[0], "y_value": q[1], "x_inv_value": q[2]}) for q in queries])
    return it.run(fn, [qs, RList(coefs)])


def last_layer_paths(mods, alg, nq, ln):
    c = [z3.Real("c%d" % i) for i in range(ln)]
    qs = [(z3.Real("idx%d" % q), z3.Real("y%d" % q), z3.Real("xinv%d" % q)) for q in range(nq)]
    paths = explore(lambda d: run_verify_last_layer(mods, alg, qs, c, d))
    return c, qs, paths


def ob_last_layer(mods, maxlen, maxq):
    ob = obligation("C06.lastlayer",
                    "verify_last_layer(queries, c) is Ok iff for every query sum_i c_i (1/x_inv)^i == y_value "
                    "(the evaluation point is the inverse of x_inv_value)",
                    [LAST + "::verify_last_layer", LAST + "::horner_eval"],
                    "1..%d queries, coefficient vectors of length 0..%d, all values symbolic; all symbolic paths enumerated" % (maxq, maxlen))
    def body(ob):
        st = Stats()
        for nq in range(1, maxq + 1):
            for ln in range(0, maxlen + 1):
                alg = RealAlg()
                c, qs, paths = last_layer_paths(mods, alg, nq, ln)
                if len(paths) != nq + 1:
                    return finish(ob, "inconclusive", st, detail="%d queries: expected %d symbolic paths, got %d" % (nq, nq + 1, len(paths)))
                for trace, out in paths:
                    # acceptance condition of this path as a z3 formula
                    conds = []
                    for cond, taken, line in trace:
                        if cond.op not in ("!=", "=="):
                            return finish(ob, "inconclusive", st, detail="unexpected branch condition %r at line %d" % (cond, line))
                        e = alg.lift(cond.a) != alg.lift(cond.b) if cond.op == "!=" else alg.lift(cond.a) == alg.lift(cond.b)
                        conds.append(e if taken else z3.Not(e))
                    ok = isinstance(out, ResultV) and out.kind == "Ok"
                    # spec: all queries match
                    match = []
                    for (_, y, xinv) in qs:
                        xv = 1 / xinv
                        s, pw = z3.RealVal(0), None
                        for i in range(ln):
                            s = s + (c[i] if pw is None else c[i] * pw)
                            pw = xv if pw is None else pw * xv
                        match.append(s == y)
                    spec = z3.And(match) if match else z3.BoolVal(True)
                    nz = [xinv != 0 for (_, _, xinv) in qs]
                    verdict, model = check(nz + conds + [spec != z3.BoolVal(ok)], st, want_model=True)
                    if verdict == "unsat":
                        continue
                    if verdict == "inconclusive":
                        return finish(ob, "inconclusive", st, detail="no verdict (%d queries, length %d)" % (nq, ln))
                    # replay: single-query instance from the model
                    cf = [model_value_to_fp(model.eval(v, model_completion=True)) for v in c]
                    reqs, exps = [], []
                    for (_, y, xinv) in qs:
                        yy = model_value_to_fp(model.eval(y, model_completion=True))
                        xi = model_value_to_fp(model.eval(xinv, model_completion=True))
                        if None in cf or yy is None or xi in (None, 0):
                            continue
                        reqs.append({"fn": "verify_last_layer", "coefficients": [hx(v) for v in cf], "x_inv": hx(xi), "y": hx(yy)})
                        xv = inv(xi)
                        exps.append(sum(cv * pow(xv, i, P) for i, cv in enumerate(cf)) % P == yy)
                    if reqs:
                        answers = replay(reqs)
                        for q, a, e in zip(reqs, answers, exps):
                            acc = a.get("ok", {}).get("accepted") if isinstance(a.get("ok"), dict) else None
                            if acc is not None and acc != e:
                                return finish(ob, "violated", st, detail="acceptance differs from the Horner specification",
                                              cex={"coefficients": q["coefficients"], "x_inv": q["x_inv"], "y": q["y"]},
                                              replay_rec={"reproduced": True, "request": q, "real_output": str(a), "expected": "accepted=%s" % e})
                    return finish(ob, "inconclusive", st, detail="sat, but not reproduced natively (encoding problem)")
        return finish(ob, "holds", st, detail="each symbolic path's verdict equals the specification under its path condition")
    return guarded(ob, body)


def ob_perturb(mods, maxlen):
    ob = obligation("C07.O3.horner_perturbation",
                    "last-layer coefficient corruption: horner(c + d*e_i, x) - horner(c, x) = d*x^i, hence for d != 0 and "
                    "x = 1/x_inv a query accepted for c is rejected for c + d*e_i (verify_last_layer returns Err)",
                    [LAST + "::horner_eval", LAST + "::verify_last_layer"],
                    "ALL coefficient vectors of length 1..%d, every position i, ALL d != 0, ALL x_inv != 0, all y" % maxlen)
    def body(ob):
        st = Stats()
        r = rng("perturb")
        x, d, y, xinv = z3.Real("x"), z3.Real("d"), z3.Real("y"), z3.Real("xinv")
        for ln in range(1, maxlen + 1):
            alg = RealAlg()
            c = [z3.Real("c%d" % i) for i in range(ln)]
            h0 = alg.lift(run_horner(mods, alg, c, x))
            bad_identity, bad_accept = [], []
            for i in range(ln):
                c2 = list(c)
                c2[i] = c[i] + d
                h1 = alg.lift(run_horner(mods, alg, c2, x))
                xi = z3.RealVal(1)
                for _ in range(i):
                    xi = xi * x
                bad_identity.append(h1 - h0 != d * xi)
                bad_accept.append((i, h1))
            verdict, model = check([z3.Or(bad_identity)], st, want_model=True)
            if verdict == "inconclusive":
                return finish(ob, "inconclusive", st, detail="no verdict for the identity at length %d" % ln)
            if verdict == "sat":
                return perturb_replay(ob, st, mods, ln, model, c, x, d, r, "identity")
            # acceptance form, through the parsed verify_last_layer: accepted(c) and accepted(c + d e_i) and d != 0
            for i in range(ln):
                alg2 = RealAlg()
                c2 = list(c)
                c2[i] = c[i] + d
                acc = []
                for cc in (c, c2):
                    paths = explore(lambda dd: run_verify_last_layer(mods, alg2, [(z3.RealVal(0), y, xinv)], cc, dd))
                    okp = []
                    for trace, out in paths:
                        if isinstance(out, ResultV) and out.kind == "Ok":
                            conj = []
                            for cond, taken, line in trace:
                                e = alg2.lift(cond.a) != alg2.lift(cond.b) if cond.op == "!=" else alg2.lift(cond.a) == alg2.lift(cond.b)
                                conj.append(e if taken else z3.Not(e))
                            okp.append(z3.And(conj) if conj else z3.BoolVal(True))
                    acc.append(z3.Or(okp) if okp else z3.BoolVal(False))
                verdict, model = check([xinv != 0, d != 0, acc[0], acc[1]], st, want_model=True)
                if verdict == "inconclusive":
                    return finish(ob, "inconclusive", st, detail="no verdict for acceptance at length %d position %d" % (ln, i))
                if verdict == "sat":
                    return perturb_replay(ob, st, mods, ln, model, c, 1 / xinv, d, r, "acceptance", pos=i)
        return finish(ob, "holds", st, detail="identity: one query per length (all positions); acceptance: one query per (length, position) "
                      "through the parsed verify_last_layer")
    return guarded(ob, body)


def perturb_replay(ob, st, mods, ln, model, c, xterm, d, r, what, pos=None):
    cf = [model_value_to_fp(model.eval(v, model_completion=True)) for v in c]
    dd = model_value_to_fp(model.eval(d, model_completion=True))
    xx = model_value_to_fp(model.eval(xterm, model_completion=True))
    tries = []
    if None not in cf and dd not in (None, 0) and xx not in (None, 0):
        tries.append(("solver model", cf, dd, xx))
    for _ in range(3):
        tries.append(("seeded random point", [r.randrange(P) for _ in range(ln)], r.randrange(1, P), r.randrange(1, P)))
    for src, cf_, d_, x_ in tries:
        for i in (range(ln) if pos is None else [pos]):
            req0, a0, h0 = native_horner(cf_, x_)
            c2 = list(cf_)
            c2[i] = (c2[i] + d_) % P
            req1, a1, h1 = native_horner(c2, x_)
            if h0 is None or h1 is None:
                continue
            if (h1 - h0) % P != d_ * pow(x_, i, P) % P:
                return finish(ob, "violated", st, detail="%s: sat at length %d; reproduced natively (%s, position %d)" % (what, ln, src, i),
                              cex={"coefficients": [hx(v) for v in cf_], "d": hx(d_), "x": hx(x_), "position": i},
                              replay_rec={"reproduced": True, "request": [req0, req1], "real_output": "%s / %s" % (a0, a1),
                                          "expected": "difference %s" % hx(d_ * pow(x_, i, P))})
    return finish(ob, "inconclusive", st, detail="%s: sat at length %d but the real code satisfies the identity: encoding problem" % (what, ln))


# --------------------------------------------------------------------------- entry points
ASSUMPTIONS = [
    "field elements are modelled as reals: a polynomial/rational identity with integer coefficients proved over Q holds in F_p "
    "(for the inputs where the divisors are non-zero)",
    "the formal t of Z[t]/(t^8+1) stands for the parsed OMEGA_16; justified by the concrete lemma OMEGA_16^8 = -1 (mod p)",
    "fold identity is per coset; layer bookkeeping (which values form a coset, x_inv propagation) is decided by engine E1",
]


def _job(args):
    name, a = args[0], args[1:]
    try:
        mods = modules()
    except (rsparse.Unsupported, FileNotFoundError) as ex:
        ob = obligation("C06.%s.load" % name, "parse the FRI sources", [FORMULA, GROUP, FIRST, LAST], "-")
        return finish(ob, "inconclusive", None, detail="source left the parsed subset / missing: %s" % ex, solver="-")
    return globals()[name](mods, *a)


def run_jobs(jobs):
    """obligations are independent: run them in forked workers (z3 terms never cross processes)"""
    import multiprocessing as mp
    from common import replay_binary
    try:
        replay_binary(())           # build once, before forking
    except ReplayUnavailable:
        pass
    with mp.get_context("fork").Pool(min(len(jobs), 8)) as pool:
        return pool.map(_job, jobs, chunksize=1)


def run_c06(tier):
    maxlen = 8 if tier == "quick" else 16
    jobs = [("ob_lemmas",)] + [("ob_fold", k, tier) for k in (1, 2, 3, 4)] + [
        ("ob_dispatch",), ("ob_horner", maxlen),
        ("ob_last_layer", 4 if tier == "quick" else 8, 1 if tier == "quick" else 2)]
    return {"property": "C06", "tier": tier, "assumptions": ASSUMPTIONS, "obligations": run_jobs(jobs)}


def run_c07(tier):
    obs = run_jobs([("ob_perturb", 8)])
    return {"property": "C07", "tier": tier,
            "assumptions": [ASSUMPTIONS[0],
                            "only clause O3 (last-layer coefficient corruption) is decided here; O1/O2 belong to engine E1; the "
                            "degree clause is probabilistic and outside the claim"],
            "obligations": obs}
