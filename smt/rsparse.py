"""Parser for the restricted Rust subset understood by engine E2 (felt-smt).

The parser is deliberately small.  Anything it does not understand raises
`Unsupported(file, line, text)`; the driver turns that into an *inconclusive*
verdict carrying the offending line - never into "holds".

AST (plain tuples, first element is the tag, last element of statements/expressions that can
fail is the source line):

  expressions
    ('int', value, line)                     integer literal (suffix dropped)
    ('str', text, line)
    ('bool', value, line)
    ('path', [seg, ...], line)               a, a::b::C, Self
    ('macro', name, [args] | raw_tokens, line)
    ('bin', op, lhs, rhs, line)              + - * / == != < <= > >= && ||
    ('un', op, e, line)                      - ! & * (deref) &mut
    ('call', callee_expr, [args], line)
    ('mcall', recv, name, [args], line)      receiver.method(args)
    ('field', recv, name, line)              receiver.field   (name may be a tuple index)
    ('index', recv, idx, line)
    ('range', lo|None, hi|None, inclusive, line)
    ('try', e, line)                         e?
    ('tuple', [e...], line)
    ('struct', path, [(field, expr)...], line)
    ('if', cond, then_block, else_block|None, line)
    ('match', scrutinee, [(pattern, expr)...], line)
    ('block', [stmts], tail_expr|None, line)
    ('loop', block, line)
    ('for', pattern, iter_expr, block, line)
    ('break', e|None, line)
    ('return', e|None, line)
    ('cast', e, type_text, line)
  statements
    ('let', pattern, mutable, init|None, line)
    ('assign', op, lhs, rhs, line)           op in = += -= *=
    ('expr', e, line)
  patterns
    ('pid', name) ('ptuple', [patterns]) ('pint', value) ('pwild',)
    ('pctor', [path segs], [patterns])   Some(x) / Ok(()) / Err(e) / Enum::Variant(x)
    ('ppath', [path segs])               None / Enum::Variant
    ('pstruct', [path segs], [(field, pattern)], has_rest)
    ('pslice', [patterns before], rest_name|None|False, [patterns after])     [a, b, rest @ .., z]  (rest False = no `..`)
    ('por', [patterns])
  additional expressions (felt-sx executor only)
    ('while', cond, block, line)  ('iflet', pattern, expr, then_block, else_block|None, line)
    ('closure', [patterns], body_expr, line)  ('array', [items], line)  ('repeat', item, count, line)
    ('continue', line)   ('letelse', pattern, init, else_block, line)   ('whilelet', pattern, expr, block, line)
    ('matches', expr, pattern, guard|None, line)
    labels: loop / while / for / whilelet nodes and break / continue nodes carry `.label` (N attribute) when written with one;
    match arms are (pattern, body) or (pattern, body, guard)
  cfg predicates: ('feature', name) ('any', [..]) ('all', [..]) ('not', p) ('flag', name)
"""
import re


class N(tuple):
    """AST node that can carry extra attributes without changing its tuple shape:
         .cfg   cfg predicate AST of the `#[cfg(..)]` attributes in front of a statement (None = unconditional)
         .semi  (expression statements) True when the statement ended with ';'
         .ty    (let statements) type annotation text, or None
         .turbofish  (method calls / paths) text of the `::<..>` generic arguments, or None
    The older executor (symex.Interp) ignores the attributes."""
    cfg = None
    semi = True
    ty = None
    turbofish = None
    label = None


class Unsupported(Exception):
    def __init__(self, file, line, msg):
        self.file, self.line, self.msg = file, line, msg
        Exception.__init__(self, "%s:%s: outside the parsed Rust subset: %s" % (file, line, msg))

TOKEN_RE = re.compile(r"""
    (?P<ws>\s+)
  | (?P<lcomment>//[^\n]*)
  | (?P<bcomment>/\*.*?\*/)
  | (?P<str>"(?:[^"\\]|\\.)*")
  | (?P<num>0x[0-9a-fA-F_]+|[0-9][0-9_]*)(?P<suffix>(?:u8|u16|u32|u64|u128|usize|i8|i16|i32|i64|i128|isize)?)
  | (?P<life>'[A-Za-z_][A-Za-z0-9_]*(?!'))
  | (?P<id>[A-Za-z_][A-Za-z0-9_]*)
  | (?P<op>::|->|=>|==|!=|<=|>=|\+=|-=|\*=|/=|&&|\|\||\.\.=|\.\.|[-+*/%&|!?.,;:()\[\]{}<>=#@^$~])
""", re.X | re.S)

class Tok:
    __slots__ = ("kind", "val", "line")
    def __init__(self, kind, val, line):
        self.kind, self.val, self.line = kind, val, line
    def __repr__(self):
        return "%s:%r@%d" % (self.kind, self.val, self.line)

def tokenize(src, fname="<src>"):
    toks, pos, line = [], 0, 1
    n = len(src)
    while pos < n:
        m = TOKEN_RE.match(src, pos)
        if not m:
            raise Unsupported(fname, line, "cannot tokenize %r" % src[pos:pos + 20])
        kind = m.lastgroup
        text = m.group(0)
        if m.group("num") is not None:
            toks.append(Tok("num", int(m.group("num").replace("_", ""), 0), line))
        elif kind == "str":
            toks.append(Tok("str", text[1:-1], line))
        elif kind == "id":
            toks.append(Tok("id", text, line))
        elif kind == "op":
            toks.append(Tok("op", text, line))
        elif kind == "life":
            toks.append(Tok("life", text, line))
        line += text.count("\n")
        pos = m.end()
    toks.append(Tok("eof", None, line))
    return toks

CLOSE = {"(": ")", "[": "]", "{": "}"}

class FnItem:
    """A function item.  The body is parsed lazily (on first use) so that an unsupported
    construct in an unrelated function of the same file does not poison the file."""
    def __init__(self, name, params, parser, body_pos, line, file, has_self, ret, generics):
        self.name, self.params = name, params
        self._parser, self._body_pos, self._body = parser, body_pos, None
        self.line, self.file, self.has_self, self.ret = line, file, has_self, ret
        self.generics = generics
        self.owner = None        # impl type name, if any
        self.cfg = None          # cfg predicate of the item (and of the enclosing impl / mod)
        self.trait = None
        self.prefix = ""
    @property
    def body(self):
        if self._body is None:
            p = self._parser
            p.i = self._body_pos
            self._body = p.block()
        return self._body
    def __repr__(self):
        return "<fn %s%s @%s:%d>" % ((self.owner + "::") if self.owner else "", self.name, self.file, self.line)

class Module:
    """Parsed items of one file: functions (free and inside impl blocks) and consts."""
    def __init__(self, file):
        self.file = file
        self.fns = {}        # name -> FnItem   (free functions)
        self.methods = {}    # (owner, name) -> FnItem
        self.consts = {}     # name -> expr AST  (also 'mod::NAME' for nested modules)
        self.const_lines = {}
        self.assoc_consts = {}   # (owner, trait|None, name) -> expr
        self.struct_fields = {}  # struct name -> [field names]
        self.struct_field_types = {}  # struct name -> {field: type text}
        self.tuple_structs = {}  # tuple struct name -> payload type text
        self.enums = {}          # enum name -> {variant: info}  (see Parser.enum_variants)
        self.assoc_types = {}    # (owner, name) -> type text
        self.impls = []          # [{"trait","trait_text","type","type_text","fns","cfg","types"}]
        self.all_fns = []        # every FnItem of the file, in source order

class Parser:
    def __init__(self, src, fname):
        self.fname = fname
        self.toks = tokenize(src, fname)
        self.i = 0
        self.cur_impl = None
        self.last_from_attr = None

    # ---- token helpers
    @property
    def t(self):
        return self.toks[self.i]
    def peek(self, k=1):
        return self.toks[min(self.i + k, len(self.toks) - 1)]
    def at(self, val):
        return self.t.kind in ("op", "id") and self.t.val == val
    def at_op(self, val):
        return self.t.kind == "op" and self.t.val == val
    def at_id(self, val=None):
        return self.t.kind == "id" and (val is None or self.t.val == val)
    def eat(self, val):
        if self.at(val):
            self.i += 1
            return True
        return False
    def expect(self, val):
        if not self.at(val):
            self.fail("expected %r, found %r" % (val, self.t.val))
        self.i += 1
    def ident(self):
        if self.t.kind != "id":
            self.fail("expected identifier, found %r" % (self.t.val,))
        v = self.t.val
        self.i += 1
        return v
    def fail(self, msg):
        raise Unsupported(self.fname, self.t.line, msg)

    def skip_balanced(self):
        """Current token is an opening bracket; skip to after its match."""
        stack = [CLOSE[self.t.val]]
        self.i += 1
        while stack:
            t = self.t
            if t.kind == "eof":
                self.fail("unbalanced brackets")
            if t.kind == "op":
                if t.val in CLOSE:
                    stack.append(CLOSE[t.val])
                elif t.val == stack[-1]:
                    stack.pop()
            self.i += 1

    def skip_attrs(self):
        """skip attributes; returns the conjunction of the `#[cfg(..)]` predicates met (None if there is none)"""
        preds = []
        while self.at_op("#"):
            self.i += 1
            self.eat("!")
            if not self.at_op("["):
                self.fail("malformed attribute")
            if self.peek().kind == "id" and self.peek().val == "cfg" and self.peek(2).kind == "op" and self.peek(2).val == "(":
                self.i += 2          # at '('
                self.i += 1
                preds.append(self.cfg_pred())
                self.expect(")")
                self.expect("]")
            else:
                if self.peek().kind == "id" and self.peek().val == "from":
                    self.last_from_attr = self.i
                self.skip_balanced()
        if not preds:
            return None
        return preds[0] if len(preds) == 1 else ("all", preds)

    def cfg_pred(self):
        name = self.ident()
        if name in ("any", "all", "not"):
            self.expect("(")
            items = []
            while not self.at_op(")"):
                items.append(self.cfg_pred())
                if not self.eat(","):
                    break
            self.expect(")")
            if name == "not":
                if len(items) != 1:
                    self.fail("cfg(not(..)) takes one predicate")
                return ("not", items[0])
            return (name, items)
        if self.eat("="):
            if self.t.kind != "str":
                self.fail("cfg value must be a string")
            v = self.t.val
            self.i += 1
            return (name, v) if name != "feature" else ("feature", v)
        return ("flag", name)

    def skip_generics(self):
        """Skip <...> (angle brackets nest; '->' is a single token so no confusion)."""
        if not self.at_op("<"):
            return ""
        depth, start = 0, self.i
        while True:
            t = self.t
            if t.kind == "eof":
                self.fail("unbalanced <>")
            if t.kind == "op" and t.val == "<":
                depth += 1
            elif t.kind == "op" and t.val == ">":
                depth -= 1
                if depth == 0:
                    self.i += 1
                    break
            elif t.kind == "op" and t.val in CLOSE:
                self.skip_balanced()
                continue
            self.i += 1
        return " ".join(str(x.val) for x in self.toks[start:self.i])

    def type_text(self, stops):
        """Consume a type up to (not including) one of the stop operators at depth 0."""
        start, depth = self.i, 0
        while True:
            t = self.t
            if t.kind == "eof":
                self.fail("unterminated type")
            if t.kind == "id" and depth == 0 and t.val in stops:
                break
            if t.kind == "op":
                if depth == 0 and t.val in stops:
                    break
                if t.val in ("<",):
                    depth += 1
                elif t.val == ">":
                    if depth == 0:
                        break
                    depth -= 1
                elif t.val in CLOSE:
                    self.skip_balanced()
                    continue
                elif t.val in (")", "]", "}"):
                    break
            self.i += 1
        return " ".join(str(x.val) for x in self.toks[start:self.i])

    # ---- items
    def parse_module(self):
        mod = Module(self.fname)
        self.parse_items(mod, prefix="", owner=None, trait=None, until_eof=True)
        return mod

    def parse_items(self, mod, prefix, owner, trait, until_eof=False, cfg_outer=None):
        while True:
            cfg = self.skip_attrs()
            if cfg_outer is not None:
                cfg = cfg_outer if cfg is None else ("all", [cfg_outer, cfg])
            if self.t.kind == "eof":
                if until_eof:
                    return
                self.fail("unexpected end of file")
            if self.at_op("}") and not until_eof:
                self.i += 1
                return
            # visibility
            if self.at_id("pub"):
                self.i += 1
                if self.at_op("("):
                    self.skip_balanced()
            if self.at_id("const") and self.peek().kind == "id" and self.peek().val != "fn":
                self.i += 1
                name = self.ident()
                self.expect(":")
                self.type_text(["=", ";"])
                if self.eat("="):
                    try:
                        e = self.expr()
                    except Unsupported as u:
                        e = ("unsupported", u.msg, u.line)
                        while not self.at_op(";"):
                            if self.t.kind == "op" and self.t.val in CLOSE:
                                self.skip_balanced()
                            else:
                                self.i += 1
                    if owner is not None:
                        mod.assoc_consts[(owner, trait, name)] = e
                    else:
                        mod.consts[prefix + name] = e
                        mod.const_lines[prefix + name] = e[-1]
                self.expect(";")
            elif self.at_id("fn") or (self.at_id("const") and self.peek().val == "fn"):
                if self.at_id("const"):
                    self.i += 1
                f = self.parse_fn()
                if f is not None:
                    f.owner = owner
                    f.cfg = cfg
                    f.trait = trait
                    f.prefix = prefix
                    if owner is not None:
                        mod.methods[(owner, f.name)] = f
                        if self.cur_impl is not None:
                            self.cur_impl["fns"][f.name] = f
                    else:
                        mod.fns[prefix + f.name] = f
                    mod.all_fns.append(f)
            elif self.at_id("impl"):
                self.i += 1
                self.skip_generics()
                first = self.type_text(["{", "for"])
                tr = None
                tr_text = None
                if self.eat("for"):
                    tr = first.split("<")[0].strip().split(" :: ")[-1].strip()
                    tr_text = first
                    ty = self.type_text(["{"])
                else:
                    ty = first
                if self.at_id("where"):
                    while not self.at_op("{"):
                        self.i += 1
                ty_text = ty
                ty = ty.split("<")[0].strip().split(" :: ")[-1].strip()
                self.expect("{")
                save_impl = self.cur_impl
                self.cur_impl = {"trait": tr, "trait_text": tr_text, "type": ty, "type_text": ty_text, "fns": {}, "cfg": cfg,
                                 "types": {}}
                mod.impls.append(self.cur_impl)
                self.parse_items(mod, prefix, owner=ty, trait=tr, cfg_outer=cfg)
                self.cur_impl = save_impl
            elif self.at_id("mod"):
                self.i += 1
                name = self.ident()
                if self.eat(";"):
                    continue
                self.expect("{")
                self.parse_items(mod, prefix + name + "::", owner=None, trait=None, cfg_outer=cfg)
            elif self.at_id("struct"):
                self.i += 1
                name = self.ident()
                self.skip_generics()
                if self.at_op("{"):
                    pairs = self.struct_field_names()
                    mod.struct_fields[name] = [p[0] for p in pairs]
                    mod.struct_field_types[name] = dict(pairs)
                elif self.at_op("("):
                    start = self.i
                    self.skip_balanced()
                    mod.tuple_structs[name] = " ".join(str(x.val) for x in self.toks[start + 1:self.i - 1])
                    self.eat(";")
                else:
                    self.eat(";")
            elif self.at_id("enum"):
                self.i += 1
                name = self.ident()
                self.skip_generics()
                if self.at_op("{"):
                    mod.enums[prefix + name] = self.enum_variants()
                else:
                    self.skip_item()
            elif self.at_id("type") and owner is not None:
                self.i += 1
                name = self.ident()
                if self.eat("="):
                    ty = self.type_text([";"])
                    if self.cur_impl is not None:
                        self.cur_impl["types"][name] = ty
                    mod.assoc_types[(owner, name)] = ty
                self.eat(";")
            else:
                # use / trait / macro_rules / type / static / extern: skip the item
                self.skip_item()

    def enum_variants(self):
        """{variant: {"kind": unit|tuple|struct, "fields": [...], "from": bool, "types": [...]}} (declaration order kept)"""
        out = {}
        self.expect("{")
        while not self.at_op("}"):
            self.last_from_attr = None
            start = self.i
            self.skip_attrs()
            has_from_outer = False
            vname = self.ident()
            info = {"kind": "unit", "fields": [], "from": False, "types": []}
            if self.at_op("("):
                info["kind"] = "tuple"
                self.i += 1
                while not self.at_op(")"):
                    self.last_from_attr = None
                    self.skip_attrs()
                    if self.last_from_attr is not None:
                        info["from"] = True
                    info["types"].append(self.type_text([","]))
                    if not self.eat(","):
                        break
                self.expect(")")
            elif self.at_op("{"):
                info["kind"] = "struct"
                for fname, fty in self.struct_field_names():
                    info["fields"].append(fname)
                    info["types"].append(fty)
            if self.eat("="):
                self.expr()
            out[vname] = info
            if not self.eat(","):
                break
        self.expect("}")
        return out

    def struct_field_names(self):
        names = []
        self.expect("{")
        while not self.at_op("}"):
            self.skip_attrs()
            if self.at_id("pub"):
                self.i += 1
                if self.at_op("("):
                    self.skip_balanced()
            fname = self.ident()
            self.expect(":")
            names.append((fname, self.type_text([","])))
            self.eat(",")
            self.skip_attrs()
        self.expect("}")
        return names

    def skip_item(self):
        while True:
            t = self.t
            if t.kind == "eof":
                return
            if t.kind == "op" and t.val == ";":
                self.i += 1
                return
            if t.kind == "op" and t.val == "{":
                self.skip_balanced()
                return
            if t.kind == "op" and t.val in CLOSE:
                self.skip_balanced()
                continue
            self.i += 1

    def parse_fn(self):
        line = self.t.line
        self.expect("fn")
        name = self.ident()
        generics = self.skip_generics()
        self.expect("(")
        params, has_self = [], False
        while not self.at_op(")"):
            self.skip_attrs()
            # self forms
            save = self.i
            if self.at_op("&"):
                self.i += 1
                if self.t.kind == "life":
                    self.i += 1
                self.eat("mut")
            if self.at_id("mut") and self.peek().val == "self":
                self.i += 1
            if self.at_id("self"):
                self.i += 1
                has_self = True
                if self.eat(":"):
                    self.type_text([","])
            else:
                self.i = save
                self.eat("mut")
                pname = self.ident()
                self.expect(":")
                ty = self.type_text([","])
                params.append((pname, ty))
            if not self.eat(","):
                break
        self.expect(")")
        ret = None
        if self.eat("->"):
            ret = self.type_text(["{", ";", "where"])
        if self.at_id("where"):
            while not self.at_op("{") and not self.at_op(";"):
                self.i += 1
        if self.eat(";"):
            return None          # trait method declaration
        if not self.at_op("{"):
            self.fail("expected function body")
        body_pos = self.i
        self.skip_balanced()
        return FnItem(name, params, self, body_pos, line, self.fname, has_self, ret, generics)

    # ---- statements
    BLOCKLIKE = ("if", "match", "loop", "for", "while")

    def block(self):
        line = self.t.line
        self.expect("{")
        stmts, tail = [], None
        def mk(node, cfg, semi=True):
            n = N(node)
            n.cfg, n.semi = cfg, semi
            return n
        while not self.at_op("}"):
            cfg = self.skip_attrs()
            if self.eat(";"):
                continue
            if self.at_id("let"):
                st = self.let_stmt()
                st.cfg = cfg
                stmts.append(st)
                continue
            if self.at_id("use"):
                self.skip_item()
                continue
            sline = self.t.line
            if (self.t.kind == "id" and self.t.val in self.BLOCKLIKE) or self.at_op("{") or (self.t.kind == "life" and self.peek().kind == "op" and self.peek().val == ":"):
                # block-like expression in statement position: it ends the statement (no postfix / binary continuation)
                e = self.primary(False)
                if self.at_op("}") and cfg is None:
                    tail = e
                elif self.at_op("}"):
                    # conditional tail `#[cfg(..)] { .. }`: kept as a statement without ';' (the executor picks the active one)
                    stmts.append(mk(("expr", e, sline), cfg, semi=False))
                else:
                    semi = self.eat(";")
                    stmts.append(mk(("expr", e, sline), cfg, semi=semi))
                continue
            e = self.expr(stmt_pos=True)
            if self.t.kind == "op" and self.t.val in ("=", "+=", "-=", "*=", "/="):
                op = self.t.val
                self.i += 1
                rhs = self.expr()
                # a compound assignment without ';' directly before '}' is still a statement
                if not self.eat(";") and not self.at_op("}"):
                    self.fail("expected ';' after assignment")
                stmts.append(mk(("assign", op, e, rhs, sline), cfg))
                continue
            if self.eat(";"):
                stmts.append(mk(("expr", e, sline), cfg))
            elif self.at_op("}"):
                if cfg is None:
                    tail = e
                else:
                    stmts.append(mk(("expr", e, sline), cfg, semi=False))
            elif e[0] in ("if", "match", "block", "loop", "for", "while", "iflet"):
                stmts.append(mk(("expr", e, sline), cfg, semi=False))      # block-like expression statement
            else:
                self.fail("expected ';' or '}' after expression, found %r" % (self.t.val,))
        self.expect("}")
        return ("block", stmts, tail, line)

    def let_stmt(self):
        line = self.t.line
        self.expect("let")
        mutable = False
        pat = self.pattern()
        if pat[0] == "pid" and pat[1] == "mut":
            mutable = True
            pat = self.pattern()
        ty = None
        if self.eat(":"):
            ty = self.type_text(["=", ";"])
        init = None
        if self.eat("="):
            init = self.expr()
        if self.at_id("else") and init is not None:
            self.i += 1
            blk = self.block()
            self.expect(";")
            n = N(("expr", ("letelse", pat, init, blk, line), line))
            n.ty = ty
            return n
        self.expect(";")
        n = N(("let", pat, mutable, init, line))
        n.ty = ty
        return n

    def pattern(self):
        if self.at_op("("):
            self.i += 1
            ps = []
            while not self.at_op(")"):
                ps.append(self.pattern())
                if not self.eat(","):
                    break
            self.expect(")")
            return ("ptuple", ps)
        if self.at_op("["):
            self.i += 1
            before, after, rest = [], [], False
            while not self.at_op("]"):
                if self.at_op(".."):
                    self.i += 1
                    rest = None
                elif self.t.kind == "id" and self.peek().kind == "op" and self.peek().val == "@" and self.peek(2).kind == "op" and self.peek(2).val == "..":
                    rest = self.ident()
                    self.i += 2
                else:
                    (before if rest is False else after).append(self.pattern())
                if not self.eat(","):
                    break
            self.expect("]")
            return ("pslice", before, rest, after)
        if self.at_op("&"):
            self.i += 1
            self.eat("mut")
            return self.pattern()
        if self.t.kind == "op" and self.t.val == "&&":
            self.i += 1
            return self.pattern()
        if self.t.kind == "num":
            v = self.t.val
            self.i += 1
            if self.at_op("..=") and self.peek().kind == "num":
                hi = self.peek().val
                self.i += 2
                return ("prange", v, hi)
            return ("pint", v)
        if self.at_id("_"):
            self.i += 1
            return ("pwild",)
        if self.at_id("mut"):
            self.i += 1
            return ("pid", "mut")
        if self.at_id("ref"):
            self.i += 1
            self.eat("mut")
            return self.pattern()
        if self.t.kind == "id" and self.t.val in ("true", "false"):
            v = self.t.val == "true"
            self.i += 1
            return ("pbool", v)
        if self.t.kind == "id":
            segs = [self.ident()]
            while self.at_op("::"):
                self.i += 1
                if self.at_op("<"):
                    self.skip_generics()
                    continue
                segs.append(self.ident())
            if len(segs) == 1 and self.at_op("@"):
                self.i += 1
                return ("pbind", segs[0], self.pattern())
            if self.at_op("("):
                self.i += 1
                ps = []
                while not self.at_op(")"):
                    ps.append(self.pattern())
                    if not self.eat(","):
                        break
                self.expect(")")
                return ("pctor", segs, ps)
            if self.at_op("{") and segs[-1][:1].isupper():
                self.i += 1
                fields, rest = [], False
                while not self.at_op("}"):
                    if self.eat(".."):
                        rest = True
                        break
                    fname = self.ident()
                    if self.eat(":"):
                        fields.append((fname, self.pattern()))
                    else:
                        fields.append((fname, ("pid", fname)))
                    if not self.eat(","):
                        break
                self.expect("}")
                return ("pstruct", segs, fields, rest)
            if len(segs) > 1 or segs[0] == "None":
                return ("ppath", segs)
            return ("pid", segs[0])
        self.fail("unsupported pattern starting with %r" % (self.t.val,))

    # ---- expressions (precedence climbing)
    BINPREC = [
        ["||"], ["&&"], ["==", "!=", "<", ">", "<=", ">="], ["+", "-"], ["*", "/", "%"],
    ]

    def expr(self, no_struct=False, stmt_pos=False):
        return self.range_expr(no_struct)

    def range_expr(self, no_struct):
        line = self.t.line
        if self.at_op("..") or self.at_op("..="):
            incl = self.t.val == "..="
            self.i += 1
            hi = None
            if not (self.at_op("]") or self.at_op(")") or self.at_op(";")):
                hi = self.bin_expr(0, no_struct)
            return ("range", None, hi, incl, line)
        lo = self.bin_expr(0, no_struct)
        if self.at_op("..") or self.at_op("..="):
            incl = self.t.val == "..="
            self.i += 1
            hi = None
            if not (self.at_op("]") or self.at_op(")") or self.at_op(";") or self.at_op("{")):
                hi = self.bin_expr(0, no_struct)
            return ("range", lo, hi, incl, line)
        return lo

    def bin_expr(self, level, no_struct):
        if level == len(self.BINPREC):
            return self.unary(no_struct)
        lhs = self.bin_expr(level + 1, no_struct)
        while self.t.kind == "op" and self.t.val in self.BINPREC[level]:
            op, line = self.t.val, self.t.line
            self.i += 1
            rhs = self.bin_expr(level + 1, no_struct)
            lhs = ("bin", op, lhs, rhs, line)
        # `expr as type`
        return lhs

    def unary(self, no_struct):
        line = self.t.line
        if self.at_op("-") or self.at_op("!") or self.at_op("*"):
            op = self.t.val
            self.i += 1
            return ("un", op, self.unary(no_struct), line)
        if self.at_op("&"):
            self.i += 1
            op = "&"
            if self.at_id("mut"):
                self.i += 1
                op = "&mut"
            return ("un", op, self.unary(no_struct), line)
        if self.at_op("&&"):
            self.i += 1
            return ("un", "&", self.unary(no_struct), line)
        if self.at_op("|") or self.at_op("||") or (self.at_id("move") and self.peek().kind == "op" and self.peek().val in ("|", "||")):
            return self.closure()
        e = self.postfix(self.primary(no_struct), no_struct)
        while self.at_id("as"):
            self.i += 1
            ty = self.type_text([",", ";", "+", "-", "*", "/", "==", "!=", "=", ".", "?"])
            e = ("cast", e, ty, line)
            e = self.postfix(e, no_struct)
        return e

    def closure(self):
        line = self.t.line
        self.eat("move")
        params = []
        if self.eat("||"):
            pass
        else:
            self.expect("|")
            while not self.at_op("|"):
                params.append(self.pattern())
                if self.eat(":"):
                    self.type_text([",", "|"])
                if not self.eat(","):
                    break
            self.expect("|")
        if self.eat("->"):
            self.type_text(["{"])
        body = self.expr()
        return ("closure", params, body, line)

    def args(self):
        self.expect("(")
        out = []
        while not self.at_op(")"):
            out.append(self.expr())
            if not self.eat(","):
                break
        self.expect(")")
        return out

    def postfix(self, e, no_struct):
        while True:
            line = self.t.line
            if self.at_op("."):
                self.i += 1
                if self.t.kind == "num":
                    e = ("field", e, self.t.val, line)
                    self.i += 1
                    continue
                name = self.ident()
                tf = None
                if self.at_op("::"):
                    self.i += 1
                    tf = self.skip_generics()
                if self.at_op("("):
                    e = N(("mcall", e, name, self.args(), line))
                    e.turbofish = tf
                else:
                    e = ("field", e, name, line)
            elif self.at_op("["):
                self.i += 1
                idx = self.expr()
                self.expect("]")
                e = ("index", e, idx, line)
            elif self.at_op("?"):
                self.i += 1
                e = ("try", e, line)
            elif self.at_op("("):
                e = ("call", e, self.args(), line)
            else:
                return e

    def primary(self, no_struct):
        t = self.t
        line = t.line
        if t.kind == "num":
            self.i += 1
            return ("int", t.val, line)
        if t.kind == "str":
            self.i += 1
            return ("str", t.val, line)
        if t.kind == "op" and t.val == "(":
            self.i += 1
            if self.eat(")"):
                return ("tuple", [], line)
            first = self.expr()
            if self.eat(")"):
                return first
            items = [first]
            while self.eat(","):
                if self.at_op(")"):
                    break
                items.append(self.expr())
            self.expect(")")
            return ("tuple", items, line)
        if t.kind == "op" and t.val == "{":
            return self.block()
        if t.kind == "life" and self.peek().kind == "op" and self.peek().val == ":":
            label = t.val
            self.i += 2
            if not (self.t.kind == "id" and self.t.val in ("loop", "while", "for")):
                self.fail("label on a non-loop expression")
            e = N(self.primary(no_struct))
            e.label = label
            return e
        if t.kind == "op" and t.val == "[":
            self.i += 1
            items = []
            while not self.at_op("]"):
                items.append(self.expr())
                if self.eat(";"):
                    cnt = self.expr()
                    self.expect("]")
                    return ("repeat", items[0], cnt, line)
                if not self.eat(","):
                    break
            self.expect("]")
            return ("array", items, line)
        if t.kind == "op" and t.val == "<":
            # qualified path  <T as Trait>::NAME
            txt = self.skip_generics()
            segs = ["<" + txt + ">"]
            while self.eat("::"):
                segs.append(self.ident())
            return ("path", segs, line)
        if t.kind != "id":
            self.fail("unexpected token %r in expression" % (t.val,))
        if t.val in ("true", "false"):
            self.i += 1
            return ("bool", t.val == "true", line)
        if t.val == "if":
            return self.if_expr()
        if t.val == "match":
            self.i += 1
            scrut = self.expr(no_struct=True)
            self.expect("{")
            arms = []
            while not self.at_op("}"):
                self.skip_attrs()
                self.eat("|")
                pat = self.pattern()
                if self.at_op("|"):
                    alts = [pat]
                    while self.eat("|"):
                        alts.append(self.pattern())
                    pat = ("por", alts)
                guard = None
                if self.at_id("if"):
                    self.i += 1
                    guard = self.expr(no_struct=True)
                self.expect("=>")
                body = self.expr()
                arms.append((pat, body) if guard is None else (pat, body, guard))
                if not self.eat(","):
                    if not self.at_op("}") and body[0] != "block":
                        self.fail("expected ',' between match arms")
            self.expect("}")
            return ("match", scrut, arms, line)
        if t.val == "loop":
            self.i += 1
            return ("loop", self.block(), line)
        if t.val == "for":
            self.i += 1
            pat = self.pattern()
            self.expect("in")
            it = self.expr(no_struct=True)
            return ("for", pat, it, self.block(), line)
        if t.val == "while":
            self.i += 1
            if self.at_id("let"):
                self.i += 1
                pat = self.pattern()
                self.expect("=")
                scrut = self.expr(no_struct=True)
                return ("whilelet", pat, scrut, self.block(), line)
            cond = self.expr(no_struct=True)
            return ("while", cond, self.block(), line)
        if t.val == "continue":
            self.i += 1
            if self.t.kind == "life":
                n = N(("continue", line))
                n.label = self.t.val
                self.i += 1
                return n
            return ("continue", line)
        if t.val == "break":
            self.i += 1
            label = None
            if self.t.kind == "life":
                label = self.t.val
                self.i += 1
            if self.at_op(";") or self.at_op("}") or self.at_op(","):
                n = N(("break", None, line))
            else:
                n = N(("break", self.expr(), line))
            n.label = label
            return n
        if t.val == "return":
            self.i += 1
            if self.at_op(";") or self.at_op("}") or self.at_op(","):
                return ("return", None, line)
            return ("return", self.expr(), line)
        if t.val in ("unsafe", "async", "move", "let"):
            self.fail("`%s` is not in the subset" % t.val)
        # path, macro, struct literal
        segs = [self.ident()]
        path_tf = None
        while self.at_op("::"):
            self.i += 1
            if self.at_op("<"):
                path_tf = self.skip_generics()
                continue
            segs.append(self.ident())
        if self.at_op("!"):
            # macro invocation
            if self.peek().kind == "op" and self.peek().val in ("(", "[", "{"):
                self.i += 1
                name = segs[-1]
                close = CLOSE[self.t.val]
                if name in ("panic", "unreachable", "unimplemented", "todo", "println", "eprintln", "debug_assert"):
                    msg = self.peek()
                    self.skip_balanced()
                    n = N(("macro", name, [], line))
                    n.ty = msg.val if msg.kind == "str" else None       # first string literal = message format
                    return n
                self.i += 1
                if name == "matches":
                    e0 = self.expr()
                    self.expect(",")
                    self.eat("|")
                    pat = self.pattern()
                    if self.at_op("|"):
                        alts = [pat]
                        while self.eat("|"):
                            alts.append(self.pattern())
                        pat = ("por", alts)
                    guard = None
                    if self.at_id("if"):
                        self.i += 1
                        guard = self.expr()
                    self.eat(",")
                    self.expect(close)
                    return ("matches", e0, pat, guard, line)
                args = []
                while not self.at_op(close):
                    args.append(self.expr())
                    if self.eat(";"):      # vec![x; n]
                        args.append(("str", ";", line))
                        continue
                    if not self.eat(","):
                        break
                self.expect(close)
                return ("macro", name, args, line)
        if self.at_op("{") and not no_struct and (segs[-1][:1].isupper()):
            # struct literal
            self.i += 1
            fields = []
            while not self.at_op("}"):
                fl = self.t.line
                fname = self.ident()
                if self.eat(":"):
                    fields.append((fname, self.expr()))
                else:
                    fields.append((fname, ("path", [fname], fl)))
                if not self.eat(","):
                    break
            self.expect("}")
            return ("struct", segs, fields, line)
        if path_tf is not None:
            n = N(("path", segs, line))
            n.turbofish = path_tf
            return n
        return ("path", segs, line)

    def if_expr(self):
        line = self.t.line
        self.expect("if")
        if self.at_id("let"):
            self.i += 1
            pat = self.pattern()
            self.expect("=")
            scrut = self.expr(no_struct=True)
            then = self.block()
            els = None
            if self.at_id("else"):
                self.i += 1
                if self.at_id("if"):
                    e = self.if_expr()
                    els = ("block", [], e, e[-1])
                else:
                    els = self.block()
            return ("iflet", pat, scrut, then, els, line)
        cond = self.expr(no_struct=True)
        then = self.block()
        els = None
        if self.at_id("else"):
            self.i += 1
            if self.at_id("if"):
                e = self.if_expr()
                els = ("block", [], e, e[-1])
            else:
                els = self.block()
        return ("if", cond, then, els, line)


_cache = {}

def parse_file(path):
    import os
    st = os.stat(path)
    key = (path, st.st_mtime_ns, st.st_size)
    if key not in _cache:
        with open(path) as f:
            src = f.read()
        _cache[key] = Parser(src, path).parse_module()
    return _cache[key]
