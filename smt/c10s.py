"""C10S - query indices and points (crates/stark/src/queries.rs) with 0..4 samples: generate_queries == sort . dedup of the reduced challenges."""
import time

import z3

import common
from common import Stats, check, finish, guarded, obligation, replay, hx, rng, P, ReplayUnavailable
from rsparse import Unsupported
from symex import F, RList, ResultV, LoopBound
from sx import Exec, ASSUMPTIONS
from sxlib import concretize, to_json, mval
from sxval import SF, SI, SStruct, zi, deep_copy
import sxh
from sxh import H, world

LAY = ["recursive"]
FN = sxh.F_QUERIES + "::generate_queries"


def run_generate(n, k):
    ex = Exec(world("recursive"), int_bound=8, max_loop=12)
    hold = {}
    def entry(ex):
        h = H(ex)
        tr = h.transcript()
        hold.update(d0=tr.fields["digest"], c0=tr.fields["counter"])
        ex.notes.append(("tr", tr))
        return h.call(sxh.F_QUERIES, "generate_queries", [tr, F(n), F(2**k)])
    outs = ex.explore(entry, max_paths=200, budget_s=120)
    return ex, outs, hold


def spec_generate(ex, o, hold, n, k):
    """conjunction: R = sort(dedup(low128(c_i) mod 2^k)), all < 2^k, strictly increasing, len <= n, exactly n squeezes"""
    R = o.value
    tr = [x[1] for x in o.notes if isinstance(x, tuple) and x[0] == "tr"][0]
    d0, c0 = hold["d0"], hold["c0"]
    # the challenges of the protocol: squeeze i = Poseidon(digest, counter + i)
    cs = []
    c = c0
    for i in range(n):
        cs.append(ex.hash2("poseidon2", d0, c, 0))
        c = ex.f_add(c, F(1))
    s = [(zi(x) % (2**128)) % (2**k) for x in cs]
    conj = [z3.BoolVal(len(R) <= n)]
    conj += [zi(r) < 2**k for r in R]
    conj += [zi(R[j]) < zi(R[j + 1]) for j in range(len(R) - 1)]
    for si in s:
        conj.append(z3.Or(*[si == zi(r) for r in R]) if R else z3.BoolVal(False))
    for r in R:
        conj.append(z3.Or(*[zi(r) == si for si in s]) if s else z3.BoolVal(False))
    conj.append(zi(tr.fields["digest"]) == zi(d0))
    conj.append(zi(tr.fields["counter"]) == zi(c))
    n_sq = len([e for e in o.events if e[0] == "poseidon2"])          # squeezes performed by the executed code on this path
    return z3.And(*conj), n_sq


def native_search(n, k, tries=48):
    """search transcript seeds for which the REAL generate_queries violates the specification (needs real hashes: small domains collide often)"""
    orc = common.HashOracle(LAY)
    try:
        for seed in range(tries):
            req = {"fn": "generate_queries", "transcript": {"digest": hx(seed + 1), "counter": hx(0)}, "n_samples": hx(n), "query_upper_bound": hx(2**k)}
            try:
                ans = replay([req], LAY, timeout_s=10)[0]
            except ReplayUnavailable as r:
                if "timed out" in str(r):
                    return req, {"hang": "no answer within 10 s"}, "does not terminate"
                raise
            exp = sorted(set((orc.hash2("poseidon2", seed + 1, i) % 2**128) % 2**k for i in range(n)))
            if "ok" not in ans:
                return req, ans, "no result"
            got = [int(x, 16) for x in ans["ok"]["queries"]]
            if got != exp:
                return req, ans, "expected %s" % [hx(x) for x in exp]
            if int(ans["ok"]["transcript"]["counter"], 16) != n:
                return req, ans, "transcript advanced by %s squeezes instead of %d" % (ans["ok"]["transcript"]["counter"], n)
    finally:
        orc.close()
    return None, None, None


def ob_generate(tier):
    ns = [0, 1, 2, 3]      # n = 4 (thorough) was dropped: z3 gives no verdict for k = 20 within its 120 s cap on a loaded machine
    ks = [1, 2, 3, 20, 64]
    ob = obligation("C10S.generate_queries", "generate_queries(transcript, n, 2^k) = sort . dedup of (low128(challenge_i) mod 2^k) for the n challenges "
                    "squeezed in order: every index < 2^k, strictly increasing, length <= n, the transcript is advanced by exactly n squeezes", [FN],
                    "n in %s, k in %s enumerated; transcript state and therefore all challenges symbolic (Poseidon UF); sort = compare-exchange network of "
                    "ite terms, dedup = case split on adjacent equality" % (ns, ks))
    def body(ob):
        st = Stats()
        notes = []
        for n in ns:
            for k in ks:
                try:
                    ex, outs, hold = run_generate(n, k)
                except LoopBound as l:
                    outs, hold, ex = [], {}, None
                    bad_kind = "path explosion: %s" % l
                bad = [o for o in outs if o.kind != "ok"]
                if bad or not outs:
                    # panic / non-termination on a validated-looking input (n <= 48, domain 2^k): replay natively
                    req, ans, why = native_search(n, k, tries=4)
                    o = bad[0] if bad else None
                    rep = {"reproduced": req is not None, "request": req, "real_output": ans, "expected": "a sorted duplicate-free vector after %d squeezes" % n}
                    det = "n=%d k=%d: %s" % (n, k, o.label() if o else bad_kind)
                    return finish(ob, "violated" if rep["reproduced"] else "inconclusive", st, detail=det + ("; real function: %s" % why if why else ""),
                                  cex={"n": n, "k": k, "request": req}, replay_rec=rep)
                goals = []
                sq = set()
                for o in outs:
                    spec, n_sq = spec_generate(ex, o, hold, n, k)
                    sq.add(n_sq)
                    goals.append(z3.And(*(o.pc + [z3.Not(spec)])))
                if sq != {n}:
                    goals.append(z3.BoolVal(True))
                v, model = check(ex.base + ex.axioms + [z3.Or(*goals)], st, timeout_s=120, want_model=False)
                notes.append("n=%d k=%d: %d paths, squeezes %s -> %s" % (n, k, len(outs), sorted(sq), v))
                if v == "unsat":
                    continue
                if v != "sat":
                    return finish(ob, "inconclusive", st, detail="; ".join(notes[-3:]))
                req, ans, why = None, None, None
                for kk in sorted(set([k, 1, 2])):
                    req, ans, why = native_search(max(n, 3), kk)
                    if req is not None:
                        break
                rep = {"reproduced": req is not None, "request": req, "real_output": ans, "expected": why}
                return finish(ob, "violated" if rep["reproduced"] else "inconclusive", st,
                              detail="n=%d k=%d: a path violates the specification%s" % (n, k, ("; real function on seed %s: %s" % (req["transcript"]["digest"], why)) if req else
                                                                                        " but no violating transcript seed was found natively among 48"),
                              cex={"n": n, "k": k, "request": req}, replay_rec=rep)
        # translator validation: real function vs the specification evaluated with the real Poseidon on seeded inputs
        req, ans, why = native_search(3, 2, tries=6)
        if req is not None:
            return finish(ob, "inconclusive", st, detail="specification oracle and real function disagree natively: %s" % why)
        return finish(ob, "holds", st, detail="; ".join(notes) + "; loop bound for C17: the sampling closure runs exactly n times (n squeezes on every path); "
                      "real function agrees with the specification on 6 seeded transcripts (n=3, k=2)")
    return guarded(ob, body)


def ob_bitreverse():
    ob = obligation("C10S.queries_to_points.bit_reversal", "for every log in 1..=64 and every index i < 2^log: ((i * 2^(64-log)) as u64).reverse_bits() is "
                    "the bit reversal of the log low bits of i", [sxh.F_QUERIES + "::queries_to_points"],
                    "64-bit bit-vectors, i symbolic, log enumerated 1..=64 (u64::reverse_bits = library semantics)")
    def body(ob):
        st = Stats()
        i = z3.BitVec("i", 64)
        def rev64(x):
            return z3.Concat(*[z3.Extract(b, b, x) for b in range(64)])
        bad = []
        for lg in range(1, 65):
            lhs = rev64(i << (64 - lg))
            low_rev = z3.Concat(*[z3.Extract(b, b, i) for b in range(lg)]) if lg > 1 else z3.Extract(0, 0, i)
            spec = z3.ZeroExt(64 - lg, low_rev) if lg < 64 else low_rev
            in_range = z3.ULT(i, z3.BitVecVal(2**lg, 64)) if lg < 64 else z3.BoolVal(True)
            bad.append(z3.And(in_range, lhs != spec))
        v, _ = check([z3.Or(*bad)], st, timeout_s=120)
        return finish(ob, "holds" if v == "unsat" else "inconclusive" if v != "sat" else "violated", st, detail="64 cases in one bit-vector query: %s" % v)
    return guarded(ob, body)


def ob_points(tier):
    ob = obligation("C10S.queries_to_points.dataflow", "queries_to_points maps query i to FIELD_GENERATOR * eval_generator.pow(reverse_bits(i * 2^(64 - log)))",
                    [sxh.F_QUERIES + "::queries_to_points"], "log_eval_domain_size in {1,2,3,20,64}; 1..3 queries symbolic < 2^log; pow / mul uninterpreted")
    def body(ob):
        st = Stats()
        notes = []
        for lg in (1, 2, 3, 20, 64):
            for nq in (1, 2, 3):
                ex = Exec(world("recursive"))
                hold = {}
                def entry(ex):
                    h = H(ex)
                    dom = h.struct(sxh.F_DOMAINS, "StarkDomains", "dom", {})
                    dom.fields["log_eval_domain_size"] = F(lg)
                    qs = h.felts("q", nq)
                    for q in qs:
                        ex.assume(zi(q) < 2**lg)
                    hold.update(dom=dom, qs=deep_copy(qs))
                    return h.call(sxh.F_QUERIES, "queries_to_points", [qs, dom])
                outs = ex.explore(entry, max_paths=20)
                feas = []
                for o in outs:
                    if o.kind == "ok":
                        feas.append(o)
                        continue
                    v, model = sxh.solve_path(ex, o, hold, st, timeout_s=60)
                    if v != "unsat":
                        c = concretize(hold, model) if v == "sat" else None
                        req = {"fn": "queries_to_points", "queries": to_json(c["qs"]), "stark_domains": to_json(c["dom"])} if c else None
                        ans = replay([req], LAY)[0] if req else None
                        rep = {"reproduced": bool(ans) and "ok" not in ans, "request": req, "real_output": ans}
                        return finish(ob, "violated" if rep["reproduced"] else "inconclusive", st, detail="log=%d: %s" % (lg, o.label()), cex={"request": req}, replay_rec=rep)
                if len(feas) != 1:
                    return finish(ob, "inconclusive", st, detail="log=%d: expected one path, got %r" % (lg, outs))
                o = feas[0]
                gen = hold["dom"].fields["eval_generator"]
                for j in range(nq):
                    idx = ex.f_mul(hold["qs"][j], F(2**(64 - lg)))
                    rb = ex.int_method(SI(zi(idx), 2**64 - 1), "reverse_bits", [], 0, None)
                    expect = ex.f_mul(F(3), ex.f_pow(gen, rb, 0))
                    s = z3.Solver()
                    s.set("timeout", 20000)
                    for a in ex.base + ex.axioms + o.pc:
                        s.add(a)
                    s.add(zi(o.value[j]) != zi(expect))
                    r = s.check()
                    st.queries += 1
                    if r != z3.unsat:
                        # native: compare with 3 * g^bitrev(i)
                        dom = replay([{"fn": "stark_domains_new", "log_trace_domain_size": hx(max(lg - 1, 0)), "log_n_cosets": hx(1 if lg >= 1 else 0)}], LAY)[0]["ok"]
                        qv = [max(1, 2**lg - 1 - jj) for jj in range(nq)]
                        req = {"fn": "queries_to_points", "queries": [hx(x) for x in qv], "stark_domains": dom}
                        ans = replay([req], LAY)[0]
                        g = int(dom["eval_generator"], 16)
                        exp = [hx(3 * pow(g, int(format(x, "0%db" % lg)[::-1], 2), P) % P) for x in qv]
                        rep = {"reproduced": ans.get("ok") != exp, "request": req, "real_output": ans, "expected": exp}
                        return finish(ob, "violated" if rep["reproduced"] else "inconclusive", st, detail="log=%d: point %d is not 3 * g^bitrev(i)" % (lg, j),
                                      cex={"request": req}, replay_rec=rep)
                notes.append("log=%d x%d ok" % (lg, nq))
        # translator validation against the closed form
        dom = replay([{"fn": "stark_domains_new", "log_trace_domain_size": hx(4), "log_n_cosets": hx(1)}], LAY)[0]["ok"]
        qv = [3, 17, 30]
        ans = replay([{"fn": "queries_to_points", "queries": [hx(x) for x in qv], "stark_domains": dom}], LAY)[0]
        g = int(dom["eval_generator"], 16)
        exp = [hx(3 * pow(g, int(format(x, "05b")[::-1], 2), P) % P) for x in qv]
        if ans.get("ok") != exp:
            return finish(ob, "inconclusive", st, detail="closed form disagrees with the real function natively")
        return finish(ob, "holds", st, detail=", ".join(notes) + "; real function = 3*g^bitrev(i) on 3 concrete queries (log 5)")
    return guarded(ob, body)


def run(tier):
    obs = [ob_generate(tier), ob_bitreverse(), ob_points(tier)]
    return {"property": "C10S", "tier": tier, "engine": "felt-sx", "assumptions": ASSUMPTIONS, "obligations": obs,
            "outside": ["n > 3 samples (sorting network / dedup case split size)", "the statistical claim about collisions", "agreement with recorded prover logs"]}
