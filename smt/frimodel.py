"""Small FRI / STARK instances for the felt-sx properties: index geometry (independent of the Rust code), symbolic instances with
honest vector lengths (+ length tweaks), and concrete instances that are honest BY CONSTRUCTION (built by running the parsed
gather_first_layer_queries / compute_next_layer / Merkle root code concretely with real hash values from replay_e2)."""
import z3

import common
from common import P, hx
from rsparse import Unsupported
from symex import F, RList, ResultV
from sx import Exec
from sxval import SF, SStruct, zi, deep_copy
import sxh
from sxh import H, set_path


def merkle_auth_count(indices, height):
    """number of authentication nodes the vector decommitment consumes for leaf `indices` of a tree of the given height"""
    level = set(i + 2**height for i in indices)
    count = 0
    while level and level != {1}:
        nxt = set()
        for idx in sorted(level):
            if (idx ^ 1) not in level:
                count += 1
            nxt.add(idx // 2)
        level = nxt
    return count


def geometry(steps, bound, lnc, queries):
    lis = sum(steps) + bound + lnc
    qs = sorted(set(queries))
    for q in qs:
        if not 0 <= q < 2**lis:
            raise ValueError("query %d outside the FRI input domain 2^%d" % (q, lis))
    layers = []
    for i in range(1, len(steps)):
        cs = 2**steps[i]
        cosets = sorted(set(q // cs for q in qs))
        n_leaves = sum(cs - len([q for q in qs if q // cs == c]) for c in cosets)
        height = lis - sum(steps[1:i + 1])
        layers.append({"coset_size": cs, "queries": qs, "cosets": cosets, "n_leaves": n_leaves, "height": height,
                       "n_auth": merkle_auth_count(cosets, height), "n_columns": cs})
        qs = cosets
    return {"steps": steps, "bound": bound, "lnc": lnc, "log_input_size": lis, "queries": sorted(set(queries)), "layers": layers,
            "last_queries": qs, "n_coefficients": 2**bound}


def fri_commitment(h, g, nvf, name="com", tweak=None):
    """types::Commitment as fri_commit returns it for the validated config (vector lengths can be tweaked)"""
    tweak = tweak or {}
    n = len(g["steps"])
    ncom = max(0, n - 1 + tweak.get("inner_layers", 0))
    nev = max(0, n - 1 + tweak.get("eval_points", 0))
    ncoef = max(0, g["n_coefficients"] + tweak.get("last_layer_coefficients", 0))
    com = h.struct(sxh.F_FRITYPES, "Commitment", name, {name + ".config.inner_layers": n - 1, name + ".config.fri_step_sizes": n,
                                                          name + ".inner_layers": ncom, name + ".eval_points": nev,
                                                          name + ".last_layer_coefficients": ncoef})
    cfg = sxh.fri_config(h, name + ".config", g["steps"], g["bound"], g["lnc"], nvf)
    if "fri_step_sizes" in tweak:
        k = max(0, n + tweak["fri_step_sizes"])
        cfg.fields["fri_step_sizes"] = RList(list(cfg.fields["fri_step_sizes"])[:k] + [F(1)] * max(0, k - n))
    com.fields["config"] = cfg
    for i, t in enumerate(com.fields["inner_layers"]):
        src = cfg.fields["inner_layers"][min(i, n - 2)] if n > 1 else None
        if src is not None:
            t.fields["config"] = deep_copy(src)
            set_path(t, "vector_commitment.config", deep_copy(src.fields["vector"]))
    return com


def fri_witness(h, g, name="wit", tweak=None):
    tweak = tweak or {}
    n = len(g["steps"])
    nl = max(0, n - 1 + tweak.get("layers", 0))
    shape = {name + ".layers": nl}
    for i in range(nl):
        lay = g["layers"][min(i, n - 2)]
        shape["%s.layers[%d].leaves" % (name, i)] = max(0, lay["n_leaves"] + tweak.get(("leaves", i), 0))
        shape["%s.layers[%d].table_witness.vector.authentications" % (name, i)] = max(0, lay["n_auth"] + tweak.get(("authentications", i), 0))
    return h.struct(sxh.F_FRITYPES, "Witness", name, shape)


def fri_decommitment(h, g, name="dec", tweak=None):
    tweak = tweak or {}
    nq = len(g["queries"])
    return h.struct(sxh.F_FRITYPES, "Decommitment", name, {name + ".values": max(0, nq + tweak.get("values", 0)),
                                                            name + ".points": max(0, nq + tweak.get("points", 0))})


def fri_instance(h, g, nvf=None, tweak=None):
    nvf = h.felt("nvf") if nvf is None else nvf
    tweak = tweak or {}
    qs = RList([F(q) for q in g["queries"]])
    if "queries" in tweak:
        k = max(0, len(qs) + tweak["queries"])
        qs = RList(list(qs)[:k] + [F(2**g["log_input_size"] - 1)] * max(0, k - len(qs)))
    return {"queries": qs, "commitment": fri_commitment(h, g, nvf, tweak=tweak), "decommitment": fri_decommitment(h, g, tweak=tweak),
            "witness": fri_witness(h, g, tweak=tweak), "nvf": nvf}


def observe(ex, names, log):
    """hooks that run the REAL parsed function and record (name, copied args, result) - `re-executed with the same arguments`"""
    hooks = {}
    for owner, name in names:
        def hook(ex_, args, line, owner=owner, name=name):
            saved = [deep_copy(a) for a in args]
            if owner is None:
                fn, mod = ex_.world.find_fn(name, ex_.mod)
                r = ex_.call_fn(fn, mod, args, line)
            else:
                m, o = ex_.resolve_owner(owner)
                fn, mod = ex_.world.find_method(o, name, m)
                r = ex_.call_fn(fn, mod, args, line)
            log.append((name, saved, r))
            ex_.events.append(("call:" + name, saved, r, ex_.file, line))
            return r
        hooks[(owner, name)] = hook
    return hooks


# ------------------------------------------------------------------------------------------------ honest concrete instances
def interpolate(points):
    """coefficients (low to high) of the polynomial of degree < len(points) through (x_i, y_i) mod p"""
    n = len(points)
    coefs = [0] * n
    for i, (xi, yi) in enumerate(points):
        num = [1]
        den = 1
        for j, (xj, _) in enumerate(points):
            if i == j:
                continue
            num = [(a - xj * b) % P for a, b in zip([0] + num, num + [0])]
            den = den * (xi - xj) % P
        s = yi * pow(den, P - 2, P) % P
        for k in range(len(num)):
            coefs[k] = (coefs[k] + num[k] * s) % P
    return coefs


def honest_fri(w, g, r, orc, nvf=0, values=None, points=None):
    """concrete FRI instance accepted by construction: random input values / points / sibling leaves / authentication nodes;
    layer values by the parsed compute_next_layer, Merkle roots by the parsed table_decommit (the expected root is read off the
    MisMatch error of a first run), last layer by interpolation through the final queries.  Returns JSON-ready dict."""
    ex = Exec(w, hash_oracle=orc, int_bound=17)
    out = {}
    args_values, args_points = values, points
    def entry(ex):
        h = H(ex)
        n = len(g["steps"])
        nq = len(g["queries"])
        queries = RList([F(q) for q in g["queries"]])
        values = RList([F(r.randrange(P)) for _ in range(nq)]) if args_values is None else RList([F(v) for v in args_values])
        points = RList([F(r.randrange(1, P)) for _ in range(nq)]) if args_points is None else RList([F(v) for v in args_points])
        cfg = sxh.fri_config(h, "cfg", g["steps"], g["bound"], g["lnc"], F(nvf))
        fq = h.call(sxh.F_FIRST, "gather_first_layer_queries", [queries, deep_copy(values), deep_copy(points)])
        group = h.call("crates/fri/src/group.rs", "get_fri_group", [])
        eval_points, commitments, layers_w = [], [], []
        for i in range(1, n):
            lay = g["layers"][i - 1]
            ep = F(r.randrange(P))
            leaves = RList([F(r.randrange(P)) for _ in range(lay["n_leaves"])])
            auth = RList([F(r.randrange(P)) for _ in range(lay["n_auth"])])
            params = SStruct("FriLayerComputationParams", {"coset_size": F(lay["coset_size"]), "fri_group": group, "eval_point": ep}, h.w.mod(sxh.F_LAYER))
            res = h.call(sxh.F_LAYER, "compute_next_layer", [fq, deep_copy(leaves), params])
            if not (isinstance(res, ResultV) and res.kind == "Ok"):
                raise Unsupported("?", 0, "compute_next_layer failed on the honest instance: %r" % (res,))
            nxt, vidx, vy = res.value
            tcfg = cfg.fields["inner_layers"][i - 1]
            tcom = SStruct("Commitment", {"config": deep_copy(tcfg), "vector_commitment": SStruct(
                "Commitment", {"config": deep_copy(tcfg.fields["vector"]), "commitment_hash": F(0)}, h.w.mod(sxh.F_VTYPES))}, h.w.mod(sxh.F_TTYPES))
            twit = SStruct("Witness", {"vector": SStruct("Witness", {"authentications": auth}, h.w.mod(sxh.F_VTYPES))}, h.w.mod(sxh.F_TTYPES))
            tdec = SStruct("Decommitment", {"values": deep_copy(vy)}, h.w.mod(sxh.F_TTYPES))
            rr = h.call(sxh.F_TDECOMMIT, "table_decommit", [deep_copy(tcom), vidx, tdec, deep_copy(twit)])
            root = None
            if isinstance(rr, ResultV) and rr.kind == "Err":
                e = rr.value
                while getattr(e, "payload", None) and isinstance(e.payload, list):
                    e = e.payload[0]
                if getattr(e, "variant", None) == "MisMatch":
                    root = e.payload["expected"]
            elif isinstance(rr, ResultV) and rr.kind == "Ok":
                root = F(0)
            if root is None:
                raise Unsupported("?", 0, "could not derive the honest Merkle root: %r" % (rr,))
            tcom.fields["vector_commitment"].fields["commitment_hash"] = root
            eval_points.append(ep)
            commitments.append(tcom)
            lw = SStruct("LayerWitness", {"leaves": leaves, "table_witness": twit}, h.w.mod(sxh.F_FRITYPES))
            layers_w.append(lw)
            fq = nxt
        pts = []
        for q in fq:
            x = pow(q.fields["x_inv_value"].v, P - 2, P)
            pts.append((x, q.fields["y_value"].v))
        ncoef = g["n_coefficients"]
        if len(set(p_[0] for p_ in pts)) != len(pts) or len(pts) > ncoef:
            raise Unsupported("?", 0, "honest instance needs #final queries <= 2^bound (got %d > %d)" % (len(pts), ncoef))
        coefs = interpolate(pts) + [0] * (ncoef - len(pts))
        com = SStruct("Commitment", {"config": cfg, "inner_layers": RList(commitments), "eval_points": RList(eval_points),
                                     "last_layer_coefficients": RList([F(c) for c in coefs])}, h.w.mod(sxh.F_FRITYPES))
        dec = SStruct("Decommitment", {"values": values, "points": points}, h.w.mod(sxh.F_FRITYPES))
        wit = SStruct("Witness", {"layers": RList(layers_w)}, h.w.mod(sxh.F_FRITYPES))
        out.update(queries=queries, commitment=com, decommitment=dec, witness=wit)
        return ()
    o = ex.run_concrete(entry)
    if o is None or o.kind != "ok":
        raise Unsupported("?", 0, "honest FRI construction failed: %r" % (o,))
    return out
