"""Harness helpers of the felt-sx properties: call parsed functions by (file, name), build symbolic inputs from the parsed struct
definitions, chain real functions (`config accepted by validate` etc.), decide path sets and replay counterexamples."""
import os
import z3

import common
from common import Stats, check, finish, obligation, replay, hx, P
from rsparse import Unsupported
from symex import F, RList, ResultV
from sx import Exec, Pruned, Outcome
from sxlib import Builder, concretize, to_json, mval, leaf_terms, outcome_label, native_label, same_outcome
from sxval import SF, SI, SStruct, EnumV, zi
from sxworld import World, DEFAULT_FEATURES

F_FRI = "crates/fri/src/fri.rs"
F_FRICFG = "crates/fri/src/config.rs"
F_FRITYPES = "crates/fri/src/types.rs"
F_LAYER = "crates/fri/src/layer.rs"
F_FORMULA = "crates/fri/src/formula.rs"
F_FIRST = "crates/fri/src/first_layer.rs"
F_LAST = "crates/fri/src/last_layer.rs"
F_STARKCFG = "crates/stark/src/config.rs"
F_COMMIT = "crates/stark/src/commit.rs"
F_VERIFY = "crates/stark/src/verify.rs"
F_OODS = "crates/stark/src/oods.rs"
F_QUERIES = "crates/stark/src/queries.rs"
F_STARKTYPES = "crates/stark/src/types.rs"
F_STARK = "crates/stark/src/stark.rs"
F_DOMAINS = "crates/air/src/domains.rs"
F_PUBMEM = "crates/air/src/public_memory.rs"
F_TRACE = "crates/air/src/trace/mod.rs"
F_TRACECFG = "crates/air/src/trace/config.rs"
F_TRANSCRIPT = "crates/transcript/src/transcript.rs"
F_POW = "crates/pow/src/pow.rs"
F_POWCFG = "crates/pow/src/config.rs"
F_TDECOMMIT = "crates/commitment/src/table/decommit.rs"
F_TTYPES = "crates/commitment/src/table/types.rs"
F_TCONFIG = "crates/commitment/src/table/config.rs"
F_VDECOMMIT = "crates/commitment/src/vector/decommit.rs"
F_VTYPES = "crates/commitment/src/vector/types.rs"
F_VCONFIG = "crates/commitment/src/vector/config.rs"
TOY = os.path.join(common.VERIF, "replay_e2", "src", "toy.rs")

_worlds = {}

def world(layout="recursive", toy=False, features=None):
    key = (layout, toy, features)
    if key not in _worlds:
        feats = ((DEFAULT_FEATURES - {"recursive"}) | {layout} if layout else DEFAULT_FEATURES) if features is None else features
        _worlds[key] = World(layout=layout, features=feats, extra_files=[TOY] if toy else [])
    return _worlds[key]


class H(object):
    def __init__(self, ex):
        self.ex, self.w = ex, ex.world
        self.b = Builder(ex)

    def fn(self, rel, name, owner=None):
        m = self.w.mod(rel)
        f = m.methods.get((owner, name)) if owner else m.fns.get(name)
        if f is None:
            raise Unsupported(m.file, 0, "function %s%s not found" % ((owner + "::") if owner else "", name))
        return f, m

    def call(self, rel, name, args, owner=None, self_val=None):
        f, m = self.fn(rel, name, owner)
        return self.ex.call_fn(f, m, list(args), f.line, self_val=self_val)

    def struct(self, rel, sname, name, shape):
        return self.b.struct(self.w.mod(rel), sname, name, shape)

    def felt(self, name):
        return self.b.felt(name)

    def felts(self, name, n):
        return RList([self.b.felt("%s[%d]" % (name, i)) for i in range(n)])

    def require_ok(self, r):
        """precondition: the call returned Ok (paths where it did not are pruned)"""
        if isinstance(r, ResultV):
            if r.kind != "Ok":
                raise Pruned()
            return r.value
        return r

    def transcript(self, name="tr"):
        return self.struct(F_TRANSCRIPT, "Transcript", name, {})


def site_id(out):
    return "%s:%s" % (os.path.basename(str(out.site[0])), out.site[1])


def rel_site(out):
    f = str(out.site[0])
    return common.rel(f) if f.startswith(common.REPO) else f


def group_panics(outs):
    """{(file, line): [outcomes]} for panic and unbounded outcomes"""
    g = {}
    for o in outs:
        if o.kind in ("panic", "unbounded"):
            g.setdefault((rel_site(o), o.site[1], o.kind), []).append(o)
    return g


def solve_path(ex, out, values, st, timeout_s=60, extra=(), bias_vars=()):
    """is the path feasible?  returns (verdict, model) with the model evaluated on all leaves of `values`.
    A first attempt restricts the free felt inputs to {0,1}: there the uninterpreted multiplication is exact (x*0=0, x*1=x), so the
    model is a faithful input of the real function; the unrestricted query decides feasibility if that attempt is unsat."""
    terms = leaf_terms(values)
    base = ex.base + ex.axioms + out.pc + list(extra)
    if bias_vars:
        tmp = Stats()
        v, m = check(base + [t <= 1 for t in bias_vars], tmp, timeout_s=min(timeout_s, 20), want_model=True, eval_terms=terms, xcheck=False)
        st.queries += tmp.queries
        st.seconds += tmp.seconds
        if v == "sat":
            return v, m
    return check(base, st, timeout_s=timeout_s, want_model=True, eval_terms=terms, xcheck=False)


# ------------------------------------------------------------------------------------------------ concrete (honest) configurations
def set_path(st, path, value):
    """assign a nested struct field `a.b.c`"""
    parts = path.split(".")
    for p in parts[:-1]:
        st = st.fields[p]
    if parts[-1] not in st.fields:
        raise Unsupported("?", 0, "struct %s has no field %s" % (st.name, parts[-1]))
    st.fields[parts[-1]] = value


def fri_config(h, name, steps, bound, lnc, nvf):
    """fri::Config with CONCRETE numbers consistent with fri::Config::validate: steps = [0, s1, ..], last layer degree bound 2^bound"""
    n = len(steps)
    cfg = h.struct(F_FRICFG, "Config", name, {name + ".inner_layers": n - 1, name + ".fri_step_sizes": n})
    lis = sum(steps) + bound + lnc
    set_path(cfg, "log_input_size", F(lis))
    set_path(cfg, "n_layers", F(n))
    set_path(cfg, "log_last_layer_degree_bound", F(bound))
    cur = lis
    for i in range(n):
        cfg.fields["fri_step_sizes"][i] = F(steps[i])
    for i in range(1, n):
        cur -= steps[i]
        t = cfg.fields["inner_layers"][i - 1]
        set_path(t, "n_columns", F(2 ** steps[i]))
        set_path(t, "vector.height", F(cur))
        set_path(t, "vector.n_verifier_friendly_commitment_layers", nvf)
    return cfg


def stark_config_concrete(h, name, steps, bound, lnc, n_queries=None, nvf=None):
    """StarkConfig whose FRI part, log_n_cosets, log_trace_domain_size and all Merkle heights are concrete and mutually consistent;
    column counts, n_queries (unless given), proof-of-work bits and the friendly-layer count stay symbolic"""
    n = len(steps)
    cfg = h.struct(F_STARKCFG, "StarkConfig", name, {name + ".fri.inner_layers": n - 1, name + ".fri.fri_step_sizes": n})
    nvf = cfg.fields["n_verifier_friendly_commitment_layers"] if nvf is None else nvf
    cfg.fields["n_verifier_friendly_commitment_layers"] = nvf
    fri = fri_config(h, name + ".fri", steps, bound, lnc, nvf)
    cfg.fields["fri"] = fri
    lt = sum(steps) + bound
    cfg.fields["log_trace_domain_size"] = F(lt)
    cfg.fields["log_n_cosets"] = F(lnc)
    if n_queries is not None:
        cfg.fields["n_queries"] = F(n_queries)
    for t in (cfg.fields["traces"].fields["original"], cfg.fields["traces"].fields["interaction"], cfg.fields["composition"]):
        set_path(t, "vector.height", F(lt + lnc))
        set_path(t, "vector.n_verifier_friendly_commitment_layers", nvf)
    return cfg


# ------------------------------------------------------------------------------------------------ native repair of counterexamples
import copy
import re

_MISMATCH = re.compile(r"MisMatch \{ value: (0x[0-9a-fA-F]+), expected: (0x[0-9a-fA-F]+) \}")
_OODS = re.compile(r"EvaluationInvalid \{ expected: (0x[0-9a-fA-F]+), actual: (0x[0-9a-fA-F]+) \}")


def _hash_slots(node, path=()):
    out = []
    if isinstance(node, dict):
        for k, v in node.items():
            if k == "commitment_hash" and isinstance(v, str):
                out.append(path + (k,))
            else:
                out += _hash_slots(v, path + (k,))
    elif isinstance(node, list):
        for i, v in enumerate(node):
            out += _hash_slots(v, path + (i,))
    return out


def _get(node, path):
    for p in path:
        node = node[p]
    return node


def _set(node, path, v):
    for p in path[:-1]:
        node = node[p]
    node[path[-1]] = v


def repair_replay(req, layouts, want=lambda a: "panic" in a, rounds=8):
    """A solver model interprets the hash functions freely, so its Merkle roots / claimed composition value are not the REAL hash values
    of its other fields.  Those are free inputs of the replayed function: set them to what the real function computes (read off its
    MisMatch / EvaluationInvalid error) and re-run, until the wanted behaviour shows or nothing changes.  Returns (request, answer, log)."""
    req = copy.deepcopy(req)
    log = []
    ans = replay([req], layouts)[0]
    for _ in range(rounds):
        if want(ans) or "err" not in ans:
            break
        e = ans["err"]
        m = _OODS.search(e)
        if m and "toy" not in req or (m and req.get("toy", {}).get("composition") != m.group(1)):
            req.setdefault("toy", {})["composition"] = m.group(1)
            log.append("toy composition value := claimed composition %s" % m.group(1)[:14])
            ans = replay([req], layouts)[0]
            continue
        m = _MISMATCH.search(e)
        if m:
            val, exp = m.group(1), m.group(2)
            moved = False
            for path in _hash_slots(req):
                if int(_get(req, path), 16) != int(val, 16):
                    continue
                trial = copy.deepcopy(req)
                _set(trial, path, exp)
                a2 = replay([trial], layouts)[0]
                if a2 != ans:
                    req, ans, moved = trial, a2, True
                    log.append("%s := real root %s.." % (".".join(str(p) for p in path), exp[:14]))
                    break
            if moved:
                continue
        break
    return req, ans, log
