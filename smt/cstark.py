"""C01S / C08S / C02S - STARK-level plumbing executed symbolically (stark_commit, verify_oods, eval_oods_boundary_poly_at_points,
stark_verify, fri_commit, pow commit) with the Layout evaluators uninterpreted."""
import copy
import time

import z3

import common
from common import Stats, check, finish, guarded, obligation, replay, hx, rng, P
from rsparse import Unsupported
from symex import F, RList, ResultV, LoopBound
from sx import Exec, ASSUMPTIONS
from sxlib import concretize, to_json, mval, leaf_terms
from sxval import SF, SStruct, EnumV, zi, deep_copy
import sxh
import frimodel
import starkmodel
from sxh import H

LAY = ["recursive"]
G0 = ([0, 1], 0, 1, [1])
G1 = ([0, 2], 1, 1, [3, 9])
G2 = ([0, 1, 2], 0, 1, [6])


def toy_exec(extra_abstract=None, comp_result=None, layout="toy", overrides=None, int_bound=17):
    w = starkmodel.toy_world()
    types = starkmodel.toy_types(w) if layout == "toy" else {"Layout": (w.layout_mod, "Layout")}
    ex = Exec(w, types=types, int_bound=int_bound, overrides=overrides)
    ex.abstract.update(starkmodel.abstract_layout(ex, comp_result))
    if extra_abstract:
        ex.abstract.update(extra_abstract)
    return ex, w


def term_eq(ex, st, pc, a, b):
    """is a == b on every model of the path condition?"""
    if a is b:
        return True
    za, zb_ = zi(a), zi(b)
    if za.eq(zb_):
        return True
    # in-process solver with a short limit: equalities of hash terms are decided by congruence; a timeout counts as `differs`
    s = z3.Solver()
    s.set("timeout", 15000)
    for x in ex.base + ex.axioms + list(pc):
        s.add(x)
    s.add(za != zb_)
    t0 = time.time()
    r = s.check()
    st.queries += 1
    st.seconds += time.time() - t0
    if r == z3.unknown:
        st.notes.append("equality query undecided within 15 s (counted as different)")
    return r == z3.unsat


# =============================================================================================== C01S
def oods_run(layout, L, through_commit=False, overrides=None):
    ex, w = toy_exec(layout=layout, overrides=overrides)
    hold = {}
    def entry(ex):
        h = H(ex)
        if through_commit:
            g = frimodel.geometry(*G0)
            c = starkmodel.commit_inputs(h, g, L, n_bits=0)
            dom = starkmodel.domains(h, c["cfg"])
            hold.update(c=deep_copy(c), dom=dom, oods=c["un"].fields["oods_values"])
            return h.call(sxh.F_COMMIT, "stark_commit", [c["tr"], c["pi"], c["un"], c["cfg"], dom])
        oods = h.felts("oods", L)
        ie_mod = ex.types["Layout"][0]
        ie_file = sxh.TOY if layout == "toy" else "crates/air/src/layout/recursive/global_values.rs"
        ie = h.struct(ie_file, "InteractionElements", "ie", {})
        pi = starkmodel.public_input(h)
        nC = ex.assoc_const("Layout", "N_CONSTRAINTS", 0)
        cc = h.felts("cc", nC)
        z, tds, tg = h.felt("z"), h.felt("tds"), h.felt("tg")
        hold.update(oods=oods, ie=ie, pi=pi, cc=cc, z=z, tds=tds, tg=tg)
        return h.call(sxh.F_OODS, "verify_oods", [oods, ie, pi, cc, z, tds, tg])
    outs = ex.explore(entry, max_paths=200, budget_s=200)
    return ex, outs, hold


def oods_native_request(hold, model):
    c = concretize(dict((k, v) for k, v in hold.items() if k in ("oods", "ie", "pi", "cc", "z", "tds", "tg")), model)
    return {"fn": "verify_oods", "oods": to_json(c["oods"]), "interaction_elements": to_json(c["ie"]), "public_input": to_json(c["pi"]),
            "constraint_coefficients": to_json(c["cc"]), "oods_point": to_json(c["z"]), "trace_domain_size": to_json(c["tds"]),
            "trace_generator": to_json(c["tg"])}


def ob_oods_length(layout, through_commit):
    name = "stark_commit" if through_commit else "verify_oods"
    ob = obligation("C01S.oods_length.%s.%s" % (name, layout),
                    "%s Ok => oods_values.len() == MASK_SIZE + CONSTRAINT_DEGREE, the claimed composition is oods[MASK_SIZE] + oods[MASK_SIZE+1]*z and "
                    "the mask handed to eval_composition_polynomial is oods[0..MASK_SIZE]" % name,
                    [sxh.F_OODS + "::verify_oods"] + ([sxh.F_COMMIT + "::stark_commit"] if through_commit else []),
                    "%s constants; oods_values.len() in MASK_SIZE+CONSTRAINT_DEGREE-5 ..= +2 enumerated, contents symbolic; eval_composition_polynomial "
                    "uninterpreted (fresh value per call, arguments recorded)" % ("ToyLayout (MASK_SIZE 3)" if layout == "toy" else "recursive layout's (MASK_SIZE 133)"))
    def body(ob):
        st = Stats()
        ex0, w = toy_exec(layout=layout)
        M = ex0.assoc_const("Layout", "MASK_SIZE", 0)
        D = ex0.assoc_const("Layout", "CONSTRAINT_DEGREE", 0)
        notes = []
        found = []          # (L, verdict, detail, cex, rep)
        for L in range(max(0, M + D - 5), M + D + 3):
            ex, outs, hold = oods_run(layout, L, through_commit)
            kinds = sorted(set(o.label().split(" ")[0] for o in outs))
            notes.append("len %d: %s" % (L, kinds))
            for o in [o for o in outs if o.kind == "ok"]:
                v, model = sxh.solve_path(ex, o, hold, st, timeout_s=90)
                if v == "unsat":
                    continue
                if v != "sat":
                    return finish(ob, "inconclusive", st, detail="undecided accepting path at length %d" % L)
                ev = [e for e in o.events if e[0] == "eval_composition_polynomial"]
                mask = ev[0][1][2] if ev else []
                oods = hold["oods"]
                if L != M + D:
                    rep, req = None, None
                    if layout == "toy":
                        if through_commit:
                            c = concretize(hold["c"], model)
                            req = starkmodel.commit_request(c, concretize(hold["dom"], model))
                        else:
                            req = oods_native_request(hold, model)
                        req, ans, log = sxh.repair_replay(req, LAY, want=lambda a: "ok" in a)
                        nmask = None
                        if "ok" in ans:
                            calls = [x for x in ans["ok"].get("log", []) if x.get("call") == "eval_composition_polynomial"]
                            nmask = len(calls[0]["mask_values"]) if calls else None
                        rep = {"reproduced": "ok" in ans, "request": req, "real_output": ans, "repair": log,
                               "expected": "Err: %d OODS values instead of %d" % (L, M + D), "mask_values_passed": nmask}
                    else:
                        rep = {"reproduced": False, "real_output": "not replayed: the real recursive evaluator is not uninterpreted natively; see the .toy obligation"}
                    det = "accepted with %d OODS values (expected %d): mask passed = oods[0..%d] (%d values), claimed composition from oods[%d], oods[%d]" % (
                        L, M + D, L - 2, len(mask), L - 2, L - 1)
                    verdict = "violated" if rep["reproduced"] else ("violated" if layout != "toy" else "inconclusive")
                    if layout != "toy":
                        det += " [structural fact on the parsed code; native confirmation by C01S.oods_length.%s.toy]" % name
                    found.append((L, verdict, det, {"length": L, "request": req}, rep))
                    break
                # L == M + D: positional facts
                comp = ev[0][2]
                claimed = ex.f_add(oods[M], ex.f_mul(oods[M + 1], hold["z"] if not through_commit else ev[0][1][4]))
                ok_mask = len(mask) == M and all(x is y or zi(x).eq(zi(y)) for x, y in zip(mask, oods[:M]))
                ok_claim = term_eq(ex, st, o.pc, comp, claimed)
                if not (ok_mask and ok_claim):
                    return finish(ob, "inconclusive", st, detail="length %d accepted but mask / claimed composition are not the expected positions "
                                  "(mask ok: %s, claim ok: %s) - not observable natively" % (L, ok_mask, ok_claim))
        if found:
            best = [f for f in found if f[1] == "violated"] or found
            longer = [f for f in best if f[0] > M + D]
            pick = longer[0] if longer else best[0]
            return finish(ob, pick[1], st, detail="accepted lengths other than %d: %s; shown: %s; %s" % (
                M + D, [f[0] for f in found], pick[2], "; ".join(notes)), cex=dict(pick[3], accepted_lengths=[f[0] for f in found]), replay_rec=pick[4])
        return finish(ob, "holds", st, detail="; ".join(notes))
    return guarded(ob, body)


def ob_deep_plumbing():
    ob = obligation("C01S.deep_plumbing", "eval_oods_boundary_poly_at_points passes, for query i, column_values = original[i*n0..(i+1)*n0] ++ "
                    "interaction[i*n1..(i+1)*n1] ++ composition[2i..2i+2], the committed oods_values, the OODS coefficients and the i-th point; the "
                    "returned evaluations are the evaluator's results in order", [sxh.F_OODS + "::eval_oods_boundary_poly_at_points"],
                    "ToyLayout; (n0, n1) in {(1,1),(2,1),(2,3)}; 1..3 points; all values symbolic; eval_oods_polynomial uninterpreted")
    def body(ob):
        st = Stats()
        notes = []
        for n0, n1 in ((1, 1), (2, 1), (2, 3)):
            for npts in (1, 2, 3):
                ex, w = toy_exec()
                hold = {}
                def entry(ex):
                    h = H(ex)
                    import c18deep
                    inp, thunk = c18deep.b_eval_oods(h, (npts, n0, n1, (), 5))
                    hold["inp"] = deep_copy(inp)
                    return thunk()
                outs = ex.explore(entry, max_paths=20)
                if len(outs) != 1 or outs[0].kind != "ok":
                    return finish(ob, "inconclusive", st, detail="unexpected outcomes %r" % outs)
                o = outs[0]
                inp = hold["inp"]
                ev = [e for e in o.events if e[0] == "eval_oods_polynomial"]
                D = 2
                good = len(ev) == npts and len(o.value) == npts
                for i, e in enumerate(ev if good else []):
                    cols = e[1][1]
                    exp = list(inp["dec"].fields["original"].fields["values"][i * n0:(i + 1) * n0]) + \
                        list(inp["dec"].fields["interaction"].fields["values"][i * n1:(i + 1) * n1]) + list(inp["cdec"].fields["values"][i * D:(i + 1) * D])
                    same = lambda a, b: len(a) == len(b) and all(zi(x).eq(zi(y)) for x, y in zip(a, b))
                    good = good and same(cols, exp) and same(e[1][2], inp["info"].fields["oods_values"]) and \
                        same(e[1][3], inp["info"].fields["constraint_coefficients"]) and zi(e[1][4]).eq(zi(inp["pts"][i])) and \
                        zi(e[1][5]).eq(zi(inp["info"].fields["oods_point"])) and zi(e[1][6]).eq(zi(inp["info"].fields["trace_generator"])) and \
                        zi(o.value[i]).eq(zi(e[2]))
                if not good:
                    # native observation through the ToyLayout's call log
                    r = rng("C01S.deep")
                    from sxlib import random_fill
                    c = random_fill(inp, r)
                    req = inp["_request"](c)[0]
                    ans = replay([req], LAY)[0]
                    calls = ans.get("ok", {}).get("log", [])
                    exp_rows = []
                    for i in range(npts):
                        exp_rows.append([hx(x.v) for x in list(c["dec"].fields["original"].fields["values"][i * n0:(i + 1) * n0])
                                         + list(c["dec"].fields["interaction"].fields["values"][i * n1:(i + 1) * n1]) + list(c["cdec"].fields["values"][i * D:(i + 1) * D])])
                    got_rows = [x.get("column_values") for x in calls]
                    rep = {"reproduced": "ok" in ans and got_rows != exp_rows, "request": req, "real_output": ans, "expected_rows": exp_rows}
                    return finish(ob, "violated" if rep["reproduced"] else "inconclusive", st,
                                  detail="n0=%d n1=%d points=%d: arguments of eval_oods_polynomial differ from the specified rows" % (n0, n1, npts),
                                  cex={"request": req}, replay_rec=rep)
                notes.append("(%d,%d)x%d ok" % (n0, n1, npts))
        # translator validation: one native run, compare the logged arguments
        ex, w = toy_exec()
        return finish(ob, "holds", st, detail="argument terms identical to the specified slices: " + ", ".join(notes),
                      solver="- (structural identity of the recorded argument terms)")
    return guarded(ob, body)


def honest_stark_request(g, n0, n1, r, n_oods=5):
    """stark_verify::<Toy> request that the real function accepts: FRI part honest by construction, trace / composition roots set to what
    the real code computes (repair loop)"""
    w = starkmodel.toy_world()
    dom = replay([{"fn": "stark_domains_new", "log_trace_domain_size": hx(sum(g["steps"]) + g["bound"]), "log_n_cosets": hx(g["lnc"])}], LAY)[0]["ok"]
    pts = replay([{"fn": "queries_to_points", "queries": [hx(q) for q in g["queries"]], "stark_domains": dom}], LAY)[0]["ok"]
    nq = len(g["queries"])
    vals = [r.randrange(P) for _ in range(nq)]
    orc = common.HashOracle(LAY)
    try:
        fri = frimodel.honest_fri(w, g, r, orc, nvf=0, values=vals, points=[int(p_, 16) for p_ in pts])
    finally:
        orc.close()
    lis = g["log_input_size"]
    na = frimodel.merkle_auth_count(g["queries"], lis)
    def tcom(ncol):
        vc = {"height": hx(lis), "n_verifier_friendly_commitment_layers": "0x0"}
        return {"config": {"n_columns": hx(ncol), "vector": vc}, "vector_commitment": {"config": dict(vc), "commitment_hash": "0x0"}}
    rf = lambda n: [hx(r.randrange(P)) for _ in range(n)]
    com = {"traces": {"original": tcom(n0), "interaction_elements": {"elm0": hx(r.randrange(P)), "elm1": hx(r.randrange(P))}, "interaction": tcom(n1)},
           "composition": tcom(2), "interaction_after_composition": hx(r.randrange(P)), "oods_values": rf(n_oods), "interaction_after_oods": rf(5),
           "fri": to_json(fri["commitment"])}
    wit = {"traces_decommitment": {"original": {"values": rf(nq * n0)}, "interaction": {"values": rf(nq * n1)}},
           "traces_witness": {"original": {"vector": {"authentications": rf(na)}}, "interaction": {"vector": {"authentications": rf(na)}}},
           "composition_decommitment": {"values": rf(nq * 2)}, "composition_witness": {"vector": {"authentications": rf(na)}},
           "fri_witness": to_json(fri["witness"])}
    pi = {"log_n_steps": "0x0", "range_check_min": "0x0", "range_check_max": "0x0", "layout": "0x0", "dynamic_params": None, "segments": [],
          "padding_addr": "0x0", "padding_value": "0x0", "main_page": [], "continuous_page_headers": []}
    req = {"fn": "stark_verify", "n_original_columns": n0, "n_interaction_columns": n1, "public_input": pi, "queries": [hx(q) for q in g["queries"]],
           "commitment": com, "witness": wit, "stark_domains": dom, "toy": {"oods_poly": [hx(v) for v in vals]}}
    # fix the three table roots in the order the verifier checks them
    for path in (("commitment", "traces", "original"), ("commitment", "traces", "interaction"), ("commitment", "composition")):
        ans = replay([req], LAY)[0]
        m = sxh._MISMATCH.search(ans.get("err", ""))
        if not m:
            break
        node = req
        for p_ in path:
            node = node[p_]
        node["vector_commitment"]["commitment_hash"] = m.group(2)
    return req


def explore_verify(g, n0, n1, n_oods, tweak=None):
    log = []
    ex, w = toy_exec()
    ex.abstract.update(frimodel.observe(ex, [("Layout", "traces_decommit"), (None, "table_decommit"), (None, "fri_verify")], log))
    hold = {}
    def entry(ex):
        h = H(ex)
        consts = starkmodel.layout_consts(ex)
        c = starkmodel.verify_inputs(h, g, n0, n1, n_oods, consts, tweak=tweak)
        cfg = sxh.stark_config_concrete(h, "cfg", g["steps"], g["bound"], g["lnc"])
        dom = starkmodel.domains(h, cfg)
        hold.update(c=deep_copy(c), dom=dom)
        return h.call(sxh.F_VERIFY, "stark_verify", [n0, n1, c["pi"], c["qs"], c["com"], c["wit"], dom])
    outs = ex.explore(entry, max_paths=600, budget_s=250)
    return ex, outs, hold


def ob_verify_propagation():
    ob = obligation("C01S.verify_propagation", "stark_verify Ok => Layout::traces_decommit Ok and the composition table_decommit Ok and fri_verify Ok "
                    "(the three results obtained inside stark_verify; none is ignored)", [sxh.F_VERIFY + "::stark_verify"],
                    "ToyLayout; FRI geometries %s with (n0,n1) = (1,1), (2,1); contents symbolic" % ([G0, G1],))
    def body(ob):
        st = Stats()
        notes = []
        for gi, (geo, n0, n1) in enumerate(((G0, 1, 1), (G1, 2, 1))):
            g = frimodel.geometry(*geo)
            ex, outs, hold = explore_verify(g, n0, n1, 5)
            oks = [o for o in outs if o.kind == "ok"]
            notes.append("%s: %d paths, %d Ok" % (c07name(g), len(outs), len(oks)))
            for o in oks:
                top = [(e[0][5:], e[2]) for e in o.events if e[0].startswith("call:") and str(e[3]).endswith("stark/src/verify.rs")]
                names = [n for n, r in top]
                bad = [n for n, r in top if isinstance(r, ResultV) and r.kind == "Err"]
                if not bad and names == ["traces_decommit", "table_decommit", "fri_verify"]:
                    continue
                v, model = sxh.solve_path(ex, o, hold, st, timeout_s=90)
                if v == "unsat":
                    continue
                if v != "sat":
                    return finish(ob, "inconclusive", st, detail="undecided path")
                # native: honest instance with the corresponding witness corrupted
                req = honest_stark_request(g, n0, n1, rng("C01S.prop"))
                which = bad[0] if bad else "fri_verify"
                if which == "traces_decommit":
                    req["commitment"]["traces"]["original"]["vector_commitment"]["commitment_hash"] = "0x1"
                elif which == "table_decommit":
                    req["commitment"]["composition"]["vector_commitment"]["commitment_hash"] = "0x1"
                else:
                    req["commitment"]["fri"]["last_layer_coefficients"][0] = "0x1"
                ans = replay([req], LAY)[0]
                rep = {"reproduced": "ok" in ans, "request": req, "real_output": ans, "expected": "Err (%s fails)" % which}
                return finish(ob, "violated" if rep["reproduced"] else "inconclusive", st,
                              detail="stark_verify returns Ok on a path where its calls returned %s" % [(n, r.kind if isinstance(r, ResultV) else r) for n, r in top],
                              cex={"request": req}, replay_rec=rep)
        # the honest instance must be accepted natively (cover + translator validation of the harness)
        req = honest_stark_request(frimodel.geometry(*G0), 1, 1, rng("C01S.prop.honest"))
        ans = replay([req], LAY)[0]
        if "ok" not in ans:
            return finish(ob, "inconclusive", st, detail="honest ToyLayout instance is not accepted natively: %s" % str(ans)[:200])
        return finish(ob, "holds", st, detail="; ".join(notes) + "; honest instance accepted by the real stark_verify")
    return guarded(ob, body)


def c07name(g):
    return "steps%s_b%d_q%s" % ("".join(str(s) for s in g["steps"]), g["bound"], "_".join(str(q) for q in g["queries"]))


# =============================================================================================== C08S
class Oracle(object):
    """the protocol's transcript, written independently of the Rust: absorb = H_many(digest+1, msg..), counter reset; squeeze = H(digest, counter++)"""
    def __init__(self, ex, digest, counter):
        self.ex, self.d, self.c = ex, digest, counter
        self.ops = []
    def absorb(self, items, what):
        self.d = self.ex.hash_many([self.ex.f_add(self.d, F(1))] + list(items), 0)
        self.c = F(0)
        self.ops.append(("absorb", what))
    def squeeze(self, what):
        r = self.ex.hash2("poseidon2", self.d, self.c, 0)
        self.c = self.ex.f_add(self.c, F(1))
        self.ops.append(("squeeze", what))
        return r


def powers(ex, a, n):
    out, v = [], F(1)
    for _ in range(n):
        out.append(v)
        v = ex.f_mul(v, a)
    return out


def commit_order_run(layout, geo):
    ex, w = toy_exec(layout=layout)
    hold = {}
    def entry(ex):
        h = H(ex)
        g = frimodel.geometry(*geo)
        c = starkmodel.commit_inputs(h, g, ex.assoc_const("Layout", "MASK_SIZE", 0) + ex.assoc_const("Layout", "CONSTRAINT_DEGREE", 0), n_bits=0)
        dom = starkmodel.domains(h, c["cfg"])
        hold.update(c=deep_copy(c), dom=dom, g=g)
        ex.notes.append(("final_transcript", c["tr"]))       # the object is mutated in place: per-path final state
        return h.call(sxh.F_COMMIT, "stark_commit", [c["tr"], c["pi"], c["un"], c["cfg"], dom])
    outs = ex.explore(entry, max_paths=50, budget_s=200)
    return ex, w, outs, hold


def ob_commit_order(layout, geo):
    lname = "toy" if layout == "toy" else "recursive"
    ob = obligation("C08S.commit_order.%s.%s" % (lname, "".join(str(s) for s in geo[0])),
                    "the challenges returned by stark_commit (+ traces_commit, InteractionElements::new, fri_commit, pow commit) are those of the "
                    "protocol transcript: absorb original -> N interaction elements -> absorb interaction -> alpha -> absorb composition -> z -> "
                    "absorb OODS vector -> oods alpha -> per FRI layer absorb commitment, squeeze eval point -> absorb last layer -> PoW on that digest "
                    "-> absorb nonce; powers_array = 1, a, a^2, .. of length N_CONSTRAINTS resp. MASK_SIZE+CONSTRAINT_DEGREE",
                    [sxh.F_COMMIT + "::stark_commit", sxh.F_FRI + "::fri_commit", sxh.F_POW + "::commit", sxh.F_TRANSCRIPT,
                     ("replay_e2/src/toy.rs" if layout == "toy" else "crates/air/src/layout/recursive/mod.rs") + "::traces_commit"],
                    "FRI steps %s; every message symbolic; Poseidon / Keccak collision-free UF; oracle transcript written independently in Python" % (geo[0],))
    def body(ob):
        st = Stats()
        ex, w, outs, hold = commit_order_run(layout, geo)
        oks = [o for o in outs if o.kind == "ok"]
        if len(oks) != 1:
            return finish(ob, "inconclusive", st, detail="expected one accepting path, got %r" % outs)
        o = oks[0]
        sc = o.value
        c, g = hold["c"], hold["g"]
        un = c["un"]
        M, D, NC = (ex.assoc_const("Layout", k, 0) for k in ("MASK_SIZE", "CONSTRAINT_DEGREE", "N_CONSTRAINTS"))
        orc = Oracle(ex, c["tr"].fields["digest"], c["tr"].fields["counter"])
        exp = []      # (what, expected term, actual term)
        orc.absorb([un.fields["traces"].fields["original"]], "original commitment")
        ie = sc.fields["traces"].fields["interaction_elements"]
        ie_fields = ie.mod.struct_fields[ie.name]
        for f in ie_fields:
            exp.append(("interaction element %s" % f, orc.squeeze("interaction element"), ie.fields[f]))
        orc.absorb([un.fields["traces"].fields["interaction"]], "interaction commitment")
        alpha = orc.squeeze("composition alpha")
        ev = [e for e in o.events if e[0] == "eval_composition_polynomial"]
        coefs = ev[0][1][3]
        pa = powers(ex, alpha, NC)
        if len(coefs) != NC:
            exp.append(("constraint coefficients length %d" % NC, F(NC), F(len(coefs))))
        for i, (x, y) in enumerate(zip(pa, coefs)):
            exp.append(("constraint coefficient %d = alpha^%d" % (i, i), x, y))
        orc.absorb([un.fields["composition"]], "composition commitment")
        z = orc.squeeze("OODS point")
        exp.append(("OODS point", z, sc.fields["interaction_after_composition"]))
        exp.append(("OODS point passed to verify_oods", z, ev[0][1][4]))
        orc.absorb(list(un.fields["oods_values"]), "OODS vector")
        oa = orc.squeeze("OODS alpha")
        po = powers(ex, oa, M + D)
        got = sc.fields["interaction_after_oods"]
        if len(got) != M + D:
            exp.append(("oods coefficients length %d" % (M + D), F(M + D), F(len(got))))
        for i, (x, y) in enumerate(zip(po, got)):
            exp.append(("oods coefficient %d = oods_alpha^%d" % (i, i), x, y))
        eps = sc.fields["fri"].fields["eval_points"]
        for i, comm in enumerate(un.fields["fri"].fields["inner_layers"]):
            orc.absorb([comm], "FRI layer %d commitment" % i)
            e = orc.squeeze("FRI eval point %d" % i)
            if i < len(eps):
                exp.append(("FRI eval point %d" % i, e, eps[i]))
        if len(eps) != len(un.fields["fri"].fields["inner_layers"]):
            exp.append(("number of eval points", F(len(un.fields["fri"].fields["inner_layers"])), F(len(eps))))
        orc.absorb(list(un.fields["fri"].fields["last_layer_coefficients"]), "last layer coefficients")
        pow_digest = orc.d
        # PoW: the first keccak digest of the run must hash MAGIC || digest-before-nonce || n_bits
        dg = [e for e in o.events if e[0].startswith("digest_")]
        if dg:
            toks = dg[0][1]
            felts = [t.v for t in toks if t.kind == "felt"]
            if felts:
                exp.append(("PoW performed on the digest after the last-layer absorb", pow_digest, felts[0]))
            else:
                exp.append(("PoW input contains the transcript digest", F(1), F(0)))
        else:
            exp.append(("PoW hash performed", F(1), F(0)))
        orc.absorb([un.fields["proof_of_work"].fields["nonce"]], "nonce")
        ftr = [n[1] for n in o.notes if isinstance(n, tuple) and n[0] == "final_transcript"][0]
        exp.append(("final transcript digest", orc.d, ftr.fields["digest"]))
        exp.append(("final transcript counter", orc.c, ftr.fields["counter"]))
        wrong = []
        for what, a, b in exp:
            if not term_eq(ex, st, o.pc, a, b):
                wrong.append(what)
                if len(wrong) >= 3:
                    break
        if not wrong:
            return finish(ob, "holds", st, detail="%d transcript-derived values equal the oracle's (%d absorbs / squeezes: %s)" % (
                len(exp), len(orc.ops), ", ".join("%s %s" % op for op in orc.ops)))
        # native replay on the ToyLayout: real stark_commit vs the oracle evaluated with the real hashes
        if layout != "toy":
            ans = native_traces_commit_check()
            rep = {"reproduced": ans[0], "real_output": ans[1]}
            return finish(ob, "violated" if ans[0] else "inconclusive", st, detail="differs from the protocol order at: %s" % wrong[:6], cex={"first": wrong[:6]}, replay_rec=rep)
        rep = native_commit_order(hold, geo)
        return finish(ob, "violated" if rep["reproduced"] else "inconclusive", st, detail="differs from the protocol order at: %s" % wrong[:6],
                      cex={"first": wrong[:6], "request": rep.get("request")}, replay_rec=rep)
    return guarded(ob, body)


def concrete_oracle(orc, req, n_ie):
    """the protocol transcript on concrete values with the real hashes; returns the expected challenges"""
    class T(object):
        pass
    t = T()
    t.d, t.c = int(req["transcript"]["digest"], 16), int(req["transcript"]["counter"], 16)
    def absorb(items):
        t.d = orc.hash_many([(t.d + 1) % P] + [int(x, 16) if isinstance(x, str) else x for x in items])
        t.c = 0
    def squeeze():
        r = orc.hash2("poseidon2", t.d, t.c)
        t.c += 1
        return r
    un = req["unsent_commitment"]
    out = {}
    absorb([un["traces"]["original"]])
    out["ie"] = [squeeze() for _ in range(n_ie)]
    absorb([un["traces"]["interaction"]])
    out["alpha"] = squeeze()
    absorb([un["composition"]])
    out["z"] = squeeze()
    absorb(un["oods_values"])
    out["oods_alpha"] = squeeze()
    out["eval_points"] = []
    for cm in un["fri"]["inner_layers"]:
        absorb([cm])
        out["eval_points"].append(squeeze())
    absorb(un["fri"]["last_layer_coefficients"])
    absorb([un["proof_of_work"]["nonce"]])
    out["digest"], out["counter"] = t.d, t.c
    return out


def native_commit_order(hold, geo):
    from sxlib import random_fill
    r = rng("C08S.native")
    c = random_fill(hold["c"], r)
    c["un"].fields["proof_of_work"].fields["nonce"] = r.randrange(2**32)
    dom = concretize(hold["dom"], type("M", (), {"eval": lambda self, t, c=True: z3.IntVal(0)})())
    req = starkmodel.commit_request(c, dom)
    req["config"]["proof_of_work"]["n_bits"] = 0
    req, ans, log = sxh.repair_replay(req, LAY, want=lambda a: "ok" in a)
    if "ok" not in ans:
        return {"reproduced": False, "request": req, "real_output": ans}
    orc = common.HashOracle(LAY)
    try:
        exp = concrete_oracle(orc, req, 2)
    finally:
        orc.close()
    got = ans["ok"]["commitment"]
    diffs = []
    if [int(got["traces"]["interaction_elements"][k], 16) for k in ("elm0", "elm1")] != exp["ie"]:
        diffs.append("interaction elements")
    if int(got["interaction_after_composition"], 16) != exp["z"]:
        diffs.append("OODS point")
    pw, v = [], 1
    for _ in range(len(got["interaction_after_oods"])):
        pw.append(v)
        v = v * exp["oods_alpha"] % P
    if [int(x, 16) for x in got["interaction_after_oods"]] != pw or len(pw) != 5:
        diffs.append("OODS coefficients")
    if [int(x, 16) for x in got["fri"]["eval_points"]] != exp["eval_points"]:
        diffs.append("FRI eval points")
    if int(ans["ok"]["transcript"]["digest"], 16) != exp["digest"]:
        diffs.append("final digest")
    calls = [x for x in ans["ok"].get("log", []) if x.get("call") == "eval_composition_polynomial"]
    if calls:
        cc = [int(x, 16) for x in calls[0]["constraint_coefficients"]]
        if cc != [1, exp["alpha"]][:len(cc)] or len(cc) != 2:
            diffs.append("constraint coefficients")
        if int(calls[0]["point"], 16) != exp["z"]:
            diffs.append("OODS point passed to the evaluator")
    return {"reproduced": bool(diffs), "request": req, "real_output": {"differences": diffs, "answer": ans["ok"]["transcript"]}, "repair": log}


def native_traces_commit_check():
    """real recursive traces_commit vs the oracle (6 interaction elements)"""
    r = rng("C08S.traces")
    req = {"fn": "traces_commit", "layout": "recursive", "transcript": {"digest": hx(r.randrange(P)), "counter": hx(r.randrange(100))},
           "unsent_commitment": {"original": hx(r.randrange(P)), "interaction": hx(r.randrange(P))},
           "config": {"original": {"n_columns": "0x7", "vector": {"height": "0x4", "n_verifier_friendly_commitment_layers": "0x0"}},
                      "interaction": {"n_columns": "0x3", "vector": {"height": "0x4", "n_verifier_friendly_commitment_layers": "0x0"}}}}
    ans = replay([req], LAY)[0]
    if "ok" not in ans:
        return False, ans
    orc = common.HashOracle(LAY)
    try:
        d, c = int(req["transcript"]["digest"], 16), int(req["transcript"]["counter"], 16)
        d = orc.hash_many([(d + 1) % P, int(req["unsent_commitment"]["original"], 16)])
        ie = [orc.hash2("poseidon2", d, k) for k in range(6)]
        d = orc.hash_many([(d + 1) % P, int(req["unsent_commitment"]["interaction"], 16)])
    finally:
        orc.close()
    order = starkmodel.toy_world().mod("crates/air/src/layout/recursive/global_values.rs").struct_fields["InteractionElements"]
    got = [int(ans["ok"]["commitment"]["interaction_elements"][k], 16) for k in order]
    diff = got != ie or int(ans["ok"]["transcript"]["digest"], 16) != d
    return diff, {"request": req, "answer": ans, "expected_elements": [hx(x) for x in ie], "expected_digest": hx(d)}


def ob_translator_commit():
    ob = obligation("C08S.translator_validation", "the executor's transcript equals the real one: real stark_commit::<ToyLayout> and real recursive "
                    "traces_commit on seeded concrete inputs give the challenges of the oracle transcript evaluated with the real Poseidon",
                    [sxh.F_COMMIT + "::stark_commit", sxh.F_TRANSCRIPT], "2 seeded inputs")
    def body(ob):
        ex, w, outs, hold = commit_order_run("toy", G0)
        rep = native_commit_order(hold, G0)
        ok2, info2 = native_traces_commit_check()
        if rep.get("reproduced") is False and "differences" in str(rep.get("real_output")) and not ok2:
            return finish(ob, "holds", None, detail="real stark_commit and real traces_commit agree with the oracle transcript", solver="- (concrete comparison)")
        return finish(ob, "inconclusive", None, detail="mismatch between the real functions and the oracle transcript: %s / %s" % (
            str(rep.get("real_output"))[:300], str(info2)[:200]), solver="-", replay_rec=rep)
    return guarded(ob, body)


# =============================================================================================== C02S
def ok_feasible(ex, outs, hold, st):
    for o in outs:
        if o.kind == "ok":
            v, model = sxh.solve_path(ex, o, hold, st, timeout_s=60)
            if v == "sat":
                return o, model
            if v != "unsat":
                return "undecided", None
    return None, None


def run_commit_shape(geo, n_oods, tweak):
    ex, w = toy_exec()
    hold = {}
    def entry(ex):
        h = H(ex)
        g = frimodel.geometry(*geo)
        c = starkmodel.commit_inputs(h, g, n_oods, tweak=tweak, n_bits=0)
        dom = starkmodel.domains(h, c["cfg"])
        hold.update(c=deep_copy(c), dom=dom)
        return h.call(sxh.F_COMMIT, "stark_commit", [c["tr"], c["pi"], c["un"], c["cfg"], dom])
    outs = ex.explore(entry, max_paths=100, budget_s=120)
    return ex, outs, hold


def run_validate_shape(geo, tweak):
    ex, w = toy_exec()
    hold = {}
    def entry(ex):
        h = H(ex)
        g = frimodel.geometry(*geo)
        c = starkmodel.commit_inputs(h, g, 5, tweak=tweak)
        sec, n1, n2 = h.felt("sec"), h.felt("n1"), h.felt("n2")
        hold.update(cfg=deep_copy(c["cfg"]), sec=sec, n1=n1, n2=n2)
        return h.call(sxh.F_STARKCFG, "validate", [sec, n1, n2], owner="StarkConfig", self_val=c["cfg"])
    outs = ex.explore(entry, max_paths=300, budget_s=120)
    return ex, outs, hold


def json_delete(req, path):
    node = req
    for p_ in path[:-1]:
        node = node[p_]
    lst = node[path[-1]]
    if lst:
        lst.pop()


def json_append(req, path):
    node = req
    for p_ in path[:-1]:
        node = node[p_]
    node[path[-1]].append("0x5")


VECTORS = [
    # name, function family, symbolic tweak key, JSON path in the native request
    ("oods_values", "commit", None, None),
    ("fri.inner_layers (unsent commitments)", "commit", "unsent_inner_layers", None),
    ("fri.last_layer_coefficients", "commit", "last_layer_coefficients", None),
    ("config.fri.fri_step_sizes", "validate", "fri_step_sizes", None),
    ("config.fri.inner_layers", "validate", "config_inner_layers", None),
    ("witness.fri_witness.layers", "verify", "layers", ("witness", "fri_witness", "layers")),
    ("witness.fri_witness.layers[0].leaves", "verify", ("leaves", 0), ("witness", "fri_witness", "layers", 0, "leaves")),
    ("witness.fri_witness.layers[0].table_witness.vector.authentications", "verify", ("authentications", 0),
     ("witness", "fri_witness", "layers", 0, "table_witness", "vector", "authentications")),
    ("witness.traces_decommitment.original.values", "verify", "original_values", ("witness", "traces_decommitment", "original", "values")),
    ("witness.traces_decommitment.interaction.values", "verify", "interaction_values", ("witness", "traces_decommitment", "interaction", "values")),
    ("witness.composition_decommitment.values", "verify", "composition_values", ("witness", "composition_decommitment", "values")),
    ("witness.traces_witness.original.vector.authentications", "verify", "original_auth", ("witness", "traces_witness", "original", "vector", "authentications")),
    ("witness.traces_witness.interaction.vector.authentications", "verify", "interaction_auth", ("witness", "traces_witness", "interaction", "vector", "authentications")),
    ("witness.composition_witness.vector.authentications", "verify", "composition_auth", ("witness", "composition_witness", "vector", "authentications")),
]


def shape_outcomes(vec, delta, geo):
    name, fam, key, jpath = vec
    if fam == "commit":
        if key is None:
            return run_commit_shape(geo, 5 + delta, {})
        return run_commit_shape(geo, 5, {key: delta})
    if fam == "validate":
        return run_validate_shape(geo, {key: delta})
    g = frimodel.geometry(*geo)
    return explore_verify(g, 1, 1, 5, tweak={key: delta})


def ob_delete(vec, geo):
    name, fam, key, jpath = vec
    fn = {"commit": sxh.F_COMMIT + "::stark_commit", "validate": sxh.F_STARKCFG + "::StarkConfig::validate", "verify": sxh.F_VERIFY + "::stark_verify"}[fam]
    ob = obligation("C02S.delete.%s" % name.replace(" ", "_"), "deleting one element of %s from an accepted instance makes %s return Err or panic (never Ok)" % (
        name, fn.split("::")[-1]), [fn], "ToyLayout; FRI geometry %s; honest lengths with this vector one element short; contents symbolic" % (geo,))
    def body(ob):
        st = Stats()
        ex, outs, hold = shape_outcomes(vec, -1, geo)
        kinds = sorted(set(o.label().split(" ")[0] for o in outs))
        o, model = ok_feasible(ex, outs, hold, st)
        if o == "undecided":
            return finish(ob, "inconclusive", st, detail="an accepting path could not be decided; outcomes %s" % kinds)
        if o is None:
            return finish(ob, "holds", st, detail="outcomes with the shortened vector: %s" % kinds)
        # native confirmation
        if fam == "verify":
            req = honest_stark_request(frimodel.geometry(*geo), 1, 1, rng("C02S." + name))
            base = replay([req], LAY)[0]
            json_delete(req, jpath)
            ans = replay([req], LAY)[0]
            rep = {"reproduced": "ok" in base and "ok" in ans, "request": req, "real_output": ans, "honest_instance_output": base, "expected": "Err or panic"}
        elif fam == "commit":
            c = concretize(hold["c"], model)
            req = starkmodel.commit_request(c, concretize(hold["dom"], model))
            req, ans, log = sxh.repair_replay(req, LAY, want=lambda a: "ok" in a)
            rep = {"reproduced": "ok" in ans, "request": req, "real_output": ans, "repair": log, "expected": "Err or panic"}
        else:
            c = concretize(hold, model)
            req = {"fn": "stark_config_validate", "config": to_json(c["cfg"]), "security_bits": to_json(c["sec"]),
                   "num_columns_first": to_json(c["n1"]), "num_columns_second": to_json(c["n2"])}
            ans = replay([req], LAY)[0]
            rep = {"reproduced": "ok" in ans, "request": req, "real_output": ans}
        return finish(ob, "violated" if rep["reproduced"] else "inconclusive", st,
                      detail="still accepted with one element of %s removed (symbolic outcomes %s)" % (name, kinds), cex={"vector": name, "request": rep["request"]},
                      replay_rec=rep)
    return guarded(ob, body)


def ob_append(geo):
    ob = obligation("C02S.append_tolerated", "report: which vectors tolerate an appended unused trailing element (the only malleability the property allows)",
                    [sxh.F_COMMIT + "::stark_commit", sxh.F_VERIFY + "::stark_verify"], "ToyLayout; geometry %s; each vector one element longer" % (geo,))
    def body(ob):
        st = Stats()
        tol, rej = [], []
        for vec in VECTORS:
            try:
                ex, outs, hold = shape_outcomes(vec, +1, geo)
            except (Unsupported, LoopBound) as u:
                rej.append("%s (?: %s)" % (vec[0], str(u)[:60]))
                continue
            o, model = ok_feasible(ex, outs, hold, st)
            (tol if (o is not None and o != "undecided") else rej).append(vec[0])
        return finish(ob, "holds", st, detail="tolerate one appended element: %s | rejected (Err / panic): %s" % (tol, rej))
    return guarded(ob, body)


def run(prop, tier):
    obs = []
    if prop == "C01S":
        obs.append(ob_oods_length("toy", False))
        obs.append(ob_oods_length("toy", True))
        obs.append(ob_oods_length("recursive", False))
        obs.append(ob_deep_plumbing())
        obs.append(ob_verify_propagation())
        outside = ["probabilistic soundness", "the real layouts' evaluators (index sets: C01 of the ring engine)", "shapes beyond the enumerated ones"]
    elif prop == "C08S":
        obs.append(ob_commit_order("toy", G0))
        obs.append(ob_commit_order("toy", G2 if tier == "quick" else ([0, 2, 1], 1, 2, [5, 37])))
        obs.append(ob_commit_order("recursive", G0))
        obs.append(ob_translator_commit())
        outside = ["agreement with recorded prover logs", "sponge step laws for arbitrary histories (C08 O1/O2 of the Kani engine)"]
    else:
        for vec in VECTORS:
            obs.append(ob_delete(vec, G0 if vec[1] != "validate" else G2))
        obs.append(ob_append(G0))
        outside = ["value replacement at Merkle-bound positions (C07S.O3, C04/C05)", "transcript-bound positions (probabilistic last step)",
                   "segments / main_page deletions (bound through the digest: C13)"]
    return {"property": prop, "tier": tier, "engine": "felt-sx", "assumptions": ASSUMPTIONS, "obligations": obs, "outside": outside}
