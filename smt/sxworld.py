"""Source world of the felt-sx executor: which files of $VERIF_REPO are loaded, name / type resolution across them."""
import glob
import os

import rsparse
from rsparse import Unsupported
from common import REPO, repo_path

CRATES = ["stark", "fri", "commitment", "transcript", "pow"]
AIR_FILES = ["consts.rs", "diluted.rs", "domains.rs", "dynamic.rs", "public_memory.rs", "types.rs", "trace/mod.rs", "trace/config.rs",
             "trace/decommit.rs", "layout/mod.rs"]
DEFAULT_FEATURES = frozenset(["std", "keccak_160_lsb", "stone5", "keccak", "recursive"])


def source_files(layout="recursive"):
    """repo-relative paths of every non-test, non-fixture source file in scope"""
    out = []
    for c in CRATES:
        base = repo_path("crates/%s/src" % c)
        for f in sorted(glob.glob(base + "/**/*.rs", recursive=True)):
            r = os.path.relpath(f, REPO)
            if "/tests/" in r or "/fixtures" in r or r.endswith("/tests.rs"):
                continue
            out.append(r)
    for f in AIR_FILES:
        if os.path.exists(repo_path("crates/air/src/" + f)):
            out.append("crates/air/src/" + f)
    if layout:
        for f in ("mod.rs", "global_values.rs"):
            out.append("crates/air/src/layout/%s/%s" % (layout, f))
    return out


def cfg_active(pred, features):
    if pred is None:
        return True
    k = pred[0]
    if k == "feature":
        return pred[1] in features
    if k == "any":
        return any(cfg_active(p, features) for p in pred[1])
    if k == "all":
        return all(cfg_active(p, features) for p in pred[1])
    if k == "not":
        return not cfg_active(pred[1], features)
    if k == "flag":
        return pred[1] in features      # `test` is never in the feature set
    return False


class World(object):
    def __init__(self, layout="recursive", features=DEFAULT_FEATURES, extra_files=()):
        self.layout = layout
        self.features = frozenset(features)
        self.files = source_files(layout) + list(extra_files)
        self.mods = []
        self.by_rel = {}
        for r in self.files:
            m = rsparse.parse_file(repo_path(r))
            m.rel = r
            self.mods.append(m)
            self.by_rel[r] = m
        self.layout_mod = self.by_rel.get("crates/air/src/layout/%s/mod.rs" % layout) if layout else None

    def mod(self, rel):
        m = self.by_rel.get(rel)
        if m is None:
            raise Unsupported(repo_path(rel), 0, "source file is not part of the loaded world")
        return m

    # ---- functions
    def fn_active(self, f):
        return cfg_active(f.cfg, self.features)

    def find_fn(self, name, cur=None):
        """free function by bare name: current file first, then a unique definition elsewhere"""
        if cur is not None:
            for key in (getattr(cur, "_prefix", "") + name, name):
                f = cur.fns.get(key)
                if f is not None and self.fn_active(f):
                    return f, cur
        hits = []
        for m in self.mods:
            for key, f in m.fns.items():
                if key.split("::")[-1] == name and not key.startswith("tests::") and self.fn_active(f):
                    hits.append((f, m))
        if len(hits) == 1:
            return hits[0]
        if len(hits) > 1 and cur is not None:
            same = [h for h in hits if crate_of(h[1].rel) == crate_of(cur.rel)]
            if len(same) == 1:
                return same[0]
        if len(hits) > 1:
            raise Unsupported(cur.file if cur else "?", 0, "function name %s is ambiguous (%s)" % (name, ", ".join(h[1].rel for h in hits)))
        return None, None

    def find_method(self, owner, name, mod=None):
        if mod is not None:
            f = mod.methods.get((owner, name))
            if f is not None and self.fn_active(f):
                return f, mod
        hits = []
        for m in self.mods:
            f = m.methods.get((owner, name))
            if f is not None and self.fn_active(f):
                hits.append((f, m))
        if len(hits) == 1:
            return hits[0]
        if len(hits) > 1:
            raise Unsupported(mod.file if mod else "?", 0, "method %s::%s is ambiguous (%s)" % (owner, name, ", ".join(h[1].rel for h in hits)))
        return None, None

    # ---- structs / enums
    def struct_by_fields(self, name, fieldset, cur=None):
        """module defining the struct a literal `name { fields }` builds (name may be a `use .. as` alias: the field set decides)"""
        hits = []
        for m in self.mods:
            for sname, fl in m.struct_fields.items():
                if set(fl) == set(fieldset):
                    hits.append((sname, m))
        exact = [h for h in hits if h[0] == name]
        if cur is not None:
            here = [h for h in exact if h[1] is cur]
            if here:
                return here[0]
        if len(exact) == 1:
            return exact[0]
        if len(exact) > 1 and cur is not None:
            same = [h for h in exact if crate_of(h[1].rel) == crate_of(cur.rel)]
            if len(same) == 1:
                return same[0]
            samedir = [h for h in exact if os.path.dirname(h[1].rel) == os.path.dirname(cur.rel)]
            if len(samedir) == 1:
                return samedir[0]
        if not exact and len(hits) == 1:
            return hits[0]
        if not exact and len(hits) > 1:
            # alias: all candidates have identical fields; prefer by crate proximity
            names = set(h[0] for h in hits)
            if len(names) == 1:
                return hits[0]
        return None

    def resolve_type(self, text, cur):
        """type text (as written in module `cur`) -> ('struct'|'tuple'|'enum', name, module) or None"""
        segs = [s.strip() for s in text.replace("&", " ").replace("'", " ").split("<")[0].split("::")]
        segs = [s.split()[-1] if s.split() else s for s in segs]
        name = segs[-1]
        hints = [s.replace("swiftness_", "") for s in segs[:-1] if s not in ("crate", "super", "self")]
        best, best_score = None, -1
        for m in self.mods:
            kind = "struct" if name in m.struct_fields else "tuple" if name in m.tuple_structs else "enum" if name in m.enums else None
            if kind is None:
                continue
            comps = set(m.rel[:-3].split("/"))
            if hints:
                score = sum(10 for h in set(hints) if h in comps)
                if crate_of(m.rel) == crate_of(cur.rel):
                    score += 1
            else:
                score = 100 if m is cur else 40 if os.path.dirname(m.rel) == os.path.dirname(cur.rel) else 10 if crate_of(m.rel) == crate_of(cur.rel) else 0
            if score > best_score:
                best, best_score = (kind, name, m), score
        return best

    def find_enum(self, name, variant, cur=None):
        cands = []
        order = ([cur] if cur is not None else []) + [m for m in self.mods if m is not cur]
        for m in order:
            for ename, vs in m.enums.items():
                if ename.split("::")[-1] == name and variant in vs:
                    cands.append((ename, vs[variant], m))
        if not cands:
            return None
        if cur is not None and cands[0][2] is cur:
            return cands[0]
        if len(cands) == 1:
            return cands[0]
        if cur is not None:
            same = [c for c in cands if crate_of(c[2].rel) == crate_of(cur.rel)]
            if len(same) >= 1:
                return same[0]
        return cands[0]

    def find_const(self, name, cur=None, prefix=""):
        """returns [(expr, module)] candidates; current module first"""
        out = []
        if cur is not None:
            for key in (prefix + name, name):
                if key in cur.consts:
                    return [(cur.consts[key], cur)]
        for m in self.mods:
            if m is cur:
                continue
            if name in m.consts:
                out.append((m.consts[name], m))
            elif "::" not in name:
                for key, e in m.consts.items():
                    if key.split("::")[-1] == name and not key.startswith("tests::") and "::" in key and False:
                        out.append((e, m))
        return out


def crate_of(rel):
    parts = rel.split("/")
    return parts[1] if len(parts) > 1 and parts[0] == "crates" else "?"
