"""C12 - evaluation / trace domain generators (engine E2 part: formula structure by solver,
exponent relation by a bit-vector query, number-theoretic half as a finite concrete table)."""
import z3

import rsparse
from algebras import RealAlg
from common import (P, Stats, check, finish, guarded, hx, obligation, replay, repo_path, rng)
from symex import F, Interp, Struct

DOMAINS = "crates/air/src/domains.rs"
TWO_ADICITY = 192


class UFAlg(RealAlg):
    """constants keep their integer value (no symmetric representative); field_div and pow_felt are
    uninterpreted functions - only the dataflow of the formula is compared."""
    def __init__(self):
        RealAlg.__init__(self, unroll_pow=-1)
        self.fdivf = z3.Function("fdivf", z3.RealSort(), z3.RealSort(), z3.RealSort())
    def const(self, v):
        return z3.RealVal(v % P)
    def fdiv(self, a, b):
        return self.fdivf(self.lift(a), self.lift(b))
    def pow(self, a, e):
        return self.powf(self.lift(a), self.lift(e))


def load():
    mod = rsparse.parse_file(repo_path(DOMAINS))
    fn = mod.methods.get(("StarkDomains", "new"))
    if fn is None:
        raise rsparse.Unsupported(repo_path(DOMAINS), 0, "StarkDomains::new not found")
    it = Interp(modules=[mod])
    g = it.const_value("FIELD_GENERATOR", 0)
    pm1 = it.const_value("STARK_PRIME_MINUS_ONE", 0)
    if not isinstance(g, F) or not isinstance(pm1, F):
        raise rsparse.Unsupported(repo_path(DOMAINS), 0, "FIELD_GENERATOR / STARK_PRIME_MINUS_ONE literal not found")
    return mod, fn, g.v, pm1.v


def run_new(mod, fn, alg, t, c):
    it = Interp(alg=alg, modules=[mod])
    out = it.run(fn, [t, c])
    if not isinstance(out, Struct):
        raise rsparse.Unsupported(repo_path(DOMAINS), fn.line, "StarkDomains::new does not end in a struct literal")
    return out.fields


FIELDS = ["log_eval_domain_size", "eval_domain_size", "eval_generator", "log_trace_domain_size", "trace_domain_size", "trace_generator"]


def native_domains(pairs):
    reqs = [{"fn": "stark_domains", "log_trace_domain_size": hx(t), "log_n_cosets": hx(c)} for t, c in pairs]
    out = []
    for a in replay(reqs):
        out.append(dict((k, int(v, 16)) for k, v in a["ok"].items()) if isinstance(a.get("ok"), dict) else None)
    return reqs, out


def order_is(g, k):
    """g has multiplicative order exactly 2^k mod p"""
    if pow(g, 2**k, P) != 1:
        return False
    return k == 0 or pow(g, 2**(k - 1), P) != 1


def native_property_check(pairs):
    """the property evaluated on the real StarkDomains::new outputs; returns list of failures"""
    reqs, outs = native_domains(pairs)
    fails = []
    for (t, c), req, o in zip(pairs, reqs, outs):
        if o is None:
            fails.append((req, "no output", "StarkDomains"))
            continue
        probs = []
        if o["log_eval_domain_size"] != t + c: probs.append("log_eval_domain_size != t+c")
        if o["eval_domain_size"] != 2**(t + c): probs.append("eval_domain_size != 2^(t+c)")
        if o["trace_domain_size"] != 2**t: probs.append("trace_domain_size != 2^t")
        if o["log_trace_domain_size"] != t: probs.append("log_trace_domain_size != t")
        if not order_is(o["eval_generator"], t + c): probs.append("eval_generator does not have order 2^(t+c)")
        if not order_is(o["trace_generator"], t): probs.append("trace_generator does not have order 2^t")
        if pow(o["eval_generator"], 2**c, P) != o["trace_generator"]: probs.append("trace_generator != eval_generator^(2^c)")
        if probs:
            fails.append((req, str(dict((k, hx(v)) for k, v in o.items())), "; ".join(probs)))
    return fails


def ob_structure():
    ob = obligation("C12.formula_structure",
                    "StarkDomains::new(t, c) computes, for symbolic t and c: log_eval = t + c, eval_size = 2.pow_felt(t+c), "
                    "trace_size = 2.pow_felt(t), eval_generator = G.pow_felt((P-1).field_div(eval_size)), trace_generator = "
                    "G.pow_felt((P-1).field_div(trace_size)) with the parsed literals G = 3 and P-1 = p-1 "
                    "(pow_felt / field_div uninterpreted: dataflow only)",
                    [DOMAINS + "::StarkDomains::new", DOMAINS + "::FIELD_GENERATOR", DOMAINS + "::STARK_PRIME_MINUS_ONE"],
                    "ALL t, c (symbolic field elements)")
    def body(ob):
        st = Stats()
        mod, fn, g, pm1 = load()
        r = rng("c12")
        # translator validation
        pts = [(r.randrange(0, 100), r.randrange(0, 90)) for _ in range(2)] + [(18, 4)]
        reqs, outs = native_domains(pts)
        for (t, c), req, o in zip(pts, reqs, outs):
            mine = run_new(mod, fn, None, F(t), F(c))
            for k in FIELDS:
                if o is None or k not in mine or not isinstance(mine[k], F) or mine[k].v != o[k]:
                    return finish(ob, "inconclusive", st, detail="translator validation FAILED on %r: field %s parsed=%r real=%r"
                                  % (req, k, mine.get(k), o and hx(o[k])))
        alg = UFAlg()
        t, c = z3.Real("t"), z3.Real("c")
        f = run_new(mod, fn, alg, t, c)
        missing = [k for k in FIELDS if k not in f]
        if missing:
            return finish(ob, "inconclusive", st, detail="struct literal lacks fields %s" % missing)
        two, G, PM1 = z3.RealVal(2), z3.RealVal(3), z3.RealVal(P - 1)
        exp = {
            "log_eval_domain_size": t + c,
            "eval_domain_size": alg.powf(two, t + c),
            "trace_domain_size": alg.powf(two, t),
            "log_trace_domain_size": t,
            "eval_generator": alg.powf(G, alg.fdivf(PM1, alg.powf(two, t + c))),
            "trace_generator": alg.powf(G, alg.fdivf(PM1, alg.powf(two, t))),
        }
        neq = z3.Or([alg.lift(f[k]) != exp[k] for k in FIELDS])
        verdict, model = check([neq], st, want_model=False)
        if verdict == "unsat":
            return finish(ob, "holds", st, detail="parsed literals: FIELD_GENERATOR=%#x, STARK_PRIME_MINUS_ONE=p-1: %s; translator validated at 3 points"
                          % (g, pm1 == P - 1))
        if verdict == "inconclusive":
            return finish(ob, "inconclusive", st)
        # the formula differs from the defining one: decide on the real function
        pairs = [(r.randrange(0, 100), r.randrange(0, 90)) for _ in range(4)] + [(0, 0), (1, 0), (0, 1), (96, 96)]
        fails = native_property_check(pairs)
        if fails:
            req, outp, why = fails[0]
            return finish(ob, "violated", st, detail="dataflow differs from the defining formula; real StarkDomains::new violates the property: " + why,
                          cex={"log_trace_domain_size": req["log_trace_domain_size"], "log_n_cosets": req["log_n_cosets"]},
                          replay_rec={"reproduced": True, "request": req, "real_output": outp, "expected": why})
        return finish(ob, "inconclusive", st, detail="dataflow differs syntactically from the defining formula but the real function "
                      "satisfies the property at 8 points (refactor outside the recognised shape?)")
    return guarded(ob, body)


def ob_exponent():
    ob = obligation("C12.exponent_relation",
                    "(p-1)/2^t = 2^c * ((p-1)/2^(t+c)) and 2^(t+c) divides p-1, as integers, with p-1 the parsed literal; hence "
                    "trace_generator = G^((p-1)/2^t) = (G^((p-1)/2^(t+c)))^(2^c) = eval_generator^(2^c) by the law of exponents",
                    [DOMAINS + "::STARK_PRIME_MINUS_ONE"],
                    "ALL t, c >= 0 with t + c <= %d (one bit-vector query, t and c symbolic)" % TWO_ADICITY)
    def body(ob):
        st = Stats()
        mod, fn, g, pm1 = load()
        W = 256
        t8, c8 = z3.BitVec("t", 9), z3.BitVec("c", 9)
        t, c = z3.ZeroExt(W - 9, t8), z3.ZeroExt(W - 9, c8)
        pm = z3.BitVecVal(pm1, W)
        pre = [z3.ULE(t, TWO_ADICITY), z3.ULE(c, TWO_ADICITY), z3.ULE(t + c, TWO_ADICITY)]
        q_t = z3.LShR(pm, t)
        q_tc = z3.LShR(pm, t + c)
        bad = z3.Or(q_t != (q_tc << c),             # (p-1)/2^t = 2^c (p-1)/2^(t+c)
                    (q_tc << (t + c)) != pm,         # 2^(t+c) | p-1   (no bits shifted out)
                    (q_t << t) != pm)
        verdict, model = check(pre + [bad], st, want_model=True, timeout_s=120)
        if verdict == "unsat":
            return finish(ob, "holds", st, detail="256-bit bit-vector query, shifts by symbolic 9-bit amounts t, c; parsed literal == p-1: %s" % (pm1 == P - 1))
        if verdict == "inconclusive":
            return finish(ob, "inconclusive", st)
        tt, cc = model.eval(t8, model_completion=True).as_long(), model.eval(c8, model_completion=True).as_long()
        fails = native_property_check([(tt, cc)])
        if fails:
            req, outp, why = fails[0]
            return finish(ob, "violated", st, detail="exponent relation fails at t=%d c=%d; real StarkDomains::new: %s" % (tt, cc, why),
                          cex={"t": tt, "c": cc}, replay_rec={"reproduced": True, "request": req, "real_output": outp, "expected": why})
        return finish(ob, "inconclusive", st, detail="exponent relation fails for the parsed literal at t=%d c=%d but the real function "
                      "satisfies the property there" % (tt, cc))
    return guarded(ob, body)


def ob_table():
    ob = obligation("C12.order_table",
                    "FINITE CONCRETE TABLE (big-integer evaluation, not a solver result): with the parsed G and P-1, for k = 0..%d: "
                    "2^k < p, (P-1).field_div(2^k) is the integer (p-1)/2^k, L(k) = G^((p-1)/2^k) has multiplicative order exactly 2^k, "
                    "and L(k) = L(k+1)^2 for k < %d" % (TWO_ADICITY, TWO_ADICITY),
                    [DOMAINS + "::FIELD_GENERATOR", DOMAINS + "::STARK_PRIME_MINUS_ONE"],
                    "k = 0..%d: %d concrete evaluations; plus the real StarkDomains::new evaluated natively on seeded (t,c) pairs"
                    % (TWO_ADICITY, 4 * (TWO_ADICITY + 1)))
    def body(ob):
        mod, fn, g, pm1 = load()
        bad = []
        L = []
        for k in range(TWO_ADICITY + 1):
            size = pow(2, k, P)
            e = pm1 * pow(size, P - 2, P) % P              # what field_div computes
            if size != 2**k: bad.append("2^%d wraps" % k)
            if e * 2**k != pm1 or pm1 != P - 1: bad.append("k=%d: field_div is not the integer quotient of p-1" % k)
            L.append(pow(g, e, P))
            if not order_is(L[k], k): bad.append("k=%d: order of L(k) is not 2^k" % k)
        for k in range(TWO_ADICITY):
            if L[k] != pow(L[k + 1], 2, P): bad.append("k=%d: L(k) != L(k+1)^2" % k)
        r = rng("c12table")
        pairs = [(0, 0), (0, TWO_ADICITY), (TWO_ADICITY, 0), (18, 4)]
        while len(pairs) < 12:
            t = r.randrange(0, TWO_ADICITY + 1)
            pairs.append((t, r.randrange(0, TWO_ADICITY + 1 - t)))
        fails = native_property_check(pairs)
        reqs, outs = native_domains(pairs)
        agree = all(o is not None and o["eval_generator"] == L[t + c] and o["trace_generator"] == L[t] for (t, c), o in zip(pairs, outs))
        if bad:
            if fails:
                req, outp, why = fails[0]
                return finish(ob, "violated", None, detail="%d table entries fail, first: %s" % (len(bad), bad[0]), cex={"failed": bad[:5]},
                              replay_rec={"reproduced": True, "request": req, "real_output": outp, "expected": why},
                              solver="none (finite concrete table)")
            return finish(ob, "inconclusive", None, detail="%d table entries fail (first: %s) but the real function satisfies the property on "
                          "12 pairs" % (len(bad), bad[0]), solver="none (finite concrete table)")
        real_fails = [f for f in fails if f[1] != "no output"]
        if real_fails:
            # the property itself, evaluated on the real function's output at an input inside the quantifier, fails: reproduced
            req, outp, why = real_fails[0]
            return finish(ob, "violated", None, detail="table holds for the parsed literals, but the real StarkDomains::new violates the "
                          "property natively at a seeded pair: %s" % why, cex={"request": req},
                          replay_rec={"reproduced": True, "request": req, "real_output": outp, "expected": why},
                          solver="none (finite concrete table)")
        if fails or not agree:
            return finish(ob, "inconclusive", None, detail="table holds for the parsed literals but the real StarkDomains::new disagrees with it "
                          "(encoding problem): %s" % (fails[:1],), solver="none (finite concrete table)")
        return finish(ob, "holds", None, detail="193 orders + 192 squarings + 193 quotients evaluated; real StarkDomains::new equals L(t+c), L(t) "
                      "on 12 seeded pairs", solver="none (finite concrete table)")
    return guarded(ob, body)


def run(tier):
    obs = [ob_structure(), ob_exponent(), ob_table()]
    return {"property": "C12", "tier": tier,
            "assumptions": [
                "pow_felt(b, e) computes b^e for the canonical integer e and field_div computes the field quotient (library contract; "
                "both are exercised natively in the translator validation)",
                "law of exponents in F_p^*: (g^a)^b = g^(ab)",
                "the number-theoretic half has no symbolic variable: it is a finite concrete table, reported as such",
                "t + c > 192 (2^(t+c) does not divide p-1) is outside the property's quantifier",
            ],
            "obligations": obs}
