registry! {
    c09_pow_iff: scen::c09::IFF_LEN => scen::c09::pow_iff;
    c09_pow_config: scen::c09::CFG_LEN => scen::c09::pow_config;
    c09_pow_commit: scen::c09::COMMIT_LEN => scen::c09::pow_commit;
}
