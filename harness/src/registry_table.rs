registry! {
    c09_pow_iff: scen::c09::IFF_LEN => scen::c09::pow_iff;
    c09_pow_config: scen::c09::CFG_LEN => scen::c09::pow_config;
    c09_pow_commit: scen::c09::COMMIT_LEN => scen::c09::pow_commit;
    c11_exact_3_2: scen::c11::len(3, 2) => scen::c11::exact::<3, 2>;
    c11_exact_2_1: scen::c11::len(2, 1) => scen::c11::exact::<2, 1>;
    c11_exact_4_3: scen::c11::len(4, 3) => scen::c11::exact::<4, 3>;
    c11_exact_5_4: scen::c11::len(5, 4) => scen::c11::exact::<5, 4>;
    c11_exact_0_0: scen::c11::len(0, 0) => scen::c11::exact::<0, 0>;
    c11_exact_3_1: scen::c11::len(3, 1) => scen::c11::exact::<3, 1>;
    c11_exact_2_2: scen::c11::len(2, 2) => scen::c11::exact::<2, 2>;
}
