//! The few operations whose spelling differs between the model and the real libraries.
use starknet_crypto::Felt;

pub type W = [u64; 4];
pub const P: W = [1, 0, 0, 0x0800000000000011];

pub fn w_lt(a: &W, b: &W) -> bool {
    if a[3] != b[3] {
        return a[3] < b[3];
    }
    if a[2] != b[2] {
        return a[2] < b[2];
    }
    if a[1] != b[1] {
        return a[1] < b[1];
    }
    a[0] < b[0]
}

#[cfg(kani)]
pub fn felt_from_word(w: W) -> Felt {
    Felt(w)
}
#[cfg(kani)]
pub fn felt_to_word(f: &Felt) -> W {
    f.0
}

#[cfg(not(kani))]
pub fn felt_from_word(w: W) -> Felt {
    let mut b = [0u8; 32];
    b[0..8].copy_from_slice(&w[3].to_be_bytes());
    b[8..16].copy_from_slice(&w[2].to_be_bytes());
    b[16..24].copy_from_slice(&w[1].to_be_bytes());
    b[24..32].copy_from_slice(&w[0].to_be_bytes());
    Felt::from_bytes_be(&b)
}
#[cfg(not(kani))]
pub fn felt_to_word(f: &Felt) -> W {
    let b = f.to_bytes_be();
    let g = |i: usize| u64::from_be_bytes(b[i..i + 8].try_into().unwrap());
    [g(24), g(16), g(8), g(0)]
}

pub fn felt_u64(v: u64) -> Felt {
    Felt::from(v)
}

/// Integer value of a felt if it fits 64 bits.
pub fn felt_as_u64(f: &Felt) -> Option<u64> {
    let w = felt_to_word(f);
    if w[1] == 0 && w[2] == 0 && w[3] == 0 {
        Some(w[0])
    } else {
        None
    }
}

/// `assume` under Kani; natively a failed assumption aborts the replay as "not applicable".
#[cfg(kani)]
pub fn assume(c: bool) {
    kani::assume(c)
}
#[cfg(not(kani))]
pub fn assume(c: bool) {
    if !c {
        std::panic::panic_any(AssumptionViolated);
    }
}
#[derive(Debug)]
pub struct AssumptionViolated;

/// Structural harnesses over fully symbolic felts: keep products uninterpreted (see verif-uf).
#[cfg(kani)]
pub fn cheap_mul() {
    verif_uf::set_cheap_mul(true)
}
#[cfg(not(kani))]
pub fn cheap_mul() {}
