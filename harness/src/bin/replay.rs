//! Native replay: `replay <scenario> <hex bytes>` runs the scenario against the REAL
//! libraries.  Exit 0 = property holds on this input, 3 = violated (reproduced),
//! 4 = assumption of the harness not met by the input, 5 = usage / unknown scenario.
use std::panic;
use vh::{compat::AssumptionViolated, inp::Inp, registry};

/// input = comma separated u64 words in hex
fn unhex(s: &str) -> Vec<u64> {
    s.trim().split(',').filter(|x| !x.is_empty()).map(|x| u64::from_str_radix(x.trim_start_matches("0x"), 16).unwrap()).collect()
}

fn main() {
    let a: Vec<String> = std::env::args().collect();
    if a.len() < 3 {
        eprintln!("usage: replay <scenario> <w0,w1,..(hex u64)> [tries seed] | replay --len <scenario>");
        std::process::exit(5);
    }
    if a[1] == "--len" {
        match registry::lookup(&a[2]) {
            Some((len, _)) => {
                println!("{}", len);
                std::process::exit(0)
            }
            None => std::process::exit(5),
        }
    }
    let Some((len, f)) = registry::lookup(&a[1]) else {
        eprintln!("unknown scenario {}", a[1]);
        std::process::exit(5);
    };
    let mut bytes = unhex(&a[2]);
    bytes.resize(len, 0);
    // optional: `<tries> <seed>` — if the solver's input does not reproduce (it may rely on a
    // hash value only the uninterpreted model can produce), search its neighbourhood: the
    // same input with 1..3 bytes replaced, seeded.
    let tries: u64 = a.get(3).and_then(|s| s.parse().ok()).unwrap_or(0);
    let mut rng: u64 = a.get(4).and_then(|s| s.parse().ok()).unwrap_or(0) ^ 0x9e3779b97f4a7c15;
    let mut next = move || {
        rng ^= rng << 13;
        rng ^= rng >> 7;
        rng ^= rng << 17;
        rng
    };
    panic::set_hook(Box::new(|_| {}));
    let mut first: Option<(i32, String)> = None;
    // candidates: the solver's input; then (if tries > 0) every single word replaced by a
    // boundary value; then seeded random 1..3-word mutations
    const INTERESTING: [u64; 18] = [0, 1, 2, 3, 4, 5, 7, 8, 16, 32, 64, 127, 128, 129, 192, 255, u64::MAX, 1 << 63];
    let sweep = if tries > 0 { len * INTERESTING.len() } else { 0 };
    // short inputs: also every PAIR of words replaced by boundary values
    let npairs = if tries > 0 && len >= 2 && len <= 6 { len * (len - 1) / 2 } else { 0 };
    let pair_sweep = npairs * INTERESTING.len() * INTERESTING.len();
    for t in 0..=(tries as usize + sweep + pair_sweep) {
        let mut b = bytes.clone();
        if t > 0 && t <= sweep {
            let k = t - 1;
            b[k / INTERESTING.len()] = INTERESTING[k % INTERESTING.len()];
        } else if t > sweep && t <= sweep + pair_sweep {
            let k = t - sweep - 1;
            let n2 = INTERESTING.len() * INTERESTING.len();
            let (mut pi, mut pj, mut cnt) = (0usize, 1usize, 0usize);
            'outer: for i0 in 0..len {
                for j0 in (i0 + 1)..len {
                    if cnt == k / n2 {
                        pi = i0;
                        pj = j0;
                        break 'outer;
                    }
                    cnt += 1;
                }
            }
            b[pi] = INTERESTING[(k % n2) / INTERESTING.len()];
            b[pj] = INTERESTING[(k % n2) % INTERESTING.len()];
        } else if t > sweep + pair_sweep && len > 0 {
            let k = 1 + (next() % 3) as usize;
            for _ in 0..k {
                let pos = (next() % len as u64) as usize;
                b[pos] = match next() % 4 {
                    0 => next(),
                    1 => next() & 0xff,
                    2 => b[pos] ^ (1 << (next() % 64)),
                    _ => b[pos].wrapping_add(1),
                };
            }
        }
        let (code, msg) = run_once(&a[1], f, &b);
        if t == 0 {
            first = Some((code, msg.clone()));
        }
        if code == 3 {
            let hex: String = b.iter().map(|x| format!("{:x}", x)).collect::<Vec<_>>().join(",");
            println!("{}", msg.replacen('{', &format!("{{\"tries\":{},\"bytes\":\"{}\",", t, hex), 1));
            std::process::exit(3);
        }
    }
    let (code, msg) = first.unwrap();
    println!("{}", msg);
    std::process::exit(code);
}

fn run_once(name: &str, f: registry::Scen, bytes: &[u64]) -> (i32, String) {
    let r = panic::catch_unwind(|| {
        let mut i = Inp::new(bytes);
        let out = f(&mut i);
        (out.ok, out.witness)
    });
    match r {
        Ok((Ok(()), w)) => (0, format!("{{\"scenario\":\"{}\",\"verdict\":\"holds\",\"witness\":{}}}", name, w)),
        Ok((Err(why), w)) => {
            (3, format!("{{\"scenario\":\"{}\",\"verdict\":\"violated\",\"why\":\"{}\",\"witness\":{}}}", name, why, w))
        }
        Err(e) => {
            if e.downcast_ref::<AssumptionViolated>().is_some() {
                return (4, format!("{{\"scenario\":\"{}\",\"verdict\":\"assumption\"}}", name));
            }
            let msg = e
                .downcast_ref::<String>()
                .cloned()
                .or_else(|| e.downcast_ref::<&str>().map(|s| s.to_string()))
                .unwrap_or_default()
                .replace('"', "'");
            (3, format!("{{\"scenario\":\"{}\",\"verdict\":\"panic\",\"why\":\"{}\"}}", name, msg))
        }
    }
}
