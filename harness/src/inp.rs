//! Word-cursor input source shared by the Kani and the native build.  All symbolic input of
//! a scenario is ONE `[u64; N]` array; every accessor consumes whole words (cheap for CBMC).
use crate::compat::{assume, felt_from_word, w_lt, P, W};
use starknet_crypto::Felt;

pub struct Inp<'a> {
    b: &'a [u64],
    pos: usize,
}
impl<'a> Inp<'a> {
    pub fn new(b: &'a [u64]) -> Self {
        Inp { b, pos: 0 }
    }
    pub fn used(&self) -> usize {
        self.pos
    }
    pub fn u64(&mut self) -> u64 {
        let v = self.b[self.pos];
        self.pos += 1;
        v
    }
    pub fn u8(&mut self) -> u8 {
        self.u64() as u8
    }
    pub fn u16(&mut self) -> u16 {
        self.u64() as u16
    }
    pub fn bool(&mut self) -> bool {
        self.u64() & 1 == 1
    }
    pub fn word(&mut self) -> W {
        [self.u64(), self.u64(), self.u64(), self.u64()]
    }
    pub fn bytes32(&mut self) -> [u8; 32] {
        let w = self.word();
        let mut o = [0u8; 32];
        o[0..8].copy_from_slice(&w[3].to_be_bytes());
        o[8..16].copy_from_slice(&w[2].to_be_bytes());
        o[16..24].copy_from_slice(&w[1].to_be_bytes());
        o[24..32].copy_from_slice(&w[0].to_be_bytes());
        o
    }
    /// any canonical field element (4 words)
    pub fn felt(&mut self) -> Felt {
        let w = self.word();
        assume(w_lt(&w, &P));
        felt_from_word(w)
    }
    /// a felt that is a small integer (< 2^16): cheap for shape-like numbers (1 word)
    pub fn felt_u16(&mut self) -> Felt {
        Felt::from(self.u16())
    }
    /// u8 in lo..=hi
    pub fn range_u8(&mut self, lo: u8, hi: u8) -> u8 {
        let v = self.u64();
        assume(v >= lo as u64 && v <= hi as u64);
        v as u8
    }
}
