//! Byte-cursor input source shared by the Kani and the native build.
use crate::compat::{assume, felt_from_word, w_lt, P, W};
use starknet_crypto::Felt;

pub struct Inp<'a> {
    b: &'a [u8],
    pos: usize,
}
impl<'a> Inp<'a> {
    pub fn new(b: &'a [u8]) -> Self {
        Inp { b, pos: 0 }
    }
    pub fn used(&self) -> usize {
        self.pos
    }
    pub fn u8(&mut self) -> u8 {
        let v = self.b[self.pos];
        self.pos += 1;
        v
    }
    pub fn bool(&mut self) -> bool {
        self.u8() & 1 == 1
    }
    pub fn u16(&mut self) -> u16 {
        (self.u8() as u16) | ((self.u8() as u16) << 8)
    }
    pub fn u64(&mut self) -> u64 {
        let mut v: u64 = 0;
        let mut i = 0;
        while i < 8 {
            v |= (self.u8() as u64) << (8 * i);
            i += 1;
        }
        v
    }
    pub fn bytes32(&mut self) -> [u8; 32] {
        let mut o = [0u8; 32];
        let mut i = 0;
        while i < 32 {
            o[i] = self.u8();
            i += 1;
        }
        o
    }
    pub fn word(&mut self) -> W {
        [self.u64(), self.u64(), self.u64(), self.u64()]
    }
    /// any canonical field element
    pub fn felt(&mut self) -> Felt {
        let w = self.word();
        assume(w_lt(&w, &P));
        felt_from_word(w)
    }
    /// a felt that is a small integer (< 2^16): cheap for shape-like numbers
    pub fn felt_u16(&mut self) -> Felt {
        Felt::from(self.u16())
    }
    /// u8 in lo..=hi
    pub fn range_u8(&mut self, lo: u8, hi: u8) -> u8 {
        let v = self.u8();
        assume(v >= lo && v <= hi);
        v
    }
}
