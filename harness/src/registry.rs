//! Name -> (input length, scenario) table used by the native replay binary and by the
//! generated Kani proofs.
use crate::inp::Inp;
use crate::scen::{self, Out};

pub type Scen = fn(&mut Inp) -> Out;

macro_rules! registry {
    ($( $name:ident : $len:expr => $f:path ; )*) => {
        pub fn lookup(name: &str) -> Option<(usize, Scen)> {
            match name {
                $( stringify!($name) => Some(($len, $f as Scen)), )*
                _ => None,
            }
        }
        pub const NAMES: &[&str] = &[ $( stringify!($name), )* ];
    };
}
include!("registry_table.rs");
