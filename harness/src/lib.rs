//! Harness crate for the E1 engine (DESIGN.md §1.1/§1.4).  The same scenario code is
//! (a) compiled by Kani against the model libraries and decided by CBMC, and
//! (b) compiled natively against the real libraries for replay of counterexamples.
//! A scenario takes all of its symbolic input from ONE byte array (`Inp`), so a Kani
//! counterexample is a single byte string that the native build can re-run unchanged.
#![allow(clippy::all)]
#![allow(dead_code, unused_imports, unused_variables, unused_mut)]
extern crate alloc;
pub mod compat;
pub mod inp;
pub mod scen;
pub mod registry;

#[cfg(kani)]
mod proofs;
