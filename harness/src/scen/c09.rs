//! C09 — proof of work accepted exactly when the hash has the required zero bits.
use super::{check, Out};
use crate::inp::Inp;
#[cfg(feature = "blake2s")]
use blake2::{Blake2s256 as H, Digest};
#[cfg(feature = "keccak")]
use sha3::{Digest, Keccak256 as H};
use swiftness_pow::{config::Config, pow::verify_pow, pow::UnsentCommitment};
use swiftness_transcript::transcript::Transcript;

pub const IFF_LEN: usize = 4 + 1 + 1;

fn oracle(digest: &[u8; 32], n_bits: u8, nonce: u64) -> bool {
    let mut d1 = [0u8; 41];
    d1[0..8].copy_from_slice(&0x0123456789abcdedu64.to_be_bytes());
    d1[8..40].copy_from_slice(digest);
    d1[40] = n_bits;
    let mut h = H::new();
    h.update(&d1[..]);
    let h1 = h.finalize().to_vec();
    let mut d2 = [0u8; 40];
    d2[0..32].copy_from_slice(&h1[0..32]);
    d2[32..40].copy_from_slice(&nonce.to_be_bytes());
    let mut h = H::new();
    h.update(&d2[..]);
    let h2 = h.finalize().to_vec();
    let mut top = [0u8; 16];
    top.copy_from_slice(&h2[0..16]);
    let t = u128::from_be_bytes(top);
    if n_bits == 0 {
        true
    } else if n_bits >= 128 {
        t == 0
    } else {
        (t >> (128 - n_bits as u32)) == 0
    }
}

/// verify_pow(digest, n, nonce).is_ok()  <=>  H(H(magic||digest||n)||nonce) starts with n zero bits
pub fn pow_iff(i: &mut Inp) -> Out {
    let digest = i.bytes32();
    let n_bits = i.range_u8(0, 128);
    let nonce = i.u64();
    let want = oracle(&digest, n_bits, nonce);
    let got = verify_pow(digest, n_bits, nonce).is_ok();
    Out::new(check(want == got, "verify_pow disagrees with the bit-level oracle"), got && n_bits >= 20)
}

pub const CFG_LEN: usize = 1;
/// Config::validate is Ok exactly for 20..=50
pub fn pow_config(i: &mut Inp) -> Out {
    let n = i.u8();
    let got = Config { n_bits: n }.validate().is_ok();
    Out::new(check(got == (n >= 20 && n <= 50), "pow Config::validate bounds"), got)
}

pub const COMMIT_LEN: usize = 4 + 4 + 1 + 1;
/// commit: checks the PoW on the pre-absorb digest, then absorbs the nonce (digest' =
/// state after read_uint64(nonce) from the pre-state), counter reset.
pub fn pow_commit(i: &mut Inp) -> Out {
    let d = i.felt();
    let c = i.felt();
    let n_bits = i.range_u8(0, 128);
    let nonce = i.u64();
    // oracle side first: every UF row of the oracle precedes the data-dependent early
    // return inside `commit`, so the UF row counter stays path independent
    let want_ok = oracle(&d.to_bytes_be(), n_bits, nonce);
    let mut o = Transcript::new_with_counter(d, c);
    o.read_uint64_from_prover(nonce);
    let mut t = Transcript::new_with_counter(d, c);
    let r = UnsentCommitment { nonce }.commit(&mut t, &Config { n_bits });
    let ok = check(r.is_ok() == want_ok, "commit verdict != PoW oracle on the pre-absorb digest").and(
        if r.is_ok() {
            check(
                t.digest() == o.digest() && t.counter() == o.counter(),
                "transcript after commit != absorb_u64(nonce) of the pre-state",
            )
        } else {
            Ok(())
        },
    );
    Out::new(ok, r.is_ok())
}
