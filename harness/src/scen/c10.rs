//! C10 — query indices are in range, strictly increasing, and map to the right points.
use super::{check, Out};
use crate::compat::{felt_from_word, felt_to_word};
use crate::inp::Inp;
use alloc::vec::Vec;
use starknet_crypto::Felt;
use swiftness_air::domains::StarkDomains;
use swiftness_stark::queries::{generate_queries, queries_to_points};
use swiftness_transcript::transcript::Transcript;

pub const GEN_LEN: usize = 4 + 4 + 1;

/// generate_queries(transcript, N, 2^k): output == sort+dedup of low128(r_i) mod 2^k for the
/// N challenges r_i drawn in order; in range; strictly increasing; at most N; the transcript
/// is left exactly N squeezes further.
pub fn generate<const N: usize, const KMAX: u8>(i: &mut Inp) -> Out {
    let d = i.felt();
    let c = i.felt();
    let k = i.range_u8(1, KMAX) as u32;
    // oracle: draw the same challenges from an identical transcript
    let mut o = Transcript::new_with_counter(d, c);
    let mut want: [u64; N] = [0; N];
    let mut n = 0;
    while n < N {
        let r = felt_to_word(&o.random_felt_to_prover());
        // low 128 bits, then mod 2^k with k <= 64: the low k bits of limb 0
        want[n] = if k == 64 { r[0] } else { r[0] & ((1u64 << k) - 1) };
        n += 1;
    }
    // sort (insertion) + dedup
    let mut a = 1;
    while a < N {
        let mut b = a;
        while b > 0 && want[b - 1] > want[b] {
            let t = want[b];
            want[b] = want[b - 1];
            want[b - 1] = t;
            b -= 1;
        }
        a += 1;
    }
    let bound = if k == 64 { Felt::from(1u128 << 64) } else { Felt::from(1u64 << k) };
    let mut t = Transcript::new_with_counter(d, c);
    let got = generate_queries(&mut t, Felt::from(N as u64), bound);
    // expected list after dedup
    let mut exp: Vec<u64> = Vec::with_capacity(N);
    let mut n = 0;
    while n < N {
        if n == 0 || want[n] != want[n - 1] {
            exp.push(want[n]);
        }
        n += 1;
    }
    let mut ok = check(got.len() <= N, "more indices than the configured query count");
    let mut n = 0;
    while n < got.len() {
        let g = felt_to_word(&got[n]);
        ok = ok.and(check(g[1] == 0 && g[2] == 0 && g[3] == 0 && (k == 64 || g[0] < (1u64 << k)), "index out of range"));
        if n > 0 {
            ok = ok.and(check(got[n - 1] < got[n], "indices not strictly increasing (repeat or unsorted)"));
        }
        n += 1;
    }
    ok = ok.and(check(got.len() == exp.len(), "index set differs from sort+dedup of the sampled values (length)"));
    if got.len() == exp.len() {
        let mut n = 0;
        while n < exp.len() {
            ok = ok.and(check(got[n] == Felt::from(exp[n]), "index set differs from sort+dedup of the sampled values"));
            n += 1;
        }
    }
    ok = ok.and(check(t.digest() == o.digest() && t.counter() == o.counter(), "transcript not advanced by exactly N squeezes"));
    Out::new(ok, got.len() == N || N == 0)
}

fn bitrev(q: u64, log: u32) -> u64 {
    let mut r: u64 = 0;
    let mut b = 0;
    while b < 64 {
        if b < log && (q >> b) & 1 == 1 {
            r |= 1u64 << (log - 1 - b);
        }
        b += 1;
    }
    r
}

pub const PTS_LEN: usize = 1 + 4 + 1;
/// queries_to_points: index i -> 3 * w^bitreverse_log(i)
pub fn points(i: &mut Inp) -> Out {
    let log = i.range_u8(1, 64) as u32;
    let gen = i.felt();
    let mask = if log == 64 { u64::MAX } else { (1u64 << log) - 1 };
    let q0 = i.u64() & mask;
    let size = if log == 64 { Felt::from(1u128 << 64) } else { Felt::from(1u64 << log) };
    let dom = StarkDomains {
        log_eval_domain_size: Felt::from(log as u64),
        eval_domain_size: size,
        eval_generator: gen,
        log_trace_domain_size: Felt::ZERO,
        trace_domain_size: Felt::ONE,
        trace_generator: Felt::ONE,
    };
    let want0 = Felt::THREE * gen.pow(bitrev(q0, log));
    let got = queries_to_points(&[Felt::from(q0)], &dom);
    let ok = check(got.len() == 1, "wrong number of points")
        .and(check(got.len() == 1 && got[0] == want0, "point != 3 * w^bitreverse(index)"));
    Out::new(ok, true)
}

/// two CONSECUTIVE indices q, q+1 (q symbolic): each is mapped independently to
/// 3 * w^bitreverse(index) — guards against "sibling" shortcuts between adjacent queries
pub fn points2(i: &mut Inp) -> Out {
    let log = i.range_u8(2, 64) as u32;
    let gen = i.felt();
    let mask = if log == 64 { u64::MAX } else { (1u64 << log) - 1 };
    let q0 = i.u64() & mask;
    crate::compat::assume(q0 < mask);
    let q1 = q0 + 1;
    let size = if log == 64 { Felt::from(1u128 << 64) } else { Felt::from(1u64 << log) };
    let dom = StarkDomains {
        log_eval_domain_size: Felt::from(log as u64),
        eval_domain_size: size,
        eval_generator: gen,
        log_trace_domain_size: Felt::ZERO,
        trace_domain_size: Felt::ONE,
        trace_generator: Felt::ONE,
    };
    let want0 = Felt::THREE * gen.pow(bitrev(q0, log));
    let want1 = Felt::THREE * gen.pow(bitrev(q1, log));
    let got = queries_to_points(&[Felt::from(q0), Felt::from(q1)], &dom);
    let ok = check(got.len() == 2, "wrong number of points")
        .and(check(got.len() == 2 && got[0] == want0 && got[1] == want1, "point != 3 * w^bitreverse(index) for one of two consecutive indices"));
    Out::new(ok, true)
}
