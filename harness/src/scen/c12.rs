//! C12 (E1 part) — StarkDomains::new computes the defining formulas (compiled real code).
use super::{check, Out};
use crate::inp::Inp;
use starknet_core::types::NonZeroFelt;
use starknet_crypto::Felt;
use swiftness_air::domains::StarkDomains;

pub const LEN: usize = 2;
/// For every t, c with t + c <= 192: sizes are 2^t and 2^(t+c); generators are
/// 3^((p-1)/size) (pow uninterpreted, the exponent exact), independently for both domains.
pub fn domains(i: &mut Inp) -> Out {
    let t = i.range_u8(0, 192) as u64;
    let c = i.range_u8(0, 192) as u64;
    crate::compat::assume(t + c <= 192);
    let p_minus_1 = Felt::from_hex_unchecked("0x800000000000011000000000000000000000000000000000000000000000000");
    let trace_size = Felt::TWO.pow(t);
    let eval_size = Felt::TWO.pow(t + c);
    let want_trace_gen = Felt::THREE.pow_felt(&p_minus_1.field_div(&NonZeroFelt::try_from(trace_size).unwrap()));
    let want_eval_gen = Felt::THREE.pow_felt(&p_minus_1.field_div(&NonZeroFelt::try_from(eval_size).unwrap()));
    let d = StarkDomains::new(Felt::from(t), Felt::from(c));
    let ok = check(d.log_trace_domain_size == Felt::from(t) && d.log_eval_domain_size == Felt::from(t + c), "reported exponents")
        .and(check(d.trace_domain_size == trace_size && d.eval_domain_size == eval_size, "reported sizes are not the powers of two"))
        .and(check(d.trace_generator == want_trace_gen, "trace generator != 3^((p-1)/2^t)"))
        .and(check(d.eval_generator == want_eval_gen, "evaluation generator != 3^((p-1)/2^(t+c))"));
    Out::new(ok, true)
}
