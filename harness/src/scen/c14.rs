//! C14 — public-input validation and returned hashes follow the memory layout
//! (layout `recursive`; the other layouts share verify_public_input verbatim).
use super::{check, Out};
use crate::compat::{felt_to_word, W};
use crate::inp::Inp;
use alloc::vec::Vec;
use starknet_crypto::{pedersen_hash, Felt};
use swiftness_air::domains::StarkDomains;
use swiftness_air::layout::recursive::{self as lay, Layout};
use swiftness_air::layout::LayoutTrait;
use swiftness_air::public_memory::PublicInput;
use swiftness_air::types::{AddrValue, Page, SegmentInfo};

fn small(f: &Felt) -> Option<u64> {
    let w = felt_to_word(f);
    if w[1] == 0 && w[2] == 0 && w[3] == 0 {
        Some(w[0])
    } else {
        None
    }
}
fn w_sub(a: &W, b: &W) -> Option<W> {
    // a - b as integers, None if negative
    let (r0, b0) = a[0].overflowing_sub(b[0]);
    let (t1, b1a) = a[1].overflowing_sub(b[1]);
    let (r1, b1b) = t1.overflowing_sub(b0 as u64);
    let (t2, b2a) = a[2].overflowing_sub(b[2]);
    let (r2, b2b) = t2.overflowing_sub((b1a | b1b) as u64);
    let (t3, b3a) = a[3].overflowing_sub(b[3]);
    let (r3, b3b) = t3.overflowing_sub((b2a | b2b) as u64);
    if b3a | b3b {
        None
    } else {
        Some([r0, r1, r2, r3])
    }
}
fn w_le(a: &W, b: &W) -> bool {
    w_sub(b, a).is_some()
}
fn w_mod_small(a: &W, m: u64) -> u64 {
    // valid for m in {3, 5}: 2^64 = 1 (mod m)
    ((a[0] % m) + (a[1] % m) + (a[2] % m) + (a[3] % m)) % m
}
fn w_shl(v: u64, k: u32) -> W {
    // v * 2^k for small v (v < 8) and k < 250
    let mut w = [0u64; 4];
    let limb = (k / 64) as usize;
    let bits = k % 64;
    w[limb] = v << bits;
    if bits != 0 && limb + 1 < 4 {
        w[limb + 1] = v >> (64 - bits);
    }
    w
}

pub const VAL_LEN: usize = 4 * 4 + 8 * lay::segments::N_SEGMENTS + 1;

fn uses_ok(seg: &SegmentInfo, cells_per_instance: u64, log_trace: u32, log_row_ratio: u32) -> bool {
    // whole number of instances, not exceeding trace_length / row_ratio (integer quotient)
    // usage = stop - begin in the field, read as a non-negative integer
    let d = felt_to_word(&(seg.stop_ptr - seg.begin_addr));
    if cells_per_instance != 1 && w_mod_small(&d, cells_per_instance) != 0 {
        return false;
    }
    if log_trace < log_row_ratio {
        // the trace holds no instance at all
        return d[0] == 0 && d[1] == 0 && d[2] == 0 && d[3] == 0;
    }
    let cap = w_shl(cells_per_instance, log_trace - log_row_ratio);
    w_le(&d, &cap)
}

/// validate_public_input(public_input, domains).is_ok() <=> the statement's predicate.
pub fn validate(i: &mut Inp) -> Out {
    let log_n_steps = i.felt();
    let rc_min = i.felt();
    let rc_max = i.felt();
    let layout = i.felt();
    let mut segments = Vec::with_capacity(lay::segments::N_SEGMENTS);
    let mut k = 0;
    while k < lay::segments::N_SEGMENTS {
        segments.push(SegmentInfo { begin_addr: i.felt(), stop_ptr: i.felt() });
        k += 1;
    }
    let t = i.range_u8(0, 120) as u32;
    let pi = PublicInput {
        log_n_steps,
        range_check_min: rc_min,
        range_check_max: rc_max,
        layout,
        dynamic_params: None,
        segments,
        padding_addr: Felt::ZERO,
        padding_value: Felt::ZERO,
        main_page: Page(Vec::new()),
        continuous_page_headers: Vec::new(),
    };
    let trace_len = Felt::TWO.pow(t as u64);
    let dom = StarkDomains {
        log_eval_domain_size: Felt::from(t as u64 + 1),
        eval_domain_size: Felt::TWO.pow(t as u64 + 1),
        eval_generator: Felt::THREE,
        log_trace_domain_size: Felt::from(t as u64),
        trace_domain_size: trace_len,
        trace_generator: Felt::THREE,
    };
    // ---- predicate of the statement, over integers
    let s = &pi.segments;
    let want = match small(&pi.log_n_steps) {
        // step count matches the trace length: 2^log_n_steps * CPU_COMPONENT_HEIGHT * STEP == 2^t
        Some(l) if l < 0x50 => l as u32 + lay::LOG_CPU_COMPONENT_HEIGHT as u32 == t && lay::CPU_COMPONENT_STEP == 1,
        _ => false,
    } && match (small(&pi.range_check_min), small(&pi.range_check_max)) {
        (Some(a), Some(b)) => a < b && b <= 0xffff,
        _ => false,
    } && pi.layout == lay::LAYOUT_CODE
        // output segment: a non-negative size below 2^128 (not tied to the trace)
        && {
            let d = felt_to_word(&(s[lay::segments::OUTPUT].stop_ptr - s[lay::segments::OUTPUT].begin_addr));
            d[2] == 0 && d[3] == 0
        }
        && uses_ok(&s[lay::segments::PEDERSEN], 3, t, 11)
        && uses_ok(&s[lay::segments::RANGE_CHECK], 1, t, 7)
        && uses_ok(&s[lay::segments::BITWISE], 5, t, 7);
    let got = Layout::validate_public_input(&pi, &dom).is_ok();
    Out::new(
        if got && !want {
            Err("validate_public_input accepted an input the predicate rejects")
        } else if !got && want {
            Err("validate_public_input rejected an input the predicate accepts")
        } else {
            Ok(())
        },
        got,
    )
}

pub const fn ver_len(m: usize) -> usize {
    8 * m + 4
}
/// verify_public_input: Ok((ph, oh)) => program cells are the first cells, at consecutive
/// addresses from the initial pc; output cells are the last cells, at consecutive addresses
/// from the output segment start; the hashes are the Pedersen chains of those values; a page
/// that is too short is an error.
pub fn verify<const M: usize>(i: &mut Inp) -> Out {
    let mut page = Vec::with_capacity(M);
    let mut k = 0;
    while k < M {
        page.push(AddrValue { address: i.felt(), value: i.felt() });
        k += 1;
    }
    let initial_ap = i.u64() & 15;
    let final_ap = i.u64() & 15;
    let out_begin = i.u64() & 0xffff;
    let out_len = i.u64() & 7;
    let seg = |b: u64, s: u64| SegmentInfo { begin_addr: Felt::from(b), stop_ptr: Felt::from(s) };
    let mut segments = Vec::with_capacity(lay::segments::N_SEGMENTS);
    let mut k = 0;
    while k < lay::segments::N_SEGMENTS {
        segments.push(if k == lay::segments::PROGRAM {
            seg(1, 5)
        } else if k == lay::segments::EXECUTION {
            seg(initial_ap, final_ap)
        } else if k == lay::segments::OUTPUT {
            seg(out_begin, out_begin + out_len)
        } else {
            seg(0, 0)
        });
        k += 1;
    }
    let pi = PublicInput {
        log_n_steps: Felt::ZERO,
        range_check_min: Felt::ZERO,
        range_check_max: Felt::ONE,
        layout: lay::LAYOUT_CODE,
        dynamic_params: None,
        segments,
        padding_addr: Felt::ZERO,
        padding_value: Felt::ZERO,
        main_page: Page(page),
        continuous_page_headers: Vec::new(),
    };
    // ---- address based oracle (before the code under test: keeps UF rows path independent)
    // program = addresses initial_pc .. initial_fp - 2  (initial_pc = 1, initial_fp = initial_ap)
    let well_formed = initial_ap >= 3 && (initial_ap - 3) as usize + out_len as usize <= M;
    let mut addr_ok = well_formed;
    let mut ph = Felt::ZERO;
    let mut oh = Felt::ZERO;
    if well_formed {
        let plen = (initial_ap - 3) as usize;
        let mut k = 0;
        while k < plen {
            addr_ok = addr_ok && pi.main_page[k].address == Felt::from(1 + k as u64);
            ph = pedersen_hash(&ph, &pi.main_page[k].value);
            k += 1;
        }
        ph = pedersen_hash(&ph, &Felt::from(plen as u64));
        let mut k = 0;
        while k < out_len as usize {
            let c = &pi.main_page[M - out_len as usize + k];
            addr_ok = addr_ok && c.address == Felt::from(out_begin + k as u64);
            oh = pedersen_hash(&oh, &c.value);
            k += 1;
        }
        oh = pedersen_hash(&oh, &Felt::from(out_len));
    }
    let r = Layout::verify_public_input(&pi);
    let ok = match r {
        Ok((p, o)) => check(well_formed, "a main page that is too short for the program and output was hashed")
            .and(check(!well_formed || addr_ok, "cells at other addresses were hashed positionally"))
            .and(check(!well_formed || (p == ph && o == oh), "returned hashes are not the Pedersen chains of the program / output cells")),
        Err(_) => Ok(()),
    };
    Out::new(ok, well_formed && addr_ok && initial_ap >= 4)
}

pub const fn layout_len(m: usize) -> usize {
    4 * m + 4
}
/// check_main_page_layout (the address check every layout's verify_public_input runs before
/// hashing by position): Ok => the page holds program_len + output_len cells, the first
/// program_len at initial_pc + i and the last output_len at output_start + j (full field
/// element equality, not a truncated comparison).
pub fn page_layout<const M: usize>(i: &mut Inp) -> Out {
    let mut page = Vec::with_capacity(M);
    let mut k = 0;
    while k < M {
        page.push(AddrValue { address: i.felt(), value: Felt::ZERO });
        k += 1;
    }
    let initial_pc = i.felt();
    let plen = (i.u64() & 3) as usize;
    let out_start = i.felt();
    let olen = (i.u64() & 3) as usize;
    let _pad = i.u64();
    let _pad2 = i.u64();
    let pi = PublicInput {
        log_n_steps: Felt::ZERO,
        range_check_min: Felt::ZERO,
        range_check_max: Felt::ONE,
        layout: Felt::ZERO,
        dynamic_params: None,
        segments: Vec::new(),
        padding_addr: Felt::ZERO,
        padding_value: Felt::ZERO,
        main_page: Page(page),
        continuous_page_headers: Vec::new(),
    };
    let r = swiftness_air::layout::check_main_page_layout(&pi, initial_pc, plen, out_start, olen);
    let mut ok = Ok(());
    if r.is_ok() {
        ok = check(plen + olen <= M, "a page too short for program + output was accepted");
        if plen + olen <= M {
            let mut k = 0;
            while k < plen {
                ok = ok.and(check(pi.main_page[k].address == initial_pc + Felt::from(k as u64), "program cell at another address accepted"));
                k += 1;
            }
            let mut k = 0;
            while k < olen {
                ok = ok.and(check(pi.main_page[M - olen + k].address == out_start + Felt::from(k as u64), "output cell at another address accepted"));
                k += 1;
            }
        }
    }
    Out::new(ok, r.is_ok() && plen + olen >= 2)
}
