//! C05 — table decommitment binds every cell of every queried row.
use super::merkle::{node_hash, row_hash};
use super::{check, Out};
use crate::compat::assume;
use crate::inp::Inp;
use alloc::vec::Vec;
use starknet_crypto::Felt;
use swiftness_commitment::table::{
    config::Config as TableConfig,
    decommit::table_decommit,
    types::{Commitment, Decommitment, Witness},
};
use swiftness_commitment::vector;

fn table_commitment(n_columns: u64, height: u64, f: u64, root: Felt) -> Commitment {
    let vc = vector::config::Config { height: Felt::from(height), n_verifier_friendly_commitment_layers: Felt::from(f) };
    Commitment {
        config: TableConfig { n_columns: Felt::from(n_columns), vector: vc.clone() },
        vector_commitment: vector::types::Commitment { config: vc, commitment_hash: root },
    }
}
fn no_witness(auth: Vec<Felt>) -> Witness {
    Witness { vector: vector::types::Witness { authentications: auth } }
}

pub const fn row_len(nc: usize) -> usize {
    4 * nc + 4 * nc + 4 + 1
}
/// Height-0 table (one row): Ok <=> commitment == row hash of the cells (Montgomery form, the
/// single-cell row unhashed, friendly iff f >= height+1 = 1); a row differing in any cell
/// from the committed one is rejected.
pub fn row<const NC: usize, const F: u64>(i: &mut Inp) -> Out {
    let mut cells = Vec::with_capacity(NC);
    let mut other = Vec::with_capacity(NC);
    let mut k = 0;
    while k < NC {
        cells.push(i.felt());
        k += 1;
    }
    let mut differs = false;
    let mut k = 0;
    while k < NC {
        let o = i.felt();
        differs = differs || o != cells[k];
        other.push(o);
        k += 1;
    }
    let root_any = i.felt();
    let honest = i.u64() & 1 == 1;
    // friendly-layer count concrete per instance (0: masked row hash, 1: Poseidon): keeps the
    // byte-by-byte `flat_map(..to_vec())` path of the real code out of the Poseidon instances
    let f = F;
    let want = row_hash(&cells, f >= 1);
    // committed root: the honest one (computed, replays natively) or any value (symbolic flag)
    let root = if honest { want } else { root_any };
    let r = table_decommit(table_commitment(NC as u64, 0, f, root), &[Felt::ZERO], Decommitment { values: cells }, no_witness(Vec::new()));
    let mut ok = check(r.is_ok() == (root == want), "row accepted iff commitment == H_row(cells * R)");
    // binding form: the committed row is `cells`; any different row must be rejected
    let r2 = table_decommit(table_commitment(NC as u64, 0, f, want), &[Felt::ZERO], Decommitment { values: other }, no_witness(Vec::new()));
    ok = ok.and(check(!(differs && r2.is_ok()), "a row differing in a cell from the committed row was accepted"));
    Out::new(ok, r.is_ok())
}

pub const LEN_LEN: usize = 4 * 3 + 1;
/// values.len() != n_columns * n_queries is rejected (2 columns, 1 query, LEN values)
pub fn length<const LEN: usize>(i: &mut Inp) -> Out {
    let mut v = Vec::with_capacity(LEN);
    let mut k = 0;
    while k < LEN {
        v.push(i.felt());
        k += 1;
    }
    let _unused = i.u64();
    // friendly row hash (count 1 = height+1): keeps the accepting path cheap, so that a
    // length check that wrongly accepts is reported as a violation, not as an unwinding limit
    let f = 1u64;
    let root = if LEN >= 2 { row_hash(&v[0..2], f >= 1) } else { Felt::ZERO };
    let r = table_decommit(table_commitment(2, 0, f, root), &[Felt::ZERO], Decommitment { values: v }, no_witness(Vec::new()));
    Out::new(check(r.is_ok() == (LEN == 2), "cell count must be columns x queries"), true)
}

pub const DELEG_LEN: usize = 4 * 4 + 1 + 1;
/// 2 columns x 2 rows (vector height 1), both rows queried: honest cells accepted; cells moved
/// between rows or columns (any non-trivial permutation that changes the table) rejected;
/// row hash friendly iff f >= 2, node hash friendly iff f >= 1.
pub fn delegate<const F: u64>(i: &mut Inp) -> Out {
    let c = [i.felt(), i.felt(), i.felt(), i.felt()];
    let _unused = i.u64();
    let f = F;
    let perm = i.range_u8(0, 23) as usize;
    let l0 = row_hash(&c[0..2], f >= 2);
    let l1 = row_hash(&c[2..4], f >= 2);
    let root = node_hash(&l0, &l1, f >= 1);
    // the perm-th permutation of 4 positions (Lehmer code)
    let mut pool = [0usize, 1, 2, 3];
    let mut p = [0usize; 4];
    let mut code = perm;
    let mut n = 4;
    let mut k = 0;
    while k < 4 {
        let fct = match n { 4 => 6, 3 => 2, _ => 1 };
        let d = code / fct;
        code %= fct;
        p[k] = pool[d];
        let mut m = d;
        while m + 1 < n {
            pool[m] = pool[m + 1];
            m += 1;
        }
        n -= 1;
        k += 1;
    }
    let moved = [c[p[0]], c[p[1]], c[p[2]], c[p[3]]];
    let changed = moved[0] != c[0] || moved[1] != c[1] || moved[2] != c[2] || moved[3] != c[3];
    let r = table_decommit(table_commitment(2, 1, f, root), &[Felt::ZERO, Felt::ONE], Decommitment { values: moved.to_vec() }, no_witness(Vec::new()));
    Out::new(check(r.is_ok() == !changed, "table accepted iff the cells are the committed ones in their rows and columns"), r.is_ok())
}

