//! C13 — the public-input digest binds every field of the public input.
use super::{check, Out};
use crate::inp::Inp;
use alloc::vec::Vec;
use starknet_crypto::Felt;
use swiftness_air::public_memory::PublicInput;
use swiftness_air::types::{AddrValue, ContinuousPageHeader, Page, SegmentInfo};

pub const fn len(s: usize, m: usize, h: usize) -> usize {
    4 * (4 + 2 * s + 2 + 2 * m + 4 * h + 1)
}
pub fn draw<const S: usize, const M: usize, const HD: usize>(i: &mut Inp) -> (PublicInput, Felt) {
    let log_n_steps = i.felt();
    let range_check_min = i.felt();
    let range_check_max = i.felt();
    let layout = i.felt();
    let mut segments = Vec::with_capacity(S);
    let mut k = 0;
    while k < S {
        segments.push(SegmentInfo { begin_addr: i.felt(), stop_ptr: i.felt() });
        k += 1;
    }
    let padding_addr = i.felt();
    let padding_value = i.felt();
    let mut page = Vec::with_capacity(M);
    let mut k = 0;
    while k < M {
        page.push(AddrValue { address: i.felt(), value: i.felt() });
        k += 1;
    }
    let mut headers = Vec::with_capacity(HD);
    let mut k = 0;
    while k < HD {
        headers.push(ContinuousPageHeader { start_address: i.felt(), size: i.felt(), hash: i.felt(), prod: i.felt() });
        k += 1;
    }
    let nvf = i.felt();
    (
        PublicInput {
            log_n_steps,
            range_check_min,
            range_check_max,
            layout,
            dynamic_params: None,
            segments,
            padding_addr,
            padding_value,
            main_page: Page(page),
            continuous_page_headers: headers,
        },
        nvf,
    )
}

/// Two public inputs of the same shape: equal digests => every hashed field equal
/// (and equal inputs => equal digests, by determinism of the model hash).
pub fn same_shape<const S: usize, const M: usize, const HD: usize>(i: &mut Inp) -> Out {
    let (a, na) = draw::<S, M, HD>(i);
    let (b, nb) = draw::<S, M, HD>(i);
    let ha = a.get_hash(na);
    let hb = b.get_hash(nb);
    let mut same = a.log_n_steps == b.log_n_steps
        && a.range_check_min == b.range_check_min
        && a.range_check_max == b.range_check_max
        && a.layout == b.layout
        && a.padding_addr == b.padding_addr
        && a.padding_value == b.padding_value;
    #[cfg(feature = "stone6")]
    {
        same = same && na == nb;
    }
    let mut k = 0;
    while k < S {
        same = same && a.segments[k].begin_addr == b.segments[k].begin_addr && a.segments[k].stop_ptr == b.segments[k].stop_ptr;
        k += 1;
    }
    let mut k = 0;
    while k < M {
        same = same && a.main_page[k].address == b.main_page[k].address && a.main_page[k].value == b.main_page[k].value;
        k += 1;
    }
    let mut k = 0;
    while k < HD {
        let (x, y) = (&a.continuous_page_headers[k], &b.continuous_page_headers[k]);
        same = same && x.start_address == y.start_address && x.size == y.size && x.hash == y.hash;
        k += 1;
    }
    // same fields => same digest is determinism; the binding direction is the interesting one
    let ok = check(!(ha == hb && !same), "two public inputs differing in a hashed field have the same digest")
        .and(check(!(same && ha != hb), "equal public inputs have different digests"));
    Out::new(ok, ha == hb)
}

/// Different main-page lengths / header counts never give the same digest.
pub fn diff_shape<const S: usize, const MA: usize, const MB: usize, const HA: usize, const HB: usize>(i: &mut Inp) -> Out {
    let (a, na) = draw::<S, MA, HA>(i);
    let (b, nb) = draw::<S, MB, HB>(i);
    let ha = a.get_hash(na);
    let hb = b.get_hash(nb);
    Out::new(check(ha != hb, "public inputs with different main-page length / page count have the same digest"), true)
}
