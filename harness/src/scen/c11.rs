//! C11 — configuration validation accepts exactly consistent, sufficiently secure configs.
use super::{check, Out};
use crate::compat::{felt_to_word, W};
use crate::inp::Inp;
use starknet_crypto::Felt;
use swiftness_air::trace::config::Config as TracesConfig;
use swiftness_commitment::table::config::Config as TableConfig;
use swiftness_commitment::vector::config::Config as VectorConfig;
use swiftness_fri::config::Config as FriConfig;
use swiftness_pow::config::Config as PowConfig;
use swiftness_stark::config::StarkConfig;

fn table(i: &mut Inp) -> TableConfig {
    TableConfig {
        n_columns: i.felt(),
        vector: VectorConfig { height: i.felt(), n_verifier_friendly_commitment_layers: i.felt() },
    }
}
pub const TABLE_LEN: usize = 12;

fn small(f: &Felt) -> Option<u64> {
    let w = felt_to_word(f);
    if w[1] == 0 && w[2] == 0 && w[3] == 0 {
        Some(w[0])
    } else {
        None
    }
}
/// integer a + b (no reduction) == c, for canonical a, c and small b
fn int_add_eq(a: &Felt, b: u64, c: &Felt) -> bool {
    let a = felt_to_word(a);
    let c = felt_to_word(c);
    let (r0, c0) = a[0].overflowing_add(b);
    let (r1, c1) = a[1].overflowing_add(c0 as u64);
    let (r2, c2) = a[2].overflowing_add(c1 as u64);
    let (r3, c3) = a[3].overflowing_add(c2 as u64);
    !c3 && r0 == c[0] && r1 == c[1] && r2 == c[2] && r3 == c[3]
}

pub struct Cfg {
    pub cfg: StarkConfig,
    pub security_bits: Felt,
    pub cols1: Felt,
    pub cols2: Felt,
}

pub const fn len(n_steps: usize, n_inner: usize) -> usize {
    3 * TABLE_LEN + 4 * 3 + 4 * n_steps + TABLE_LEN * n_inner + 1 + 4 * 4 + 4 + 2
}

pub fn build<const NS: usize, const NI: usize>(i: &mut Inp) -> Cfg {
    let original = table(i);
    let interaction = table(i);
    let composition = table(i);
    let log_input_size = i.felt();
    let n_layers = i.felt();
    let log_last = i.felt();
    let mut steps = alloc::vec::Vec::with_capacity(NS);
    let mut k = 0;
    while k < NS {
        steps.push(i.felt());
        k += 1;
    }
    let mut inner = alloc::vec::Vec::with_capacity(NI);
    let mut k = 0;
    while k < NI {
        inner.push(table(i));
        k += 1;
    }
    let n_bits = i.u8();
    let cfg = StarkConfig {
        traces: TracesConfig { original, interaction },
        composition,
        fri: FriConfig {
            log_input_size,
            n_layers,
            inner_layers: inner,
            fri_step_sizes: steps,
            log_last_layer_degree_bound: log_last,
        },
        proof_of_work: PowConfig { n_bits },
        log_trace_domain_size: i.felt(),
        n_queries: i.felt(),
        log_n_cosets: i.felt(),
        n_verifier_friendly_commitment_layers: i.felt(),
    };
    let security_bits = i.felt();
    // the caller's column counts are the layout's: 1..=128 for all seven layouts
    let c1 = 1 + (i.u8() & 127) as u64;
    let c2 = 1 + (i.u8() & 127) as u64;
    Cfg { cfg, security_bits, cols1: Felt::from(c1), cols2: Felt::from(c2) }
}

/// The predicate of the property statement, over non-negative integers.
pub fn oracle(c: &Cfg) -> bool {
    let s = &c.cfg;
    let nb = s.proof_of_work.n_bits as u64;
    if nb < 20 || nb > 50 {
        return false;
    }
    let lc = match small(&s.log_n_cosets) {
        Some(v) if v >= 1 && v <= 16 => v,
        _ => return false,
    };
    let nq = match small(&s.n_queries) {
        Some(v) if v >= 1 && v <= 48 => v,
        _ => return false,
    };
    match small(&c.security_bits) {
        Some(sec) if sec <= nq * lc + nb => {}
        _ => return false,
    }
    if s.traces.original.n_columns != c.cols1 || s.traces.interaction.n_columns != c.cols2 {
        return false;
    }
    let nvf = s.n_verifier_friendly_commitment_layers;
    let lt = &s.log_trace_domain_size;
    for v in [&s.traces.original.vector, &s.traces.interaction.vector, &s.composition.vector] {
        if !int_add_eq(lt, lc, &v.height) || v.n_verifier_friendly_commitment_layers != nvf {
            return false;
        }
    }
    let f = &s.fri;
    let nl = match small(&f.n_layers) {
        Some(v) if v >= 2 && v <= 15 => v as usize,
        _ => return false,
    };
    // vectors must describe every layer (unused trailing elements are tolerated)
    if f.fri_step_sizes.len() < nl || f.inner_layers.len() < nl - 1 {
        return false;
    }
    if small(&f.fri_step_sizes[0]) != Some(0) {
        return false;
    }
    let lis = match small(&f.log_input_size) {
        Some(v) => v,
        None => return false,
    };
    let mut sum: u64 = 0;
    let mut k = 1;
    while k < nl {
        let st = match small(&f.fri_step_sizes[k]) {
            Some(v) if v >= 1 && v <= 4 => v,
            _ => return false,
        };
        sum += st;
        let t = &f.inner_layers[k - 1];
        if small(&t.n_columns) != Some(1u64 << st) {
            return false;
        }
        if sum > lis || small(&t.vector.height) != Some(lis - sum) {
            return false;
        }
        if t.vector.n_verifier_friendly_commitment_layers != nvf {
            return false;
        }
        k += 1;
    }
    let last = match small(&f.log_last_layer_degree_bound) {
        Some(v) if v <= 15 => v,
        _ => return false,
    };
    if lis != sum + last + lc {
        return false;
    }
    // ... and equal to the evaluation-domain exponent
    int_add_eq(lt, lc, &f.log_input_size)
}

/// validate(..).is_ok() <=> oracle, with `NS` step sizes and `NI` inner-layer configs supplied
pub fn exact<const NS: usize, const NI: usize>(i: &mut Inp) -> Out {
    let c = build::<NS, NI>(i);
    let want = oracle(&c);
    let got = c.cfg.validate(c.security_bits, c.cols1, c.cols2).is_ok();
    Out::new(
        if got && !want {
            Err("validate accepted a configuration the integer predicate rejects")
        } else if !got && want {
            Err("validate rejected a configuration the integer predicate accepts")
        } else {
            Ok(())
        },
        got,
    )
}

