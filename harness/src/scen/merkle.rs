//! Independent Merkle / table builders shared by the C04, C05, C07 scenarios.
//! Written from the property statements, not from the decommitment code.
use alloc::vec::Vec;
#[cfg(feature = "blake2s")]
use blake2::{Blake2s256 as H, Digest};
#[cfg(feature = "keccak")]
use sha3::{Digest, Keccak256 as H};
use starknet_crypto::{poseidon_hash, poseidon_hash_many, Felt};

/// masked hash: low 160 / 248 bits of H(be32(x) || be32(y)) — or of any byte string
pub fn masked(bytes: &[u8]) -> Felt {
    let mut h = H::new();
    h.update(bytes);
    let d = h.finalize().to_vec();
    #[cfg(feature = "lsb160")]
    {
        Felt::from_bytes_be_slice(&d[12..32])
    }
    #[cfg(feature = "lsb248")]
    {
        Felt::from_bytes_be_slice(&d[1..32])
    }
}
pub fn node_hash(x: &Felt, y: &Felt, friendly: bool) -> Felt {
    if friendly {
        poseidon_hash(*x, *y)
    } else {
        let mut data = [0u8; 64];
        data[0..32].copy_from_slice(&x.to_bytes_be());
        data[32..64].copy_from_slice(&y.to_bytes_be());
        masked(&data[..])
    }
}
/// Heap-ordered tree over `leaves` (2^H of them): nodes[1] is the root, nodes[2^H + i] leaf i.
/// A node at depth d-1 is the hash of its two children at depth d, friendly iff f >= d.
pub fn build_tree<const H: usize, const NODES: usize>(leaves: &[Felt], f: u64) -> [Felt; NODES] {
    let mut nodes = [Felt::ZERO; NODES];
    let n = 1usize << H;
    let mut i = 0;
    while i < n {
        nodes[n + i] = leaves[i];
        i += 1;
    }
    let mut d = H;
    while d >= 1 {
        let lo = 1usize << (d - 1);
        let hi = 1usize << d;
        let mut k = lo;
        while k < hi {
            nodes[k] = node_hash(&nodes[2 * k], &nodes[2 * k + 1], f >= d as u64);
            k += 1;
        }
        d -= 1;
    }
    nodes
}
/// Honest authentication nodes for the sorted distinct leaf indices `idx`: all siblings of the
/// subtree spanned by the queried leaves, bottom layer up, left to right.  Returned padded
/// with zeros to H*K entries (unused trailing elements) together with the number needed.
pub fn honest_auth<const H: usize, const K: usize, const NODES: usize, const L: usize>(
    nodes: &[Felt; NODES],
    idx: &[u64; K],
) -> ([Felt; L], usize) {
    let mut auth = [Felt::ZERO; L];
    let mut na = 0usize;
    let mut cur = [0usize; K];
    let mut c = K;
    let mut j = 0;
    while j < K {
        cur[j] = (1usize << H) + idx[j] as usize;
        j += 1;
    }
    let mut d = H;
    while d >= 1 {
        let mut next = [0usize; K];
        let mut nc = 0;
        let mut i = 0;
        while i < c {
            let n = cur[i];
            if n % 2 == 0 && i + 1 < c && cur[i + 1] == n + 1 {
                next[nc] = n / 2;
                nc += 1;
                i += 2;
            } else {
                auth[na] = nodes[n ^ 1];
                na += 1;
                next[nc] = n / 2;
                nc += 1;
                i += 1;
            }
        }
        cur = next;
        c = nc;
        d -= 1;
    }
    (auth, na)
}

pub const MONTGOMERY_R: Felt =
    Felt::from_hex_unchecked("0x7FFFFFFFFFFFDF0FFFFFFFFFFFFFFFFFFFFFFFFFFFFFFFFFFFFFFFFFFFFFFE1");

/// Row hash of a table row given the cells as committed (Montgomery form = cell * R):
/// a single cell is used unhashed; otherwise Poseidon over the cells (friendly) or the masked
/// hash of their 32-byte big-endian encodings.
pub fn row_hash(cells: &[Felt], friendly: bool) -> Felt {
    let m: Vec<Felt> = cells.iter().map(|c| *c * MONTGOMERY_R).collect();
    if m.len() == 1 {
        m[0]
    } else if friendly {
        poseidon_hash_many(m.iter())
    } else {
        let mut data: Vec<u8> = Vec::with_capacity(32 * m.len());
        for x in m.iter() {
            data.extend_from_slice(&x.to_bytes_be());
        }
        masked(&data[..])
    }
}
