//! C15 (E1 part) — public memory product: every cell of the main page and every continuous
//! page product enters the product, the total length is the cell count plus the page sizes.
use super::{check, Out};
use crate::inp::Inp;
use alloc::vec::Vec;
use starknet_crypto::Felt;
use swiftness_air::public_memory::PublicInput;
use swiftness_air::types::{AddrValue, ContinuousPageHeader, Page};

pub const fn len(m: usize, h: usize) -> usize {
    8 * m + 16 * h + 8
}
pub fn memory_product<const M: usize, const H: usize>(i: &mut Inp) -> Out {
    crate::compat::cheap_mul();
    let mut page = Vec::with_capacity(M);
    let mut k = 0;
    while k < M {
        page.push(AddrValue { address: i.felt(), value: i.felt() });
        k += 1;
    }
    let mut headers = Vec::with_capacity(H);
    let mut k = 0;
    while k < H {
        headers.push(ContinuousPageHeader { start_address: i.felt(), size: i.felt(), hash: i.felt(), prod: i.felt() });
        k += 1;
    }
    let z = i.felt();
    let alpha = i.felt();
    // defining product, multiplied in the same order (field mul is an uninterpreted function)
    let mut want = Felt::ONE;
    let mut k = 0;
    while k < M {
        want = want * (z - (page[k].address + alpha * page[k].value));
        k += 1;
    }
    let mut pages = Felt::ONE;
    let mut total = Felt::from(M as u64);
    let mut k = 0;
    while k < H {
        pages = pages * headers[k].prod;
        total = total + headers[k].size;
        k += 1;
    }
    let want = want * pages;
    let pi = PublicInput {
        log_n_steps: Felt::ZERO,
        range_check_min: Felt::ZERO,
        range_check_max: Felt::ZERO,
        layout: Felt::ZERO,
        dynamic_params: None,
        segments: Vec::new(),
        padding_addr: Felt::ZERO,
        padding_value: Felt::ZERO,
        main_page: Page(page),
        continuous_page_headers: headers,
    };
    let (got, got_len) = pi.get_public_memory_product(z, alpha);
    Out::new(
        check(got == want, "public memory product != product over all main-page cells and all page products")
            .and(check(got_len == total, "public memory length != main page length + sum of page sizes")),
        true,
    )
}
