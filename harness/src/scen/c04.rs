//! C04 — Merkle vector decommitment is complete and binding.
use super::merkle::{build_tree, honest_auth};
use super::{check, Out};
use crate::compat::assume;
use crate::inp::Inp;
use alloc::vec::Vec;
use starknet_crypto::Felt;
use swiftness_commitment::vector::{
    config::Config,
    decommit::vector_commitment_decommit,
    types::{Commitment, Query, Witness},
};

pub const fn len(h: usize, k: usize) -> usize {
    4 * (1 << h) + 1 + k + 4 * k + 4 * h * k + 4
}

struct Case<const H: usize, const K: usize> {
    leaves: Vec<Felt>,
    f: u64,
    idx: [u64; K],
    values: [Felt; K],
    auth: Vec<Felt>,
    extra: Felt,
}
fn draw<const H: usize, const K: usize>(i: &mut Inp) -> Case<H, K> {
    let n = 1usize << H;
    let mut leaves = Vec::with_capacity(n);
    let mut k = 0;
    while k < n {
        leaves.push(i.felt());
        k += 1;
    }
    let f = i.range_u8(0, (H + 1) as u8) as u64;
    let mut idx = [0u64; K];
    let mut k = 0;
    while k < K {
        idx[k] = i.u64() & (n as u64 - 1);
        if k > 0 {
            // distinct, sorted query indices
            assume(idx[k - 1] < idx[k]);
        }
        k += 1;
    }
    let mut values = [Felt::ZERO; K];
    let mut k = 0;
    while k < K {
        values[k] = i.felt();
        k += 1;
    }
    let mut auth = Vec::with_capacity(H * K);
    let mut k = 0;
    while k < H * K {
        auth.push(i.felt());
        k += 1;
    }
    let extra = i.felt();
    Case { leaves, f, idx, values, auth, extra }
}
fn queries<const K: usize>(idx: &[u64; K], values: &[Felt; K]) -> Vec<Query> {
    let mut q = Vec::with_capacity(K);
    let mut k = 0;
    while k < K {
        q.push(Query { index: Felt::from(idx[k]), value: values[k] });
        k += 1;
    }
    q
}
fn commitment<const H: usize>(root: Felt, f: u64) -> Commitment {
    Commitment {
        config: Config { height: Felt::from(H as u64), n_verifier_friendly_commitment_layers: Felt::from(f) },
        commitment_hash: root,
    }
}

/// BIND: root of the tree over `leaves`; ANY claimed values and ANY authentication nodes:
/// decommitment Ok  ==>  every claimed value is the committed leaf at its index.
pub fn bind<const H: usize, const K: usize, const NODES: usize>(i: &mut Inp) -> Out {
    let c = draw::<H, K>(i);
    let nodes = build_tree::<H, NODES>(&c.leaves, c.f);
    let r = vector_commitment_decommit(commitment::<H>(nodes[1], c.f), &queries(&c.idx, &c.values), Witness { authentications: c.auth });
    let mut ok = Ok(());
    if r.is_ok() {
        let mut k = 0;
        while k < K {
            ok = ok.and(check(c.values[k] == c.leaves[c.idx[k] as usize], "accepted a value that is not the committed leaf at that index"));
            k += 1;
        }
    }
    Out::new(ok, r.is_ok())
}

/// COMPLETE: honest leaves and honest sibling nodes are accepted for the committed root.
/// The root is COMPUTED here (independent builder), so a counterexample replays natively
/// with the real hashes.  WRONG_ROOT = true: the commitment is any OTHER value => rejected.
pub fn complete<const H: usize, const K: usize, const NODES: usize, const L: usize, const WRONG_ROOT: bool>(i: &mut Inp) -> Out {
    let c = draw::<H, K>(i);
    let nodes = build_tree::<H, NODES>(&c.leaves, c.f);
    let (auth, _na) = honest_auth::<H, K, NODES, L>(&nodes, &c.idx);
    let mut vals = [Felt::ZERO; K];
    let mut k = 0;
    while k < K {
        vals[k] = c.leaves[c.idx[k] as usize];
        k += 1;
    }
    let root = if WRONG_ROOT {
        assume(c.extra != nodes[1]);
        c.extra
    } else {
        nodes[1]
    };
    let r = vector_commitment_decommit(commitment::<H>(root, c.f), &queries(&c.idx, &vals), Witness { authentications: auth.to_vec() });
    Out::new(
        check(r.is_ok() == !WRONG_ROOT, if WRONG_ROOT { "honest opening accepted for a commitment that is not the tree's root" } else { "honest opening of the committed tree rejected" }),
        true,
    )
}

/// One query, honest everything except ONE authentication node replaced by a different value
/// (position symbolic), or the last needed node missing: must be rejected.
pub fn corrupt_auth<const H: usize, const NODES: usize, const L: usize>(i: &mut Inp) -> Out {
    let c = draw::<H, 1>(i);
    let nodes = build_tree::<H, NODES>(&c.leaves, c.f);
    let (auth, _na) = honest_auth::<H, 1, NODES, L>(&nodes, &c.idx);
    let vals = [c.leaves[c.idx[0] as usize]];
    let pos = (c.values[0].to_bytes_be()[31] as usize) % H;
    let mut bad = auth.to_vec();
    assume(bad[pos] != c.extra);
    bad[pos] = c.extra;
    let r1 = vector_commitment_decommit(commitment::<H>(nodes[1], c.f), &queries(&c.idx, &vals), Witness { authentications: bad });
    let mut short = auth.to_vec();
    short.truncate(H - 1);
    let r2 = vector_commitment_decommit(commitment::<H>(nodes[1], c.f), &queries(&c.idx, &vals), Witness { authentications: short });
    Out::new(
        check(r1.is_err(), "a changed sibling node was accepted").and(check(r2.is_err(), "a missing sibling node was accepted")),
        true,
    )
}
