//! C08 — Fiat–Shamir challenges depend on exactly the messages sent before them.
use super::{check, Out};
use crate::inp::Inp;
use alloc::vec::Vec;
use starknet_crypto::{poseidon_hash, poseidon_hash_many, Felt};
use swiftness_transcript::transcript::Transcript;

pub const STEP_LEN: usize = 4 + 4 + 4 + 4 + 1;

/// O1: sponge step laws from an ARBITRARY state (one inductive step covers any history).
/// WHICH: 0 = squeeze, 1 = absorb felt / u64, 2 = absorb vector of two, 3 = absorb empty vector
pub fn step_laws<const WHICH: u32>(i: &mut Inp) -> Out {
    let d = i.felt();
    let c = i.felt();
    let v = i.felt();
    let w = i.felt();
    let x = i.u64();
    let d1 = d + Felt::ONE;
    let mut ok = Ok(());
    if WHICH == 0 {
        let sq = poseidon_hash(d, c);
        let mut t = Transcript::new_with_counter(d, c);
        let r = t.random_felt_to_prover();
        ok = check(r == sq && *t.digest() == d && *t.counter() == c + Felt::ONE, "squeeze != H(digest,counter) / counter+1 / digest kept");
    }
    if WHICH == 1 {
        let ab1 = poseidon_hash_many([&d1, &v]);
        let abu = poseidon_hash_many([&d1, &Felt::from(x)]);
        let mut t = Transcript::new_with_counter(d, c);
        t.read_felt_from_prover(&v);
        ok = ok.and(check(*t.digest() == ab1 && *t.counter() == Felt::ZERO, "absorb felt != Hmany(digest+1, v), counter reset"));
        let mut t = Transcript::new_with_counter(d, c);
        t.read_uint64_from_prover(x);
        ok = ok.and(check(*t.digest() == abu && *t.counter() == Felt::ZERO, "absorb u64 != absorb of the felt"));
    }
    if WHICH == 2 {
        let ab2 = poseidon_hash_many([&d1, &v, &w]);
        let mut t = Transcript::new_with_counter(d, c);
        t.read_felt_vector_from_prover(&[v, w]);
        ok = ok.and(check(*t.digest() == ab2 && *t.counter() == Felt::ZERO, "absorb vector != Hmany(digest+1, v, w), counter reset"));
    }
    if WHICH == 3 {
        let ab0 = poseidon_hash_many([&d1]);
        let mut t = Transcript::new_with_counter(d, c);
        t.read_felt_vector_from_prover(&[]);
        ok = ok.and(check(*t.digest() == ab0 && *t.counter() == Felt::ZERO, "absorb empty vector"));
    }
    Out::new(ok, true)
}

pub const NSQ_LEN: usize = 8;
/// random_felts_to_prover(N) = N squeezes in order
pub fn n_squeezes<const N: usize>(i: &mut Inp) -> Out {
    let d = i.felt();
    let c = i.felt();
    let mut o = Transcript::new_with_counter(d, c);
    let mut want = Vec::with_capacity(N);
    let mut n = 0;
    while n < N {
        want.push(o.random_felt_to_prover());
        n += 1;
    }
    let mut t = Transcript::new_with_counter(d, c);
    let got = t.random_felts_to_prover(Felt::from(N as u64));
    let mut ok = check(got.len() == N, "random_felts_to_prover(n) length != n");
    let mut n = 0;
    while n < N && n < got.len() {
        ok = ok.and(check(got[n] == want[n], "random_felts_to_prover != successive squeezes"));
        n += 1;
    }
    ok = ok.and(check(t.digest() == o.digest() && t.counter() == o.counter(), "state after n squeezes"));
    Out::new(ok, true)
}

// O2 histories.  OPS encodes up to 5 operations, 3 bits each, least significant first:
// 1 = absorb felt, 2 = absorb vector of 2, 3 = absorb u64, 4 = squeeze, 0 = end.
// DIFF = index of the absorb operation whose message differs between the two runs.
pub const HIST_LEN: usize = 4 + 5 * 8 * 2 + 1;
fn run_ops<const OPS: u32>(d: Felt, msgs: &[[Felt; 2]; 5], us: &[u64; 5], out: &mut Vec<Felt>, at: &mut Vec<usize>, epoch: &mut Vec<usize>) {
    let mut t = Transcript::new(d);
    let mut absorbs = 0;
    let mut k = 0;
    while k < 5 {
        let op = (OPS >> (3 * k)) & 7;
        match op {
            1 => {
                t.read_felt_from_prover(&msgs[k][0]);
                absorbs += 1
            }
            2 => {
                t.read_felt_vector_from_prover(&msgs[k][..]);
                absorbs += 1
            }
            3 => {
                t.read_uint64_from_prover(us[k]);
                absorbs += 1
            }
            4 => {
                out.push(t.random_felt_to_prover());
                at.push(k);
                epoch.push(absorbs)
            }
            _ => {}
        }
        k += 1;
    }
}
pub fn history<const OPS: u32, const DIFF: usize>(i: &mut Inp) -> Out {
    let d = i.felt();
    let mut m1 = [[Felt::ZERO; 2]; 5];
    let mut m2 = [[Felt::ZERO; 2]; 5];
    let mut u1 = [0u64; 5];
    let mut u2 = [0u64; 5];
    let mut k = 0;
    while k < 5 {
        m1[k] = [i.felt(), i.felt()];
        let a = i.felt();
        let b = i.felt();
        // second run: identical messages except at position DIFF
        m2[k] = if k == DIFF { [a, b] } else { m1[k] };
        u1[k] = m1[k][0].to_bytes_be()[31] as u64 | ((m1[k][1].to_bytes_be()[31] as u64) << 8);
        u2[k] = m2[k][0].to_bytes_be()[31] as u64 | ((m2[k][1].to_bytes_be()[31] as u64) << 8);
        k += 1;
    }
    // the message actually sent at DIFF must differ between the runs
    let op = (OPS >> (3 * DIFF as u32)) & 7;
    let differs = match op {
        1 => m1[DIFF][0] != m2[DIFF][0],
        2 => m1[DIFF][0] != m2[DIFF][0] || m1[DIFF][1] != m2[DIFF][1],
        3 => u1[DIFF] != u2[DIFF],
        _ => false,
    };
    crate::compat::assume(differs);
    let (mut c1, mut a1, mut c2, mut a2) = (Vec::new(), Vec::new(), Vec::new(), Vec::new());
    let (mut e1, mut e2) = (Vec::new(), Vec::new());
    run_ops::<OPS>(d, &m1, &u1, &mut c1, &mut a1, &mut e1);
    run_ops::<OPS>(d, &m2, &u2, &mut c2, &mut a2, &mut e2);
    let mut ok = check(c1.len() == c2.len(), "challenge count");
    let mut k = 0;
    while k < c1.len() && k < c2.len() {
        if a1[k] < DIFF {
            ok = ok.and(check(c1[k] == c2[k], "a challenge depends on a LATER message"));
        } else {
            ok = ok.and(check(c1[k] != c2[k], "a challenge does not change when an EARLIER message changes"));
        }
        // challenges drawn without an intervening message are pairwise different
        let mut j = 0;
        while j < k {
            if e1[j] == e1[k] {
                ok = ok.and(check(c1[j] != c1[k], "two challenges drawn without an intervening message coincide"));
            }
            j += 1;
        }
        k += 1;
    }
    Out::new(ok, c1.len() >= 1)
}
