//! C07 (E1 part) — last layer length / evaluation check of fri_verify on the degenerate
//! one-layer instance (no inner layers): real compiled code, no parser subset involved.
use super::{check, Out};
use crate::inp::Inp;
use alloc::vec::Vec;
use starknet_crypto::Felt;
use swiftness_fri::config::Config;
use swiftness_fri::fri::fri_verify;
use swiftness_fri::types::{Commitment, Decommitment, Witness};

pub const fn len(l: usize) -> usize {
    4 * l + 4 + 4 + 4 + 1
}
/// fri_verify with n_layers = 1, one query: Ok => last_layer_coefficients.len() == 2^bound
pub fn last_len<const L: usize>(i: &mut Inp) -> Out {
    crate::compat::cheap_mul();
    let mut coefs = Vec::with_capacity(L);
    let mut k = 0;
    while k < L {
        coefs.push(i.felt());
        k += 1;
    }
    let q = i.felt();
    let _v = i.felt();
    let x = i.felt();
    let b = i.range_u8(0, 3) as u64;
    crate::compat::assume(x != Felt::ZERO);
    // the honest value of the last-layer polynomial at the query point, computed with the same
    // operations as the verifier (x -> x/3 -> inverse -> inverse; Horner from the top), so that
    // the evaluation check passes and only the LENGTH check decides (replays natively)
    let shifted = x * Felt::from_hex_unchecked("0x2AAAAAAAAAAAAB0555555555555555555555555555555555555555555555556");
    crate::compat::assume(shifted != Felt::ZERO);
    let x_inv = Felt::ONE.field_div(&starknet_core::types::NonZeroFelt::from_felt_unchecked(shifted));
    crate::compat::assume(x_inv != Felt::ZERO);
    let pt = Felt::ONE.field_div(&starknet_core::types::NonZeroFelt::from_felt_unchecked(x_inv));
    let mut v = Felt::from(0);
    let mut k = L;
    while k > 0 {
        k -= 1;
        v = v * pt + coefs[k];
    }
    let mut steps = Vec::with_capacity(1);
    steps.push(Felt::ZERO);
    let commitment = Commitment {
        config: Config {
            log_input_size: Felt::from(b),
            n_layers: Felt::ONE,
            inner_layers: Vec::new(),
            fri_step_sizes: steps,
            log_last_layer_degree_bound: Felt::from(b),
        },
        inner_layers: Vec::new(),
        eval_points: Vec::new(),
        last_layer_coefficients: coefs,
    };
    let mut values = Vec::with_capacity(1);
    values.push(v);
    let mut points = Vec::with_capacity(1);
    points.push(x);
    let mut qs = Vec::with_capacity(1);
    qs.push(q);
    let r = fri_verify(&qs, commitment, Decommitment { values, points }, Witness { layers: Vec::new() });
    Out::new(
        check(!(r.is_ok() && (L as u64) != (1u64 << b)), "fri_verify accepted a last layer whose length is not 2^bound"),
        r.is_ok(),
    )
}

/// fri_verify with n_layers = 1, one query, exactly 2^b coefficients: a query VALUE different
/// from the last-layer polynomial's value at the query point is rejected.
pub fn last_value<const L: usize>(i: &mut Inp) -> Out {
    let mut coefs = Vec::with_capacity(L);
    let mut k = 0;
    while k < L {
        coefs.push(i.felt());
        k += 1;
    }
    let q = i.felt();
    let v = i.felt();
    let x = i.felt();
    let _b = i.u64();
    let b = (L as u64).trailing_zeros() as u64;
    crate::compat::assume(x != Felt::ZERO);
    let shifted = x * Felt::from_hex_unchecked("0x2AAAAAAAAAAAAB0555555555555555555555555555555555555555555555556");
    crate::compat::assume(shifted != Felt::ZERO);
    let x_inv = Felt::ONE.field_div(&starknet_core::types::NonZeroFelt::from_felt_unchecked(shifted));
    crate::compat::assume(x_inv != Felt::ZERO);
    let pt = Felt::ONE.field_div(&starknet_core::types::NonZeroFelt::from_felt_unchecked(x_inv));
    let mut honest = Felt::from(0);
    let mut k = L;
    while k > 0 {
        k -= 1;
        honest = honest * pt + coefs[k];
    }
    crate::compat::assume(v != honest);
    let mut steps = Vec::with_capacity(1);
    steps.push(Felt::ZERO);
    let commitment = Commitment {
        config: Config {
            log_input_size: Felt::from(b),
            n_layers: Felt::ONE,
            inner_layers: Vec::new(),
            fri_step_sizes: steps,
            log_last_layer_degree_bound: Felt::from(b),
        },
        inner_layers: Vec::new(),
        eval_points: Vec::new(),
        last_layer_coefficients: coefs,
    };
    let mut values = Vec::with_capacity(1);
    values.push(v);
    let mut points = Vec::with_capacity(1);
    points.push(x);
    let mut qs = Vec::with_capacity(1);
    qs.push(q);
    let r = fri_verify(&qs, commitment, Decommitment { values, points }, Witness { layers: Vec::new() });
    Out::new(check(r.is_err(), "fri_verify accepted a query value that differs from the last-layer polynomial"), true)
}
