//! Scenarios: one function per obligation, `fn(&mut Inp) -> Out`.
use crate::inp::Inp;

pub struct Out {
    /// Err(reason) = the property is violated on this input
    pub ok: Result<(), &'static str>,
    /// vacuity witness: the interesting path was taken (must be coverable)
    pub witness: bool,
}
impl Out {
    pub fn new(ok: Result<(), &'static str>, witness: bool) -> Self {
        Out { ok, witness }
    }
}
pub fn check(c: bool, why: &'static str) -> Result<(), &'static str> {
    if c {
        Ok(())
    } else {
        Err(why)
    }
}

pub mod merkle;
pub mod c04;
pub mod c05;
pub mod c06;
pub mod c07;
pub mod c08;
pub mod c09;
pub mod c10;
pub mod c11;
pub mod c12;
pub mod c13;
pub mod c15;
#[cfg(feature = "recursive")]
pub mod c14;
