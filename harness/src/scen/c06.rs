//! C06 (E1 part) — coset gathering of compute_next_layer on concrete query geometries
//! (compiled real code: no parser subset).
use super::{check, Out};
use crate::inp::Inp;
use alloc::vec::Vec;
use starknet_crypto::Felt;
use swiftness_fri::group::get_fri_group;
use swiftness_fri::layer::{compute_next_layer, FriLayerComputationParams, FriLayerQuery};

pub const LEN: usize = 4 * (2 * 2 + 6 + 1);
/// Coset size 4, two queries at indices Q0 < Q1 (concrete per instance), values, x_inv,
/// sibling leaves and evaluation point symbolic: the call succeeds, the verify indices are the
/// coset indices, the gathered rows are the queried values at their offsets with the sibling
/// leaves consumed left to right elsewhere, and every sibling leaf is consumed.
pub fn next_layer<const Q0: u64, const Q1: u64>(i: &mut Inp) -> Out {
    crate::compat::cheap_mul();
    let y0 = i.felt();
    let x0 = i.felt();
    let y1 = i.felt();
    let x1 = i.felt();
    let mut w = Vec::with_capacity(6);
    let mut k = 0;
    while k < 6 {
        w.push(i.felt());
        k += 1;
    }
    let e = i.felt();
    let same_coset = Q0 / 4 == Q1 / 4;
    let needed = if same_coset { 2 } else { 6 };
    let mut leaves: Vec<Felt> = Vec::with_capacity(needed);
    let mut k = 0;
    while k < needed {
        leaves.push(w[k]);
        k += 1;
    }
    // expected rows
    let mut rows: Vec<Felt> = Vec::with_capacity(8);
    let mut wi = 0;
    let cosets: [u64; 2] = [Q0 / 4, Q1 / 4];
    let n_cosets = if same_coset { 1 } else { 2 };
    let mut c = 0;
    while c < n_cosets {
        let mut off = 0;
        while off < 4 {
            let idx = cosets[c] * 4 + off;
            if idx == Q0 {
                rows.push(y0);
            } else if idx == Q1 {
                rows.push(y1);
            } else {
                rows.push(w[wi]);
                wi += 1;
            }
            off += 1;
        }
        c += 1;
    }
    let mut queries = Vec::with_capacity(2);
    queries.push(FriLayerQuery { index: Felt::from(Q0), y_value: y0, x_inv_value: x0 });
    queries.push(FriLayerQuery { index: Felt::from(Q1), y_value: y1, x_inv_value: x1 });
    let params = FriLayerComputationParams { coset_size: Felt::from(4u64), fri_group: get_fri_group(), eval_point: e };
    let r = compute_next_layer(&mut queries, &mut leaves, params);
    let ok = match r {
        Err(_) => Err("compute_next_layer failed on a well-formed layer"),
        Ok((next, idxs, ys)) => check(next.len() == n_cosets && idxs.len() == n_cosets, "one next-layer query per coset")
            .and(check(idxs[0] == Felt::from(cosets[0]) && (same_coset || idxs[1] == Felt::from(cosets[1])), "verify index != floor(index / coset size)"))
            .and(check(next[0].index == Felt::from(cosets[0]) && (same_coset || next[1].index == Felt::from(cosets[1])), "next query index"))
            .and(check(ys.len() == rows.len(), "gathered row length"))
            .and({
                let mut good = ys.len() == rows.len();
                let mut k = 0;
                while good && k < rows.len() {
                    good = ys[k] == rows[k];
                    k += 1;
                }
                check(good, "gathered coset rows are not (queried values at their offsets, sibling leaves elsewhere)")
            })
            .and(check(leaves.is_empty() && queries.is_empty(), "sibling leaves / queries not exactly consumed")),
    };
    Out::new(ok, true)
}
