//! Kani proof harnesses: one per scenario; all symbolic input is one byte array.
use crate::inp::Inp;
use crate::scen;

macro_rules! proof {
    ($name:ident, $len:expr, $f:path, $unwind:expr) => {
        #[kani::proof]
        #[kani::unwind($unwind)]
        fn $name() {
            let raw: [u64; $len] = kani::any();
            let mut i = Inp::new(&raw);
            let out = $f(&mut i);
            kani::cover!(out.witness, "witness");
            assert!(out.ok.is_ok(), "PROPERTY");
        }
    };
}

proof!(c09_pow_iff, scen::c09::IFF_LEN, scen::c09::pow_iff, 70);
proof!(c09_pow_config, scen::c09::CFG_LEN, scen::c09::pow_config, 4);
proof!(c09_pow_commit, scen::c09::COMMIT_LEN, scen::c09::pow_commit, 70);

proof!(c11_exact_3_2, scen::c11::len(3, 2), scen::c11::exact::<3, 2>, 17);
proof!(c11_exact_2_1, scen::c11::len(2, 1), scen::c11::exact::<2, 1>, 17);
proof!(c11_exact_4_3, scen::c11::len(4, 3), scen::c11::exact::<4, 3>, 17);
proof!(c11_exact_5_4, scen::c11::len(5, 4), scen::c11::exact::<5, 4>, 17);
proof!(c11_exact_0_0, scen::c11::len(0, 0), scen::c11::exact::<0, 0>, 17);
proof!(c11_exact_3_1, scen::c11::len(3, 1), scen::c11::exact::<3, 1>, 17);
proof!(c11_exact_2_2, scen::c11::len(2, 2), scen::c11::exact::<2, 2>, 17);
proof!(c10_generate_0, scen::c10::GEN_LEN, scen::c10::generate::<0, 64>, 40);
proof!(c10_generate_1, scen::c10::GEN_LEN, scen::c10::generate::<1, 64>, 40);
proof!(c10_generate_2, scen::c10::GEN_LEN, scen::c10::generate::<2, 64>, 40);
proof!(c10_generate_3, scen::c10::GEN_LEN, scen::c10::generate::<3, 64>, 40);
proof!(c10_generate_4, scen::c10::GEN_LEN, scen::c10::generate::<4, 64>, 40);
proof!(c10_generate_5, scen::c10::GEN_LEN, scen::c10::generate::<5, 64>, 40);
proof!(c10_points, scen::c10::PTS_LEN, scen::c10::points, 66);
proof!(c08_step_laws_0, scen::c08::STEP_LEN, scen::c08::step_laws::<0>, 40);
proof!(c08_step_laws_1, scen::c08::STEP_LEN, scen::c08::step_laws::<1>, 40);
proof!(c08_step_laws_2, scen::c08::STEP_LEN, scen::c08::step_laws::<2>, 40);
proof!(c08_step_laws_3, scen::c08::STEP_LEN, scen::c08::step_laws::<3>, 40);
proof!(c08_n_squeezes_0, scen::c08::NSQ_LEN, scen::c08::n_squeezes::<0>, 40);
proof!(c08_n_squeezes_1, scen::c08::NSQ_LEN, scen::c08::n_squeezes::<1>, 40);
proof!(c08_n_squeezes_2, scen::c08::NSQ_LEN, scen::c08::n_squeezes::<2>, 40);
proof!(c08_n_squeezes_3, scen::c08::NSQ_LEN, scen::c08::n_squeezes::<3>, 40);
proof!(c08_hist_ass_0, scen::c08::HIST_LEN, scen::c08::history::<289, 0>, 40);
proof!(c08_hist_sas_1, scen::c08::HIST_LEN, scen::c08::history::<268, 1>, 40);
proof!(c08_hist_aass_1, scen::c08::HIST_LEN, scen::c08::history::<2313, 1>, 40);
proof!(c08_hist_vsas_0, scen::c08::HIST_LEN, scen::c08::history::<2146, 0>, 40);
proof!(c08_hist_uss_0, scen::c08::HIST_LEN, scen::c08::history::<291, 0>, 40);
proof!(c08_hist_svss_1, scen::c08::HIST_LEN, scen::c08::history::<2324, 1>, 40);
proof!(c08_hist_avus_2, scen::c08::HIST_LEN, scen::c08::history::<2257, 2>, 40);
proof!(c08_hist_asas_2, scen::c08::HIST_LEN, scen::c08::history::<2145, 2>, 40);
proof!(c08_hist_ssuss_2, scen::c08::HIST_LEN, scen::c08::history::<18660, 2>, 40);
proof!(c08_hist_vvss_0, scen::c08::HIST_LEN, scen::c08::history::<2322, 0>, 40);
proof!(c04_bind_h1_k1, scen::c04::len(1, 1), scen::c04::bind::<1, 1, 4>, 5);
proof!(c04_complete_h1_k1, scen::c04::len(1, 1), scen::c04::complete::<1, 1, 4, 1, false>, 5);
proof!(c04_wrongroot_h1_k1, scen::c04::len(1, 1), scen::c04::complete::<1, 1, 4, 1, true>, 5);
proof!(c04_bind_h2_k1, scen::c04::len(2, 1), scen::c04::bind::<2, 1, 8>, 6);
proof!(c04_complete_h2_k1, scen::c04::len(2, 1), scen::c04::complete::<2, 1, 8, 2, false>, 6);
proof!(c04_wrongroot_h2_k1, scen::c04::len(2, 1), scen::c04::complete::<2, 1, 8, 2, true>, 6);
proof!(c04_bind_h2_k2, scen::c04::len(2, 2), scen::c04::bind::<2, 2, 8>, 8);
proof!(c04_complete_h2_k2, scen::c04::len(2, 2), scen::c04::complete::<2, 2, 8, 4, false>, 8);
proof!(c04_wrongroot_h2_k2, scen::c04::len(2, 2), scen::c04::complete::<2, 2, 8, 4, true>, 8);
proof!(c04_bind_h3_k1, scen::c04::len(3, 1), scen::c04::bind::<3, 1, 16>, 7);
proof!(c04_complete_h3_k1, scen::c04::len(3, 1), scen::c04::complete::<3, 1, 16, 3, false>, 7);
proof!(c04_wrongroot_h3_k1, scen::c04::len(3, 1), scen::c04::complete::<3, 1, 16, 3, true>, 7);
proof!(c04_bind_h3_k2, scen::c04::len(3, 2), scen::c04::bind::<3, 2, 16>, 10);
proof!(c04_complete_h3_k2, scen::c04::len(3, 2), scen::c04::complete::<3, 2, 16, 6, false>, 10);
proof!(c04_wrongroot_h3_k2, scen::c04::len(3, 2), scen::c04::complete::<3, 2, 16, 6, true>, 10);
proof!(c04_bind_h3_k3, scen::c04::len(3, 3), scen::c04::bind::<3, 3, 16>, 13);
proof!(c04_complete_h3_k3, scen::c04::len(3, 3), scen::c04::complete::<3, 3, 16, 9, false>, 13);
proof!(c04_wrongroot_h3_k3, scen::c04::len(3, 3), scen::c04::complete::<3, 3, 16, 9, true>, 13);
proof!(c04_corrupt_h1, scen::c04::len(1, 1), scen::c04::corrupt_auth::<1, 4, 1>, 5);
proof!(c04_corrupt_h2, scen::c04::len(2, 1), scen::c04::corrupt_auth::<2, 8, 2>, 6);
proof!(c04_corrupt_h3, scen::c04::len(3, 1), scen::c04::corrupt_auth::<3, 16, 3>, 7);
proof!(c05_length_0, scen::c05::LEN_LEN, scen::c05::length::<0>, 8);
proof!(c05_length_1, scen::c05::LEN_LEN, scen::c05::length::<1>, 8);
proof!(c05_length_2, scen::c05::LEN_LEN, scen::c05::length::<2>, 8);
proof!(c05_length_3, scen::c05::LEN_LEN, scen::c05::length::<3>, 8);
proof!(c05_row_1_f0, scen::c05::row_len(1), scen::c05::row::<1, 0>, 35);
proof!(c05_row_1_f1, scen::c05::row_len(1), scen::c05::row::<1, 1>, 8);
proof!(c05_row_2_f0, scen::c05::row_len(2), scen::c05::row::<2, 0>, 67);
proof!(c05_row_2_f1, scen::c05::row_len(2), scen::c05::row::<2, 1>, 8);
proof!(c05_row_3_f0, scen::c05::row_len(3), scen::c05::row::<3, 0>, 99);
proof!(c05_row_3_f1, scen::c05::row_len(3), scen::c05::row::<3, 1>, 8);
proof!(c05_row_4_f0, scen::c05::row_len(4), scen::c05::row::<4, 0>, 131);
proof!(c05_row_4_f1, scen::c05::row_len(4), scen::c05::row::<4, 1>, 8);
proof!(c05_delegate_f0, scen::c05::DELEG_LEN, scen::c05::delegate::<0>, 67);
proof!(c05_delegate_f1, scen::c05::DELEG_LEN, scen::c05::delegate::<1>, 67);
proof!(c05_delegate_f2, scen::c05::DELEG_LEN, scen::c05::delegate::<2>, 8);
proof!(c13_same_s1_m1_h0, 2 * scen::c13::len(1, 1, 0), scen::c13::same_shape::<1, 1, 0>, 10);
proof!(c13_same_s2_m1_h1, 2 * scen::c13::len(2, 1, 1), scen::c13::same_shape::<2, 1, 1>, 10);
proof!(c13_same_s2_m2_h0, 2 * scen::c13::len(2, 2, 0), scen::c13::same_shape::<2, 2, 0>, 10);
proof!(c13_same_s2_m0_h0, 2 * scen::c13::len(2, 0, 0), scen::c13::same_shape::<2, 0, 0>, 10);
proof!(c13_same_s6_m2_h1, 2 * scen::c13::len(6, 2, 1), scen::c13::same_shape::<6, 2, 1>, 10);
proof!(c13_diff_s1_m01_h00, scen::c13::len(1, 0, 0) + scen::c13::len(1, 1, 0), scen::c13::diff_shape::<1, 0, 1, 0, 0>, 10);
proof!(c13_diff_s1_m12_h00, scen::c13::len(1, 1, 0) + scen::c13::len(1, 2, 0), scen::c13::diff_shape::<1, 1, 2, 0, 0>, 10);
proof!(c13_diff_s1_m11_h01, scen::c13::len(1, 1, 0) + scen::c13::len(1, 1, 1), scen::c13::diff_shape::<1, 1, 1, 0, 1>, 10);
proof!(c13_diff_s1_m21_h10, scen::c13::len(1, 2, 1) + scen::c13::len(1, 1, 0), scen::c13::diff_shape::<1, 2, 1, 1, 0>, 10);
proof!(c14_validate, scen::c14::VAL_LEN, scen::c14::validate, 10);
proof!(c14_verify_2, scen::c14::ver_len(2), scen::c14::verify::<2>, 6);
proof!(c14_verify_4, scen::c14::ver_len(4), scen::c14::verify::<4>, 8);
proof!(c14_verify_6, scen::c14::ver_len(6), scen::c14::verify::<6>, 10);
proof!(c10_generate_3_small, scen::c10::GEN_LEN, scen::c10::generate::<3, 3>, 8);
proof!(c07_last_len_0, scen::c07::len(0), scen::c07::last_len::<0>, 10);
proof!(c07_last_len_1, scen::c07::len(1), scen::c07::last_len::<1>, 10);
proof!(c07_last_len_2, scen::c07::len(2), scen::c07::last_len::<2>, 10);
proof!(c07_last_len_3, scen::c07::len(3), scen::c07::last_len::<3>, 10);
proof!(c07_last_len_4, scen::c07::len(4), scen::c07::last_len::<4>, 10);
proof!(c07_last_len_5, scen::c07::len(5), scen::c07::last_len::<5>, 10);
proof!(c15_memprod_1_1, scen::c15::len(1, 1), scen::c15::memory_product::<1, 1>, 8);
proof!(c15_memprod_2_2, scen::c15::len(2, 2), scen::c15::memory_product::<2, 2>, 8);
proof!(c15_memprod_0_1, scen::c15::len(0, 1), scen::c15::memory_product::<0, 1>, 8);
proof!(c15_memprod_2_0, scen::c15::len(2, 0), scen::c15::memory_product::<2, 0>, 8);
