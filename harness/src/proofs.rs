//! Kani proof harnesses: one per scenario; all symbolic input is one byte array.
use crate::inp::Inp;
use crate::scen;

macro_rules! proof {
    ($name:ident, $len:expr, $f:path, $unwind:expr) => {
        #[kani::proof]
        #[kani::unwind($unwind)]
        fn $name() {
            let raw: [u64; $len] = kani::any();
            let mut i = Inp::new(&raw);
            let out = $f(&mut i);
            kani::cover!(out.witness, "witness");
            assert!(out.ok.is_ok(), "PROPERTY");
        }
    };
}

proof!(c09_pow_iff, scen::c09::IFF_LEN, scen::c09::pow_iff, 70);
proof!(c09_pow_config, scen::c09::CFG_LEN, scen::c09::pow_config, 4);
proof!(c09_pow_commit, scen::c09::COMMIT_LEN, scen::c09::pow_commit, 70);

proof!(c11_exact_3_2, scen::c11::len(3, 2), scen::c11::exact::<3, 2>, 17);
proof!(c11_exact_2_1, scen::c11::len(2, 1), scen::c11::exact::<2, 1>, 17);
proof!(c11_exact_4_3, scen::c11::len(4, 3), scen::c11::exact::<4, 3>, 17);
proof!(c11_exact_5_4, scen::c11::len(5, 4), scen::c11::exact::<5, 4>, 17);
proof!(c11_exact_0_0, scen::c11::len(0, 0), scen::c11::exact::<0, 0>, 17);
proof!(c11_exact_3_1, scen::c11::len(3, 1), scen::c11::exact::<3, 1>, 17);
proof!(c11_exact_2_2, scen::c11::len(2, 2), scen::c11::exact::<2, 2>, 17);
proof!(c10_generate_0, scen::c10::GEN_LEN, scen::c10::generate::<0>, 40);
proof!(c10_generate_1, scen::c10::GEN_LEN, scen::c10::generate::<1>, 40);
proof!(c10_generate_2, scen::c10::GEN_LEN, scen::c10::generate::<2>, 40);
proof!(c10_generate_3, scen::c10::GEN_LEN, scen::c10::generate::<3>, 40);
proof!(c10_generate_4, scen::c10::GEN_LEN, scen::c10::generate::<4>, 40);
proof!(c10_generate_5, scen::c10::GEN_LEN, scen::c10::generate::<5>, 40);
proof!(c10_points, scen::c10::PTS_LEN, scen::c10::points, 66);
proof!(c08_step_laws_0, scen::c08::STEP_LEN, scen::c08::step_laws::<0>, 40);
proof!(c08_step_laws_1, scen::c08::STEP_LEN, scen::c08::step_laws::<1>, 40);
proof!(c08_step_laws_2, scen::c08::STEP_LEN, scen::c08::step_laws::<2>, 40);
proof!(c08_step_laws_3, scen::c08::STEP_LEN, scen::c08::step_laws::<3>, 40);
proof!(c08_n_squeezes_0, scen::c08::NSQ_LEN, scen::c08::n_squeezes::<0>, 40);
proof!(c08_n_squeezes_1, scen::c08::NSQ_LEN, scen::c08::n_squeezes::<1>, 40);
proof!(c08_n_squeezes_2, scen::c08::NSQ_LEN, scen::c08::n_squeezes::<2>, 40);
proof!(c08_n_squeezes_3, scen::c08::NSQ_LEN, scen::c08::n_squeezes::<3>, 40);
proof!(c08_hist_ass_0, scen::c08::HIST_LEN, scen::c08::history::<289, 0>, 40);
proof!(c08_hist_sas_1, scen::c08::HIST_LEN, scen::c08::history::<268, 1>, 40);
proof!(c08_hist_aass_1, scen::c08::HIST_LEN, scen::c08::history::<2313, 1>, 40);
proof!(c08_hist_vsas_0, scen::c08::HIST_LEN, scen::c08::history::<2146, 0>, 40);
proof!(c08_hist_uss_0, scen::c08::HIST_LEN, scen::c08::history::<291, 0>, 40);
proof!(c08_hist_svss_1, scen::c08::HIST_LEN, scen::c08::history::<2324, 1>, 40);
proof!(c08_hist_avus_2, scen::c08::HIST_LEN, scen::c08::history::<2257, 2>, 40);
proof!(c08_hist_asas_2, scen::c08::HIST_LEN, scen::c08::history::<2145, 2>, 40);
proof!(c08_hist_ssuss_2, scen::c08::HIST_LEN, scen::c08::history::<18660, 2>, 40);
proof!(c08_hist_vvss_0, scen::c08::HIST_LEN, scen::c08::history::<2322, 0>, 40);
