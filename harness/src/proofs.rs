//! Kani proof harnesses: one per scenario; all symbolic input is one byte array.
use crate::inp::Inp;
use crate::scen;

macro_rules! proof {
    ($name:ident, $len:expr, $f:path, $unwind:expr) => {
        #[kani::proof]
        #[kani::unwind($unwind)]
        fn $name() {
            let raw: [u64; $len] = kani::any();
            let mut i = Inp::new(&raw);
            let out = $f(&mut i);
            kani::cover!(out.witness, "witness");
            assert!(out.ok.is_ok(), "PROPERTY");
        }
    };
}

proof!(c09_pow_iff, scen::c09::IFF_LEN, scen::c09::pow_iff, 70);
proof!(c09_pow_config, scen::c09::CFG_LEN, scen::c09::pow_config, 4);
proof!(c09_pow_commit, scen::c09::COMMIT_LEN, scen::c09::pow_commit, 70);

proof!(c11_exact_3_2, scen::c11::len(3, 2), scen::c11::exact::<3, 2>, 17);
proof!(c11_exact_2_1, scen::c11::len(2, 1), scen::c11::exact::<2, 1>, 17);
proof!(c11_exact_4_3, scen::c11::len(4, 3), scen::c11::exact::<4, 3>, 17);
proof!(c11_exact_5_4, scen::c11::len(5, 4), scen::c11::exact::<5, 4>, 17);
proof!(c11_exact_0_0, scen::c11::len(0, 0), scen::c11::exact::<0, 0>, 17);
proof!(c11_exact_3_1, scen::c11::len(3, 1), scen::c11::exact::<3, 1>, 17);
proof!(c11_exact_2_2, scen::c11::len(2, 2), scen::c11::exact::<2, 2>, 17);
proof!(dbg_build, scen::c11::len(3, 2), scen::c11::dbg_build, 17);
proof!(dbg_oracle, scen::c11::len(3, 2), scen::c11::dbg_oracle, 17);
proof!(dbg_validate, scen::c11::len(3, 2), scen::c11::dbg_validate, 17);
proof!(dbg_fri, scen::c11::len(3, 2), scen::c11::dbg_fri, 17);
