//! Kani proof harnesses: one per scenario; all symbolic input is one byte array.
use crate::inp::Inp;
use crate::scen;

macro_rules! proof {
    ($name:ident, $len:expr, $f:path, $unwind:expr) => {
        #[kani::proof]
        #[kani::unwind($unwind)]
        fn $name() {
            let raw: [u8; $len] = kani::any();
            let mut i = Inp::new(&raw);
            let out = $f(&mut i);
            kani::cover!(out.witness, "witness");
            assert!(out.ok.is_ok(), "PROPERTY");
        }
    };
}

proof!(c09_pow_iff, scen::c09::IFF_LEN, scen::c09::pow_iff, 70);
proof!(c09_pow_config, scen::c09::CFG_LEN, scen::c09::pow_config, 4);
proof!(c09_pow_commit, scen::c09::COMMIT_LEN, scen::c09::pow_commit, 70);
