//! Structural requests (engine E2, felt-sx): the REAL structs are built from JSON with their own serde impls
//! and the REAL functions are called.  Ok(Ok(v)) / Ok(Err(debug string)) / Err(bad request).
use crate::toy;
use serde_json::{json, Value};
use starknet_crypto::Felt;
use swiftness_air::domains::StarkDomains;
use swiftness_air::layout::LayoutTrait;
use swiftness_air::public_memory::PublicInput;
use swiftness_transcript::transcript::Transcript;

type R<T> = Result<T, String>;
pub type Out = R<Result<Value, String>>;

fn felt(v: &Value) -> R<Felt> {
    let s = v.as_str().ok_or_else(|| format!("expected hex string, got {v}"))?;
    Felt::from_hex(s).map_err(|e| format!("bad felt {s}: {e:?}"))
}
fn felts(v: &Value) -> R<Vec<Felt>> {
    v.as_array().ok_or_else(|| format!("expected array, got {v}"))?.iter().map(felt).collect()
}
fn get<'a>(req: &'a Value, k: &str) -> R<&'a Value> {
    req.get(k).ok_or_else(|| format!("missing key {k}"))
}
fn hex(f: &Felt) -> Value {
    Value::String(format!("{:#x}", f))
}
fn hexes(v: &[Felt]) -> Value {
    Value::Array(v.iter().map(hex).collect())
}
fn de<T: serde::de::DeserializeOwned>(req: &Value, k: &str) -> R<T> {
    serde_json::from_value(get(req, k)?.clone()).map_err(|e| format!("{k}: {e}"))
}
fn usz(req: &Value, k: &str) -> R<usize> {
    get(req, k)?.as_u64().map(|x| x as usize).ok_or_else(|| format!("{k} must be a number"))
}
fn dbg<E: std::fmt::Debug>(e: E) -> String {
    format!("{e:?}")
}
fn bytes_of_hex(s: &str) -> R<Vec<u8>> {
    let s = s.trim_start_matches("0x");
    if s.len() % 2 != 0 {
        return Err("odd hex length".into());
    }
    (0..s.len()).step_by(2).map(|i| u8::from_str_radix(&s[i..i + 2], 16).map_err(|e| format!("{e}"))).collect()
}
fn hex_of_bytes(b: &[u8]) -> String {
    b.iter().map(|x| format!("{:02x}", x)).collect()
}

fn transcript(req: &Value) -> R<Transcript> {
    let t = get(req, "transcript")?;
    Ok(Transcript::new_with_counter(felt(get(t, "digest")?)?, felt(get(t, "counter")?)?))
}
fn transcript_json(t: &Transcript) -> Value {
    json!({"digest": hex(t.digest()), "counter": hex(t.counter())})
}
fn domains(req: &Value) -> R<StarkDomains> {
    let d = get(req, "stark_domains")?;
    Ok(StarkDomains {
        log_eval_domain_size: felt(get(d, "log_eval_domain_size")?)?,
        eval_domain_size: felt(get(d, "eval_domain_size")?)?,
        eval_generator: felt(get(d, "eval_generator")?)?,
        log_trace_domain_size: felt(get(d, "log_trace_domain_size")?)?,
        trace_domain_size: felt(get(d, "trace_domain_size")?)?,
        trace_generator: felt(get(d, "trace_generator")?)?,
    })
}

fn load_script(req: &Value) -> R<()> {
    toy::SCRIPT.with(|s| -> R<()> {
        let mut s = s.borrow_mut();
        *s = toy::Script::default();
        if let Some(t) = req.get("toy") {
            if let Some(c) = t.get("composition") {
                s.composition = Some(felt(c)?);
            }
            if let Some(c) = t.get("composition_err") {
                s.composition_err = c.as_bool().unwrap_or(false);
            }
            if let Some(c) = t.get("oods_poly") {
                s.oods_poly = felts(c)?;
            }
        }
        Ok(())
    })
}
fn take_log() -> Value {
    toy::SCRIPT.with(|s| Value::Array(std::mem::take(&mut s.borrow_mut().log)))
}

#[allow(unused_macros)]
macro_rules! real_layout {
    ($name:ident, $req:expr, $func:expr) => {{
        use swiftness_air::layout::$name::Layout as L;
        match $func {
            "validate_public_input" => {
                let pi: PublicInput = de($req, "public_input")?;
                let d = domains($req)?;
                Ok(L::validate_public_input(&pi, &d).map(|_| Value::Null).map_err(dbg))
            }
            "verify_public_input" => {
                let pi: PublicInput = de($req, "public_input")?;
                Ok(L::verify_public_input(&pi).map(|(a, b)| json!([hex(&a), hex(&b)])).map_err(dbg))
            }
            "traces_commit" => {
                let mut t = transcript($req)?;
                let u: swiftness_air::trace::UnsentCommitment = de($req, "unsent_commitment")?;
                let c: swiftness_air::trace::config::Config = de($req, "config")?;
                let r = L::traces_commit(&mut t, &u, c);
                Ok(Ok(json!({"commitment": serde_json::to_value(&r).map_err(dbg)?, "transcript": transcript_json(&t)})))
            }
            "eval_composition_polynomial" => {
                let ie: <L as LayoutTrait>::InteractionElements = de($req, "interaction_elements")?;
                let pi: PublicInput = de($req, "public_input")?;
                let r = L::eval_composition_polynomial(
                    &ie, &pi, &felts(get($req, "mask_values")?)?, &felts(get($req, "constraint_coefficients")?)?,
                    &felt(get($req, "point")?)?, &felt(get($req, "trace_domain_size")?)?, &felt(get($req, "trace_generator")?)?);
                Ok(r.map(|f| hex(&f)).map_err(dbg))
            }
            "eval_oods_polynomial" => {
                let pi: PublicInput = de($req, "public_input")?;
                let r = L::eval_oods_polynomial(
                    &pi, &felts(get($req, "column_values")?)?, &felts(get($req, "oods_values")?)?, &felts(get($req, "constraint_coefficients")?)?,
                    &felt(get($req, "point")?)?, &felt(get($req, "oods_point")?)?, &felt(get($req, "trace_generator")?)?);
                Ok(r.map(|f| hex(&f)).map_err(dbg))
            }
            f => Err(format!("unknown layout function {f}")),
        }
    }};
}

fn layout_fn(req: &Value, func: &str) -> Out {
    let layout = get(req, "layout")?.as_str().ok_or("layout must be a string")?;
    match layout {
        #[cfg(feature = "dex")]
        "dex" => real_layout!(dex, req, func),
        #[cfg(feature = "recursive")]
        "recursive" => real_layout!(recursive, req, func),
        #[cfg(feature = "recursive_with_poseidon")]
        "recursive_with_poseidon" => real_layout!(recursive_with_poseidon, req, func),
        #[cfg(feature = "small")]
        "small" => real_layout!(small, req, func),
        #[cfg(feature = "starknet")]
        "starknet" => real_layout!(starknet, req, func),
        #[cfg(feature = "starknet_with_keccak")]
        "starknet_with_keccak" => real_layout!(starknet_with_keccak, req, func),
        #[cfg(feature = "dynamic")]
        "dynamic" => real_layout!(dynamic, req, func),
        other => Err(format!("layout {other} not compiled into this replay binary")),
    }
}

fn fri_queries(v: &Value) -> R<Vec<swiftness_fri::layer::FriLayerQuery>> {
    let mut out = Vec::new();
    for q in v.as_array().ok_or("queries must be an array")? {
        out.push(swiftness_fri::layer::FriLayerQuery {
            index: felt(get(q, "index")?)?,
            y_value: felt(get(q, "y_value")?)?,
            x_inv_value: felt(get(q, "x_inv_value")?)?,
        });
    }
    Ok(out)
}
fn fri_queries_json(v: &[swiftness_fri::layer::FriLayerQuery]) -> Value {
    Value::Array(v.iter().map(|q| json!({"index": hex(&q.index), "y_value": hex(&q.y_value), "x_inv_value": hex(&q.x_inv_value)})).collect())
}

pub fn dispatch(req: &Value, func: &str) -> Option<Out> {
    Some(match func {
        // ---------------- hashes (oracle for the Python executor's concrete runs)
        "poseidon_hash" => (|| -> Out {
            Ok(Ok(hex(&starknet_crypto::poseidon_hash(felt(get(req, "a")?)?, felt(get(req, "b")?)?))))
        })(),
        "pedersen_hash" => (|| -> Out {
            Ok(Ok(hex(&starknet_crypto::pedersen_hash(&felt(get(req, "a")?)?, &felt(get(req, "b")?)?))))
        })(),
        "poseidon_hash_many" => (|| -> Out {
            let v = felts(get(req, "values")?)?;
            Ok(Ok(hex(&starknet_crypto::poseidon_hash_many(&v))))
        })(),
        "keccak256" => (|| -> Out {
            use sha3::{Digest, Keccak256};
            let b = bytes_of_hex(get(req, "bytes")?.as_str().ok_or("bytes must be a hex string")?)?;
            let mut h = Keccak256::new();
            h.update(&b);
            Ok(Ok(Value::String(hex_of_bytes(h.finalize().as_slice()))))
        })(),
        "blake2s256" => (|| -> Out {
            use blake2::{Blake2s256, Digest};
            let b = bytes_of_hex(get(req, "bytes")?.as_str().ok_or("bytes must be a hex string")?)?;
            let mut h = Blake2s256::new();
            h.update(&b);
            Ok(Ok(Value::String(hex_of_bytes(h.finalize().as_slice()))))
        })(),
        // ---------------- air
        "get_hash" => (|| -> Out {
            let pi: PublicInput = de(req, "public_input")?;
            Ok(Ok(hex(&pi.get_hash(felt(get(req, "n_verifier_friendly_commitment_layers")?)?))))
        })(),
        "dynamic_params_to_vec" => (|| -> Out {
            let dp: swiftness_air::dynamic::DynamicParams = de(req, "params")?;
            let v: Vec<usize> = dp.into();
            Ok(Ok(json!(v)))
        })(),
        "pub_mem_ratio" => (|| -> Out {
            let pi: PublicInput = de(req, "public_input")?;
            let r = pi.get_public_memory_product_ratio(felt(get(req, "z")?)?, felt(get(req, "alpha")?)?, felt(get(req, "column_size")?)?);
            Ok(crate::FeltOutcome::outcome(r).map(|f| hex(&f)))
        })(),
        "validate_public_input" | "verify_public_input" | "traces_commit" | "eval_composition_polynomial" | "eval_oods_polynomial" => layout_fn(req, func),
        "stark_domains_new" => (|| -> Out {
            let d = StarkDomains::new(felt(get(req, "log_trace_domain_size")?)?, felt(get(req, "log_n_cosets")?)?);
            Ok(Ok(json!({
                "log_eval_domain_size": hex(&d.log_eval_domain_size), "eval_domain_size": hex(&d.eval_domain_size),
                "eval_generator": hex(&d.eval_generator), "log_trace_domain_size": hex(&d.log_trace_domain_size),
                "trace_domain_size": hex(&d.trace_domain_size), "trace_generator": hex(&d.trace_generator)})))
        })(),
        // ---------------- configs
        "stark_config_validate" => (|| -> Out {
            let c: swiftness_stark::config::StarkConfig = de(req, "config")?;
            Ok(c.validate(felt(get(req, "security_bits")?)?, felt(get(req, "num_columns_first")?)?, felt(get(req, "num_columns_second")?)?)
                .map(|_| Value::Null).map_err(dbg))
        })(),
        "fri_config_validate" => (|| -> Out {
            let c: swiftness_fri::config::Config = de(req, "config")?;
            Ok(c.validate(felt(get(req, "log_n_cosets")?)?, felt(get(req, "n_verifier_friendly_commitment_layers")?)?)
                .map(|f| hex(&f)).map_err(dbg))
        })(),
        // ---------------- transcript / pow / queries
        "transcript_ops" => (|| -> Out {
            let mut t = transcript(req)?;
            let mut out = Vec::new();
            for op in get(req, "ops")?.as_array().ok_or("ops must be an array")? {
                let k = get(op, "op")?.as_str().ok_or("op")?;
                match k {
                    "squeeze" => out.push(hex(&t.random_felt_to_prover())),
                    "squeeze_n" => out.push(hexes(&t.random_felts_to_prover(felt(get(op, "n")?)?))),
                    "absorb" => { t.read_felt_from_prover(&felt(get(op, "v")?)?); out.push(Value::Null) }
                    "absorb_vec" => { t.read_felt_vector_from_prover(&felts(get(op, "v")?)?); out.push(Value::Null) }
                    "absorb_u64" => { t.read_uint64_from_prover(get(op, "v")?.as_u64().ok_or("u64")?); out.push(Value::Null) }
                    _ => return Err(format!("unknown transcript op {k}")),
                }
            }
            Ok(Ok(json!({"results": out, "transcript": transcript_json(&t)})))
        })(),
        "verify_pow" => (|| -> Out {
            let d = felt(get(req, "digest")?)?.to_bytes_be();
            let n = get(req, "n_bits")?.as_u64().ok_or("n_bits")? as u8;
            let nonce = get(req, "nonce")?.as_u64().ok_or("nonce")?;
            Ok(swiftness_pow::pow::verify_pow(d, n, nonce).map(|_| Value::Null).map_err(dbg))
        })(),
        "pow_commit" => (|| -> Out {
            let mut t = transcript(req)?;
            let u: swiftness_pow::pow::UnsentCommitment = de(req, "unsent_commitment")?;
            let c: swiftness_pow::config::Config = de(req, "config")?;
            Ok(u.commit(&mut t, &c).map(|_| json!({"transcript": transcript_json(&t)})).map_err(dbg))
        })(),
        "pow_config_validate" => (|| -> Out {
            let c: swiftness_pow::config::Config = de(req, "config")?;
            Ok(c.validate().map(|_| Value::Null).map_err(dbg))
        })(),
        "generate_queries" => (|| -> Out {
            let mut t = transcript(req)?;
            let q = swiftness_stark::queries::generate_queries(&mut t, felt(get(req, "n_samples")?)?, felt(get(req, "query_upper_bound")?)?);
            Ok(Ok(json!({"queries": hexes(&q), "transcript": transcript_json(&t)})))
        })(),
        "queries_to_points" => (|| -> Out {
            let d = domains(req)?;
            Ok(Ok(hexes(&swiftness_stark::queries::queries_to_points(&felts(get(req, "queries")?)?, &d))))
        })(),
        // ---------------- commitment
        "table_decommit" => (|| -> Out {
            use swiftness_commitment::table::types::{Commitment, Decommitment, Witness};
            let c: Commitment = de(req, "commitment")?;
            let d: Decommitment = de(req, "decommitment")?;
            let w: Witness = de(req, "witness")?;
            Ok(swiftness_commitment::table::decommit::table_decommit(c, &felts(get(req, "queries")?)?, d, w).map(|_| Value::Null).map_err(dbg))
        })(),
        "vector_commitment_decommit" => (|| -> Out {
            use swiftness_commitment::vector::types::{Commitment, Query, Witness};
            let c: Commitment = de(req, "commitment")?;
            let q: Vec<Query> = de(req, "queries")?;
            let w: Witness = de(req, "witness")?;
            Ok(swiftness_commitment::vector::decommit::vector_commitment_decommit(c, &q, w).map(|_| Value::Null).map_err(dbg))
        })(),
        // ---------------- fri
        "fri_commit" => (|| -> Out {
            let mut t = transcript(req)?;
            let u: swiftness_fri::types::UnsentCommitment = de(req, "unsent_commitment")?;
            let c: swiftness_fri::config::Config = de(req, "config")?;
            let r = swiftness_fri::fri::fri_commit(&mut t, u, c);
            Ok(Ok(json!({"commitment": serde_json::to_value(&r).map_err(dbg)?, "transcript": transcript_json(&t)})))
        })(),
        "fri_verify" => (|| -> Out {
            let c: swiftness_fri::types::Commitment = de(req, "commitment")?;
            let d: swiftness_fri::types::Decommitment = de(req, "decommitment")?;
            let w: swiftness_fri::types::Witness = de(req, "witness")?;
            Ok(swiftness_fri::fri::fri_verify(&felts(get(req, "queries")?)?, c, d, w).map(|_| Value::Null).map_err(dbg))
        })(),
        "compute_next_layer" => (|| -> Out {
            let mut q = fri_queries(get(req, "queries")?)?;
            let mut sib = felts(get(req, "sibling_witness")?)?;
            let params = swiftness_fri::layer::FriLayerComputationParams {
                coset_size: felt(get(req, "coset_size")?)?,
                fri_group: swiftness_fri::group::get_fri_group(),
                eval_point: felt(get(req, "eval_point")?)?,
            };
            Ok(swiftness_fri::layer::compute_next_layer(&mut q, &mut sib, params)
                .map(|(nq, vi, vy)| json!({"next_queries": fri_queries_json(&nq), "verify_indices": hexes(&vi), "verify_y_values": hexes(&vy),
                                           "queries_left": q.len(), "siblings_left": sib.len()}))
                .map_err(dbg))
        })(),
        "gather_first_layer_queries" => (|| -> Out {
            let q = swiftness_fri::first_layer::gather_first_layer_queries(
                &felts(get(req, "queries")?)?, felts(get(req, "evaluations")?)?, felts(get(req, "x_values")?)?);
            Ok(Ok(fri_queries_json(&q)))
        })(),
        "verify_last_layer_full" => (|| -> Out {
            let q = fri_queries(get(req, "queries")?)?;
            Ok(swiftness_fri::last_layer::verify_last_layer(q, felts(get(req, "coefficients")?)?).map(|_| Value::Null).map_err(dbg))
        })(),
        // ---------------- stark plumbing on the ToyLayout
        "toy_consts" => Ok(Ok(json!({
            "MASK_SIZE": <toy::Layout as LayoutTrait>::MASK_SIZE, "N_CONSTRAINTS": <toy::Layout as LayoutTrait>::N_CONSTRAINTS,
            "CONSTRAINT_DEGREE": <toy::Layout as LayoutTrait>::CONSTRAINT_DEGREE}))),
        "verify_oods" => (|| -> Out {
            load_script(req)?;
            let ie: toy::InteractionElements = de(req, "interaction_elements")?;
            let pi: PublicInput = de(req, "public_input")?;
            let r = swiftness_stark::oods::verify_oods::<toy::Layout>(
                &felts(get(req, "oods")?)?, &ie, &pi, &felts(get(req, "constraint_coefficients")?)?,
                &felt(get(req, "oods_point")?)?, &felt(get(req, "trace_domain_size")?)?, &felt(get(req, "trace_generator")?)?);
            Ok(r.map(|_| json!({"log": take_log()})).map_err(dbg))
        })(),
        "eval_oods_boundary_poly_at_points" => (|| -> Out {
            load_script(req)?;
            let pi: PublicInput = de(req, "public_input")?;
            let info = swiftness_stark::oods::OodsEvaluationInfo {
                oods_values: felts(get(req, "oods_values")?)?,
                oods_point: felt(get(req, "oods_point")?)?,
                trace_generator: felt(get(req, "trace_generator")?)?,
                constraint_coefficients: felts(get(req, "constraint_coefficients")?)?,
            };
            let dec: swiftness_air::trace::Decommitment = de(req, "decommitment")?;
            let cdec: swiftness_commitment::table::types::Decommitment = de(req, "composition_decommitment")?;
            let r = swiftness_stark::oods::eval_oods_boundary_poly_at_points::<toy::Layout>(
                usz(req, "n_original_columns")?, usz(req, "n_interaction_columns")?, &pi, &info, &felts(get(req, "points")?)?, &dec, &cdec);
            Ok(Ok(json!({"evaluations": hexes(&r), "log": take_log()})))
        })(),
        "stark_commit" => (|| -> Out {
            load_script(req)?;
            let mut t = transcript(req)?;
            let pi: PublicInput = de(req, "public_input")?;
            let u: swiftness_stark::types::StarkUnsentCommitment = de(req, "unsent_commitment")?;
            let c: swiftness_stark::config::StarkConfig = de(req, "config")?;
            let d = domains(req)?;
            let r = swiftness_stark::commit::stark_commit::<toy::Layout>(&mut t, &pi, &u, &c, &d);
            Ok(r.map(|c| json!({"commitment": serde_json::to_value(&c).unwrap_or(Value::Null), "transcript": transcript_json(&t), "log": take_log()}))
                .map_err(dbg))
        })(),
        "stark_verify" => (|| -> Out {
            load_script(req)?;
            let pi: PublicInput = de(req, "public_input")?;
            let c: swiftness_stark::types::StarkCommitment<toy::InteractionElements> = de(req, "commitment")?;
            let w: swiftness_stark::types::StarkWitness = de(req, "witness")?;
            let d = domains(req)?;
            let r = swiftness_stark::verify::stark_verify::<toy::Layout>(
                usz(req, "n_original_columns")?, usz(req, "n_interaction_columns")?, &pi, &felts(get(req, "queries")?)?, c, &w, &d);
            Ok(r.map(|_| json!({"log": take_log()})).map_err(dbg))
        })(),
        _ => return None,
    })
}
