// ToyLayout: a small LayoutTrait implementation used to replay the GENERIC stark plumbing (stark_commit / stark_verify /
// verify_oods / eval_oods_boundary_poly_at_points) natively.  This file is ALSO parsed by the Python executor
// (/verif/smt, extra world file): traces_commit / traces_decommit / InteractionElements::new below are executed symbolically
// from this very text, so both sides run the same code.  The two evaluators are scripted: they log their arguments into
// a thread-local and return the values supplied by the request (the Python side treats them as uninterpreted).
use serde::{Deserialize, Serialize};
use starknet_crypto::Felt;
use std::cell::RefCell;
use swiftness_air::domains::StarkDomains;
use swiftness_air::layout::{CompositionPolyEvalError, LayoutTrait, OodsPolyEvalError, PublicInputError};
use swiftness_air::public_memory::PublicInput;
use swiftness_commitment::table::{commit::table_commit, decommit::table_decommit};
use swiftness_transcript::transcript::Transcript;

#[derive(Debug, Clone, PartialEq, Serialize, Deserialize)]
pub struct InteractionElements {
    pub elm0: Felt,
    pub elm1: Felt,
}

impl InteractionElements {
    pub fn new(transcript: &mut Transcript) -> Self {
        Self { elm0: transcript.random_felt_to_prover(), elm1: transcript.random_felt_to_prover() }
    }
}

#[derive(Default)]
pub struct Script {
    pub composition: Option<Felt>,
    pub composition_err: bool,
    pub oods_poly: Vec<Felt>,
    pub log: Vec<serde_json::Value>,
    pub oods_calls: usize,
}

thread_local! {
    pub static SCRIPT: RefCell<Script> = RefCell::new(Script::default());
}

fn hexes(v: &[Felt]) -> serde_json::Value {
    serde_json::Value::Array(v.iter().map(|f| serde_json::Value::String(format!("{:#x}", f))).collect())
}
fn hex1(f: &Felt) -> serde_json::Value {
    serde_json::Value::String(format!("{:#x}", f))
}

pub struct Layout {}

impl LayoutTrait for Layout {
    const CONSTRAINT_DEGREE: usize = 2;
    const MASK_SIZE: usize = 3;
    const N_CONSTRAINTS: usize = 2;
    type InteractionElements = InteractionElements;

    fn eval_composition_polynomial(
        interaction_elements: &Self::InteractionElements,
        _public_input: &PublicInput,
        mask_values: &[Felt],
        constraint_coefficients: &[Felt],
        point: &Felt,
        trace_domain_size: &Felt,
        trace_generator: &Felt,
    ) -> Result<Felt, CompositionPolyEvalError> {
        SCRIPT.with(|s| {
            let mut s = s.borrow_mut();
            s.log.push(serde_json::json!({
                "call": "eval_composition_polynomial",
                "interaction_elements": [hex1(&interaction_elements.elm0), hex1(&interaction_elements.elm1)],
                "mask_values": hexes(mask_values),
                "constraint_coefficients": hexes(constraint_coefficients),
                "point": hex1(point),
                "trace_domain_size": hex1(trace_domain_size),
                "trace_generator": hex1(trace_generator),
            }));
            if s.composition_err {
                return Err(CompositionPolyEvalError::ValueOutOfRange);
            }
            Ok(s.composition.unwrap_or(Felt::ZERO))
        })
    }

    fn eval_oods_polynomial(
        _public_input: &PublicInput,
        column_values: &[Felt],
        oods_values: &[Felt],
        constraint_coefficients: &[Felt],
        point: &Felt,
        oods_point: &Felt,
        trace_generator: &Felt,
    ) -> Result<Felt, OodsPolyEvalError> {
        SCRIPT.with(|s| {
            let mut s = s.borrow_mut();
            s.log.push(serde_json::json!({
                "call": "eval_oods_polynomial",
                "column_values": hexes(column_values),
                "oods_values": hexes(oods_values),
                "constraint_coefficients": hexes(constraint_coefficients),
                "point": hex1(point),
                "oods_point": hex1(oods_point),
                "trace_generator": hex1(trace_generator),
            }));
            let i = s.oods_calls;
            s.oods_calls += 1;
            Ok(s.oods_poly.get(i).copied().unwrap_or(Felt::from(i as u64 + 1)))
        })
    }

    fn validate_public_input(_public_input: &PublicInput, _stark_domains: &StarkDomains) -> Result<(), PublicInputError> {
        Ok(())
    }

    fn traces_commit(
        transcript: &mut Transcript,
        unsent_commitment: &swiftness_air::trace::UnsentCommitment,
        config: swiftness_air::trace::config::Config,
    ) -> swiftness_air::trace::Commitment<Self::InteractionElements> {
        // Read original commitment.
        let original_commitment = table_commit(transcript, unsent_commitment.original, config.original);

        // Generate interaction elements for the first interaction.
        let interaction_elements = Self::InteractionElements::new(transcript);

        // Read interaction commitment.
        let interaction_commitment = table_commit(transcript, unsent_commitment.interaction, config.interaction);

        swiftness_air::trace::Commitment {
            original: original_commitment,
            interaction_elements,
            interaction: interaction_commitment,
        }
    }

    fn traces_decommit(
        queries: &[Felt],
        commitment: swiftness_air::trace::Commitment<Self::InteractionElements>,
        decommitment: swiftness_air::trace::Decommitment,
        witness: swiftness_air::trace::Witness,
    ) -> Result<(), swiftness_air::trace::decommit::Error> {
        Ok(table_decommit(commitment.original, queries, decommitment.original, witness.original)
            .and(table_decommit(commitment.interaction, queries, decommitment.interaction, witness.interaction))?)
    }

    fn verify_public_input(_public_input: &PublicInput) -> Result<(Felt, Felt), PublicInputError> {
        Ok((Felt::ZERO, Felt::ZERO))
    }
}
