//! replay_e2: evaluates REAL swiftness functions on concrete field elements.
//!
//! stdin : one JSON request object, or a JSON array of request objects.
//! stdout: the matching response object / array of response objects.
//!
//! Every response is one of
//!   {"ok": <value>}                  the function returned (value is fn specific)
//!   {"err": "<Debug of the Err>"}    the function returned Err
//!   {"panic": "<message>"}           the function panicked (caught with catch_unwind)
//!   {"bad_request": "<why>"}         the request could not be decoded
//!
//! All field elements travel as hex strings ("0x...").
use serde_json::{json, Value};
use starknet_crypto::Felt;
use std::cell::RefCell;
use std::io::{BufRead, Read, Write};
use std::panic::{catch_unwind, AssertUnwindSafe};

mod ext;
mod toy;

thread_local! {
    /// (file, line) of the last panic, recorded by the panic hook
    static PANIC_LOC: RefCell<Option<(String, u32)>> = RefCell::new(None);
}

type R<T> = Result<T, String>;

fn felt(v: &Value) -> R<Felt> {
    let s = v.as_str().ok_or_else(|| format!("expected hex string, got {v}"))?;
    Felt::from_hex(s).map_err(|e| format!("bad felt {s}: {e:?}"))
}
fn felts(v: &Value) -> R<Vec<Felt>> {
    v.as_array().ok_or_else(|| format!("expected array, got {v}"))?.iter().map(felt).collect()
}
fn get<'a>(req: &'a Value, k: &str) -> R<&'a Value> {
    req.get(k).ok_or_else(|| format!("missing key {k}"))
}
fn hex(f: &Felt) -> Value {
    Value::String(format!("{:#x}", f))
}

/// Coefficient vectors to evaluate: either the explicit "constraint_coefficients", or - to keep
/// requests small - one unit vector e_i of length "n_coefficients" per entry of "unit_indices".
fn coefficient_sets(req: &Value) -> R<(Vec<Vec<Felt>>, bool)> {
    if let Some(ix) = req.get("unit_indices") {
        let n = get(req, "n_coefficients")?.as_u64().ok_or("n_coefficients must be a number")? as usize;
        let mut out = Vec::new();
        for i in ix.as_array().ok_or("unit_indices not an array")? {
            let i = i.as_u64().ok_or("bad unit index")? as usize;
            let mut v = vec![Felt::ZERO; n];
            if i >= n {
                return Err(format!("unit index {i} >= n_coefficients {n}"));
            }
            v[i] = Felt::ONE;
            out.push(v);
        }
        Ok((out, true))
    } else {
        Ok((vec![felts(get(req, "constraint_coefficients")?)?], false))
    }
}
fn pack(results: Vec<Felt>, many: bool) -> Value {
    if many {
        Value::Array(results.iter().map(hex).collect())
    } else {
        hex(&results[0])
    }
}

fn public_input(req: &Value) -> R<swiftness_air::public_memory::PublicInput> {
    use swiftness_air::types::{AddrValue, ContinuousPageHeader, Page};
    let mut page = Vec::new();
    for cell in get(req, "main_page")?.as_array().ok_or("main_page not an array")? {
        let c = felts(cell)?;
        if c.len() != 2 {
            return Err("main_page cell must be [address, value]".into());
        }
        page.push(AddrValue { address: c[0], value: c[1] });
    }
    let mut headers = Vec::new();
    for h in get(req, "headers")?.as_array().ok_or("headers not an array")? {
        headers.push(ContinuousPageHeader {
            start_address: felt(get(h, "start_address")?)?,
            size: felt(get(h, "size")?)?,
            hash: felt(get(h, "hash")?)?,
            prod: felt(get(h, "prod")?)?,
        });
    }
    Ok(swiftness_air::public_memory::PublicInput {
        log_n_steps: Felt::ZERO,
        range_check_min: Felt::ZERO,
        range_check_max: Felt::ZERO,
        layout: Felt::ZERO,
        dynamic_params: None,
        segments: Vec::new(),
        padding_addr: felt(get(req, "padding_addr")?)?,
        padding_value: felt(get(req, "padding_value")?)?,
        main_page: Page(page),
        continuous_page_headers: headers,
    })
}

#[allow(unused_macros)]
macro_rules! static_layout {
    ($name:ident, $req:expr, $func:expr) => {{
        use swiftness_air::layout::$name as l;
        use swiftness_air::layout::{LayoutTrait, StaticLayoutTrait};
        match $func {
            "layout_consts" => Ok(json!({
                "MASK_SIZE": <l::Layout as LayoutTrait>::MASK_SIZE,
                "N_CONSTRAINTS": <l::Layout as LayoutTrait>::N_CONSTRAINTS,
                "CONSTRAINT_DEGREE": <l::Layout as LayoutTrait>::CONSTRAINT_DEGREE,
                "NUM_COLUMNS_FIRST": <l::Layout as StaticLayoutTrait>::NUM_COLUMNS_FIRST,
                "NUM_COLUMNS_SECOND": <l::Layout as StaticLayoutTrait>::NUM_COLUMNS_SECOND,
            })),
            "eval_composition_polynomial_inner" => {
                let gv: l::global_values::GlobalValues =
                    serde_json::from_value(get($req, "global_values")?.clone())
                        .map_err(|e| format!("global_values: {e}"))?;
                let (sets, many) = coefficient_sets($req)?;
                let mask = felts(get($req, "mask_values")?)?;
                let point = felt(get($req, "point")?)?;
                let tg = felt(get($req, "trace_generator")?)?;
                let r: Vec<Felt> = sets
                    .iter()
                    .map(|c| l::autogenerated::eval_composition_polynomial_inner(&mask, c, &point, &tg, &gv))
                    .collect();
                Ok(pack(r, many))
            }
            "eval_oods_polynomial_inner" => {
                let (sets, many) = coefficient_sets($req)?;
                let cols = felts(get($req, "column_values")?)?;
                let oods = felts(get($req, "oods_values")?)?;
                let point = felt(get($req, "point")?)?;
                let op = felt(get($req, "oods_point")?)?;
                let tg = felt(get($req, "trace_generator")?)?;
                let r: Vec<Felt> = sets
                    .iter()
                    .map(|c| l::autogenerated::eval_oods_polynomial_inner::<l::Layout>(&cols, &oods, c, &point, &op, &tg))
                    .collect();
                Ok(pack(r, many))
            }
            f => Err(format!("unknown layout function {f}")),
        }
    }};
}

#[cfg(feature = "dynamic")]
fn dynamic_layout(req: &Value, func: &str) -> R<Value> {
    use swiftness_air::dynamic::DynamicParams;
    use swiftness_air::layout::dynamic as l;
    use swiftness_air::layout::LayoutTrait;
    if func == "layout_consts" {
        return Ok(json!({
            "MASK_SIZE": <l::Layout as LayoutTrait>::MASK_SIZE,
            "N_CONSTRAINTS": <l::Layout as LayoutTrait>::N_CONSTRAINTS,
            "CONSTRAINT_DEGREE": <l::Layout as LayoutTrait>::CONSTRAINT_DEGREE,
        }));
    }
    let dp: Vec<usize> = get(req, "dynamic_params")?
        .as_array()
        .ok_or("dynamic_params not an array")?
        .iter()
        .map(|v| v.as_u64().map(|x| x as usize).ok_or_else(|| format!("bad usize {v}")))
        .collect::<R<Vec<usize>>>()?;
    let dp = DynamicParams::from(dp);
    match func {
        "eval_composition_polynomial_inner" => {
            let gv: l::global_values::GlobalValues =
                serde_json::from_value(get(req, "global_values")?.clone())
                    .map_err(|e| format!("global_values: {e}"))?;
            let (sets, many) = coefficient_sets(req)?;
            let mask = felts(get(req, "mask_values")?)?;
            let point = felt(get(req, "point")?)?;
            let tg = felt(get(req, "trace_generator")?)?;
            let r: Vec<Felt> = sets
                .iter()
                .map(|c| l::autogenerated::eval_composition_polynomial_inner(&mask, c, &point, &tg, &gv, &dp))
                .collect();
            Ok(pack(r, many))
        }
        "eval_oods_polynomial_inner" => {
            let (sets, many) = coefficient_sets(req)?;
            let cols = felts(get(req, "column_values")?)?;
            let oods = felts(get(req, "oods_values")?)?;
            let point = felt(get(req, "point")?)?;
            let op = felt(get(req, "oods_point")?)?;
            let tg = felt(get(req, "trace_generator")?)?;
            let r: Vec<Felt> = sets
                .iter()
                .map(|c| l::autogenerated::eval_oods_polynomial_inner::<l::Layout>(&cols, &oods, c, &point, &op, &tg, &dp))
                .collect();
            Ok(pack(r, many))
        }
        f => Err(format!("unknown layout function {f}")),
    }
}

fn layout_call(req: &Value, func: &str) -> R<Value> {
    let layout = get(req, "layout")?.as_str().ok_or("layout must be a string")?;
    match layout {
        #[cfg(feature = "dex")]
        "dex" => static_layout!(dex, req, func),
        #[cfg(feature = "recursive")]
        "recursive" => static_layout!(recursive, req, func),
        #[cfg(feature = "recursive_with_poseidon")]
        "recursive_with_poseidon" => static_layout!(recursive_with_poseidon, req, func),
        #[cfg(feature = "small")]
        "small" => static_layout!(small, req, func),
        #[cfg(feature = "starknet")]
        "starknet" => static_layout!(starknet, req, func),
        #[cfg(feature = "starknet_with_keccak")]
        "starknet_with_keccak" => static_layout!(starknet_with_keccak, req, func),
        #[cfg(feature = "dynamic")]
        "dynamic" => dynamic_layout(req, func),
        other => Err(format!("layout {other} not compiled into this replay binary")),
    }
}

/// Ok(Ok(v)) = returned v; Ok(Err(e)) = function returned Err(e); Err(s) = bad request.
fn dispatch(req: &Value) -> R<Result<Value, String>> {
    let func = get(req, "fn")?.as_str().ok_or("fn must be a string")?;
    match func {
        "fri_formula" => {
            let r = swiftness_fri::formula::fri_formula(
                felts(get(req, "values")?)?,
                felt(get(req, "eval_point")?)?,
                felt(get(req, "x_inv")?)?,
                felt(get(req, "coset_size")?)?,
            );
            Ok(r.map(|f| hex(&f)).map_err(|e| format!("{e:?}")))
        }
        // horner_eval is private: it is observed through verify_last_layer with one query.
        // Returns {"accepted": bool, "horner": value of horner_eval(coefficients, 1/x_inv)}.
        "verify_last_layer" => {
            use swiftness_fri::last_layer::{verify_last_layer, Error};
            use swiftness_fri::layer::FriLayerQuery;
            let y = felt(get(req, "y")?)?;
            let q = FriLayerQuery { index: Felt::ZERO, y_value: y, x_inv_value: felt(get(req, "x_inv")?)? };
            match verify_last_layer(vec![q], felts(get(req, "coefficients")?)?) {
                Ok(()) => Ok(Ok(json!({"accepted": true, "horner": hex(&y)}))),
                Err(Error::QueryMismatch { expected: _, got }) => {
                    Ok(Ok(json!({"accepted": false, "horner": hex(&got)})))
                }
            }
        }
        // FIELD_GENERATOR_INVERSE is private: observed through gather_first_layer_queries, which
        // returns x_inv_value = 1 / (x * FIELD_GENERATOR_INVERSE).
        "first_layer_x_inv" => {
            let x = felt(get(req, "x")?)?;
            let q = swiftness_fri::first_layer::gather_first_layer_queries(&[Felt::ZERO], vec![Felt::ZERO], vec![x]);
            Ok(Ok(hex(&q[0].x_inv_value)))
        }
        "fri_group" => Ok(Ok(Value::Array(swiftness_fri::group::get_fri_group().iter().map(hex).collect()))),
        "get_diluted_product" => {
            let r = swiftness_air::diluted::get_diluted_product(
                felt(get(req, "n_bits")?)?,
                felt(get(req, "spacing")?)?,
                felt(get(req, "z")?)?,
                felt(get(req, "alpha")?)?,
            );
            Ok(Ok(hex(&r)))
        }
        "get_public_memory_product_ratio" => {
            let pi = public_input(req)?;
            let r = pi.get_public_memory_product_ratio(
                felt(get(req, "z")?)?,
                felt(get(req, "alpha")?)?,
                felt(get(req, "column_size")?)?,
            );
            // the function returned a Felt before /repo commit e64d4b6 and a Result since
            Ok(FeltOutcome::outcome(r).map(|f| hex(&f)))
        }
        "get_public_memory_product" => {
            let pi = public_input(req)?;
            let (p, l) = pi.get_public_memory_product(felt(get(req, "z")?)?, felt(get(req, "alpha")?)?);
            Ok(Ok(json!({"prod": hex(&p), "total_length": hex(&l)})))
        }
        "stark_domains" => {
            let d = swiftness_air::domains::StarkDomains::new(
                felt(get(req, "log_trace_domain_size")?)?,
                felt(get(req, "log_n_cosets")?)?,
            );
            Ok(Ok(json!({
                "log_eval_domain_size": hex(&d.log_eval_domain_size),
                "eval_domain_size": hex(&d.eval_domain_size),
                "eval_generator": hex(&d.eval_generator),
                "log_trace_domain_size": hex(&d.log_trace_domain_size),
                "trace_domain_size": hex(&d.trace_domain_size),
                "trace_generator": hex(&d.trace_generator),
            })))
        }
        "layout_consts" | "eval_composition_polynomial_inner" | "eval_oods_polynomial_inner" => {
            layout_call(req, func).map(Ok)
        }
        f => match ext::dispatch(req, f) {
            Some(r) => r,
            None => Err(format!("unknown fn {f}")),
        },
    }
}

fn handle(req: &Value) -> Value {
    PANIC_LOC.with(|l| *l.borrow_mut() = None);
    let r = catch_unwind(AssertUnwindSafe(|| dispatch(req)));
    match r {
        Ok(Ok(Ok(v))) => json!({ "ok": v }),
        Ok(Ok(Err(e))) => json!({ "err": e }),
        Ok(Err(why)) => json!({ "bad_request": why }),
        Err(p) => {
            let msg = if let Some(s) = p.downcast_ref::<&str>() {
                s.to_string()
            } else if let Some(s) = p.downcast_ref::<String>() {
                s.clone()
            } else {
                "non-string panic payload".to_string()
            };
            let loc = PANIC_LOC.with(|l| l.borrow().clone());
            match loc {
                Some((f, l)) => json!({ "panic": msg, "file": f, "line": l }),
                None => json!({ "panic": msg }),
            }
        }
    }
}

fn main() {
    // Panics are reported in the JSON answer; keep stderr quiet.
    std::panic::set_hook(Box::new(|info| {
        if let Some(l) = info.location() {
            PANIC_LOC.with(|p| *p.borrow_mut() = Some((l.file().to_string(), l.line())));
        }
    }));
    if std::env::args().any(|a| a == "--serve") {
        // line oriented server: one JSON request per line, one JSON answer per line
        let stdin = std::io::stdin();
        let stdout = std::io::stdout();
        for line in stdin.lock().lines() {
            let line = match line {
                Ok(l) => l,
                Err(_) => break,
            };
            if line.trim().is_empty() {
                continue;
            }
            let out = match serde_json::from_str::<Value>(&line) {
                Ok(v) => handle(&v),
                Err(e) => json!({"bad_request": format!("json: {e}")}),
            };
            let mut o = stdout.lock();
            let _ = writeln!(o, "{}", out);
            let _ = o.flush();
        }
        return;
    }
    let mut input = String::new();
    std::io::stdin().read_to_string(&mut input).expect("read stdin");
    let req: Value = match serde_json::from_str(&input) {
        Ok(v) => v,
        Err(e) => {
            println!("{}", json!({"bad_request": format!("json: {e}")}));
            std::process::exit(2);
        }
    };
    let out = match &req {
        Value::Array(a) => Value::Array(a.iter().map(handle).collect()),
        v => handle(v),
    };
    println!("{}", out);
}

/// Accept both signatures of get_public_memory_product_ratio (Felt, or Result<Felt, E>).
pub trait FeltOutcome {
    fn outcome(self) -> Result<Felt, String>;
}
impl FeltOutcome for Felt {
    fn outcome(self) -> Result<Felt, String> {
        Ok(self)
    }
}
impl<E: core::fmt::Debug> FeltOutcome for Result<Felt, E> {
    fn outcome(self) -> Result<Felt, String> {
        self.map_err(|e| format!("{:?}", e))
    }
}
