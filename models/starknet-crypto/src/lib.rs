//! Kani model of `starknet-crypto`: Poseidon and Pedersen as collision-free uninterpreted
//! functions (verif-uf HASH table).  A sequence hash is an injective chain (one row per
//! element) closed with the element count.
#![no_std]
pub use starknet_types_core::felt::Felt;
#[cfg(kani)]
use verif_uf::{hash2, tag};

#[cfg(kani)]
pub fn poseidon_hash(x: Felt, y: Felt) -> Felt {
    Felt(hash2(tag::POSEIDON2, x.0, y.0, true, false))
}
#[cfg(kani)]
pub fn pedersen_hash(x: &Felt, y: &Felt) -> Felt {
    Felt(hash2(tag::PEDERSEN, x.0, y.0, true, false))
}
#[cfg(kani)]
pub fn poseidon_hash_many<'a, I: IntoIterator<Item = &'a Felt>>(msgs: I) -> Felt {
    let mut h = [0u64; 4];
    let mut n: u64 = 0;
    for m in msgs {
        h = hash2(tag::POSEIDON_MANY_STEP, h, m.0, true, false);
        n += 1;
    }
    Felt(hash2(tag::POSEIDON_MANY_END, h, [n, 0, 0, 0], true, false))
}
#[cfg(not(kani))]
pub fn poseidon_hash(_x: Felt, _y: Felt) -> Felt {
    unimplemented!("symbolic-only model")
}
#[cfg(not(kani))]
pub fn pedersen_hash(_x: &Felt, _y: &Felt) -> Felt {
    unimplemented!("symbolic-only model")
}
#[cfg(not(kani))]
pub fn poseidon_hash_many<'a, I: IntoIterator<Item = &'a Felt>>(_msgs: I) -> Felt {
    unimplemented!("symbolic-only model")
}
