//! Kani model of `sha3::Keccak256`: a collision-free uninterpreted function of the byte
//! string (see verif-uf).  64-byte inputs take one UF row (like one Poseidon node hash);
//! other lengths are chained over 32-byte big-endian words and finished with the length.
#![no_std]
extern crate alloc;
pub use verif_uf::digest_model::Digest;
pub type Keccak256 = verif_uf::digest_model::Hasher<0>;
