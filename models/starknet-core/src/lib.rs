//! Kani model of the `starknet-core` items swiftness uses without `std`.
#![no_std]
pub mod types {
    pub use starknet_types_core::felt::{Felt, NonZeroFelt};
}
