//! Kani model of `starknet-types-core` (see /verif/DESIGN.md §1.1).
//! Canonical residues in four little-endian u64 limbs; exact add/sub/neg/compare/bytes,
//! exact `2^k`, exact integer division by powers of two and between 64-bit values, exact
//! products of small values; everything else is an uninterpreted function (verif-uf).
#![no_std]
extern crate alloc;
pub mod felt_core;
pub mod felt;
pub use verif_uf as uf;
