use crate::felt_core as fc;
use crate::felt_core::W;
use core::cmp::Ordering;
use core::ops;
use num_bigint::{BigInt, BigUint};
#[cfg(kani)]
use verif_uf::{arith2, tag};

#[derive(Clone, Copy)]
pub struct Felt(pub W);

#[derive(Debug, Clone, Copy, Eq, PartialEq, PartialOrd, Ord)]
pub struct NonZeroFelt(pub Felt);

#[derive(Debug)]
pub struct FeltIsZeroError;
#[derive(Debug)]
pub struct FromStrError;
impl core::fmt::Display for FeltIsZeroError {
    fn fmt(&self, f: &mut core::fmt::Formatter<'_>) -> core::fmt::Result {
        f.write_str("tried to create NonZeroFelt from 0")
    }
}
impl core::fmt::Display for FromStrError {
    fn fmt(&self, f: &mut core::fmt::Formatter<'_>) -> core::fmt::Result {
        f.write_str("failed to create Felt from string")
    }
}

impl PartialEq for Felt {
    #[inline(always)]
    fn eq(&self, o: &Self) -> bool {
        fc::eq(&self.0, &o.0)
    }
}
impl Eq for Felt {}
impl core::hash::Hash for Felt {
    fn hash<H: core::hash::Hasher>(&self, h: &mut H) {
        self.0[0].hash(h);
        self.0[1].hash(h);
        self.0[2].hash(h);
        self.0[3].hash(h);
    }
}
impl PartialOrd for Felt {
    #[inline(always)]
    fn partial_cmp(&self, o: &Self) -> Option<Ordering> {
        Some(self.cmp(o))
    }
    #[inline(always)]
    fn lt(&self, o: &Self) -> bool {
        fc::lt(&self.0, &o.0)
    }
    #[inline(always)]
    fn le(&self, o: &Self) -> bool {
        !fc::lt(&o.0, &self.0)
    }
    #[inline(always)]
    fn gt(&self, o: &Self) -> bool {
        fc::lt(&o.0, &self.0)
    }
    #[inline(always)]
    fn ge(&self, o: &Self) -> bool {
        !fc::lt(&self.0, &o.0)
    }
}
impl Ord for Felt {
    fn cmp(&self, o: &Self) -> Ordering {
        if fc::lt(&self.0, &o.0) {
            Ordering::Less
        } else if fc::eq(&self.0, &o.0) {
            Ordering::Equal
        } else {
            Ordering::Greater
        }
    }
}
impl Default for Felt {
    fn default() -> Self {
        Felt::ZERO
    }
}

impl Felt {
    pub const ZERO: Self = Felt([0, 0, 0, 0]);
    pub const ONE: Self = Felt([1, 0, 0, 0]);
    pub const TWO: Self = Felt([2, 0, 0, 0]);
    pub const THREE: Self = Felt([3, 0, 0, 0]);
    pub const MAX: Self = Felt([0, 0, 0, 0x0800000000000011]);

    pub const fn from_raw_word(w: W) -> Self {
        Felt(w)
    }
    pub const fn from_hex_unchecked(val: &str) -> Self {
        Felt(fc::from_hex(val))
    }
    #[cfg(kani)]
    pub fn any() -> Self {
        Felt(verif_uf::any_felt_word())
    }
    pub fn is_zero(&self) -> bool {
        fc::eq(&self.0, &fc::ZERO)
    }

    fn mul_raw(a: Felt, b: Felt) -> Felt {
        #[cfg(kani)]
        {
            let (x, y) = if fc::lt(&b.0, &a.0) { (b, a) } else { (a, b) };
            let out = Felt(arith2(tag::MUL, x.0, y.0));
            // exact cases (x <= y)
            if x.is_zero() {
                kani::assume(out == Felt::ZERO);
                return Felt::ZERO;
            }
            if x == Felt::ONE {
                kani::assume(out == y);
                return y;
            }
            if fc::fits64(&x.0) && fc::fits64(&y.0) && x.0[0] < (1 << 32) && y.0[0] < (1 << 32) {
                let e = Felt([x.0[0] * y.0[0], 0, 0, 0]);
                kani::assume(out == e);
                return e;
            }
            if verif_uf::cheap_mul() {
                return out;
            }
            // The remaining exact cases constrain `out` (the UF row's value) instead of returning a
            // separately computed value: two multiplications of the same operands are then equal
            // by functional consistency alone, and the solver never has to prove two copies of
            // the shift / double-and-add circuits equivalent.
            // 2^k * v without wrap-around: a shift (the operands are ordered, test both)
            if fc::is_pow2(&x.0) && fc::bit_len(&y.0) + fc::trailing_zeros(&x.0) <= 251 {
                kani::assume(out == Felt(fc::shl(&y.0, fc::trailing_zeros(&x.0))));
                return out;
            }
            if fc::is_pow2(&y.0) && fc::bit_len(&x.0) + fc::trailing_zeros(&y.0) <= 251 {
                kani::assume(out == Felt(fc::shl(&x.0, fc::trailing_zeros(&y.0))));
                return out;
            }
            if fc::fits64(&x.0) && x.0[0] < (1 << 16) {
                kani::assume(out == Felt(fc::mul_small(x.0[0], 16, &y.0)));
                return out;
            }
            out
        }
        #[cfg(not(kani))]
        {
            let _ = (a, b);
            unimplemented!("model Felt is symbolic-only")
        }
    }
    fn pow_raw(base: Felt, e: Felt) -> Felt {
        #[cfg(kani)]
        {
            let out = Felt(arith2(tag::POW, base.0, e.0));
            if e.is_zero() {
                kani::assume(out == Felt::ONE);
                return Felt::ONE;
            }
            if e == Felt::ONE {
                kani::assume(out == base);
                return base;
            }
            if base.is_zero() {
                kani::assume(out == Felt::ZERO);
                return Felt::ZERO;
            }
            if base == Felt::ONE {
                kani::assume(out == Felt::ONE);
                return Felt::ONE;
            }
            if base == Felt::TWO && fc::fits64(&e.0) && e.0[0] < 252 {
                let r = Felt(fc::pow2(e.0[0] as u32));
                kani::assume(out == r);
                return r;
            }
            // x^e != 0 for x != 0
            kani::assume(!out.is_zero());
            out
        }
        #[cfg(not(kani))]
        {
            let _ = (base, e);
            unimplemented!("model Felt is symbolic-only")
        }
    }
    pub fn pow(&self, exponent: impl Into<u128>) -> Self {
        let e: u128 = exponent.into();
        Self::pow_raw(*self, Felt(fc::from_u128(e)))
    }
    pub fn pow_felt(&self, exponent: &Felt) -> Self {
        Self::pow_raw(*self, *exponent)
    }
    /// Integer quotient and remainder of the canonical representatives.
    pub fn div_rem(&self, rhs: &NonZeroFelt) -> (Self, Self) {
        let d = rhs.0;
        // real: lambdaworks UnsignedInteger::div_rem panics on a zero divisor
        assert!(!d.is_zero(), "division by zero");
        if fc::is_pow2(&d.0) {
            let k = fc::trailing_zeros(&d.0);
            return (Felt(fc::shr(&self.0, k)), Felt(fc::low_bits(&self.0, k)));
        }
        if fc::fits64(&d.0) && fc::fits64(&self.0) {
            return (
                Felt([self.0[0] / d.0[0], 0, 0, 0]),
                Felt([self.0[0] % d.0[0], 0, 0, 0]),
            );
        }
        if fc::lt(&self.0, &d.0) {
            return (Felt::ZERO, *self);
        }
        panic!("MODEL-LIMIT: div_rem by a divisor that is neither a power of two nor 64-bit");
    }
    pub fn floor_div(&self, rhs: &NonZeroFelt) -> Self {
        self.div_rem(rhs).0
    }
    pub fn field_div(&self, rhs: &NonZeroFelt) -> Self {
        let b = rhs.0;
        // real: lambdaworks `Div` unwraps `inv()`, which fails on zero
        assert!(!b.is_zero(), "field division by zero");
        #[cfg(kani)]
        {
            let out = Felt(arith2(tag::DIV, self.0, b.0));
            if self.is_zero() {
                kani::assume(out == Felt::ZERO);
                return Felt::ZERO;
            }
            if b == Felt::ONE {
                kani::assume(out == *self);
                return *self;
            }
            if *self == b {
                kani::assume(out == Felt::ONE);
                return Felt::ONE;
            }
            // small divisor c: the quotient is the unique r with c * r == a (mod p); decided
            // exactly by double-and-add, so "a is a whole multiple of c" is not abstracted
            if fc::fits64(&b.0) && b.0[0] < (1 << 16) {
                kani::assume(Felt(fc::mul_small(b.0[0], 16, &out.0)) == *self);
                return out;
            }
            // a / 2^k for a value whose low k bits are zero
            if fc::is_pow2(&b.0) {
                let k = fc::trailing_zeros(&b.0);
                if fc::eq(&fc::low_bits(&self.0, k), &fc::ZERO) {
                    let e = Felt(fc::shr(&self.0, k));
                    kani::assume(out == e);
                    return e;
                }
            }
            out
        }
        #[cfg(not(kani))]
        {
            unimplemented!("model Felt is symbolic-only")
        }
    }
    pub fn to_bytes_be(&self) -> [u8; 32] {
        fc::to_bytes_be(&self.0)
    }
    pub fn from_bytes_be(bytes: &[u8; 32]) -> Self {
        Felt(fc::reduce(&fc::word_from_be32(bytes)))
    }
    pub fn from_bytes_be_slice(bytes: &[u8]) -> Self {
        assert!(bytes.len() <= 32, "MODEL-LIMIT: from_bytes_be_slice longer than 32 bytes");
        let mut buf = [0u8; 32];
        let off = 32 - bytes.len();
        let mut i = 0;
        while i < bytes.len() {
            buf[off + i] = bytes[i];
            i += 1;
        }
        Self::from_bytes_be(&buf)
    }
    pub fn to_biguint(&self) -> BigUint {
        BigUint::from_limbs4(self.0)
    }
    pub fn to_bigint(&self) -> BigInt {
        BigInt::from(self.to_biguint())
    }
    pub fn to_raw_word(&self) -> W {
        self.0
    }
    // ---- further API of the real crate, so that realistic edits of /repo still compile
    pub fn to_le_digits(&self) -> [u64; 4] {
        self.0
    }
    pub fn to_be_digits(&self) -> [u64; 4] {
        [self.0[3], self.0[2], self.0[1], self.0[0]]
    }
    pub fn to_bytes_le(&self) -> [u8; 32] {
        let mut b = self.to_bytes_be();
        b.reverse();
        b
    }
    pub fn from_bytes_le(bytes: &[u8; 32]) -> Self {
        let mut b = *bytes;
        b.reverse();
        Self::from_bytes_be(&b)
    }
    pub fn from_bytes_le_slice(bytes: &[u8]) -> Self {
        assert!(bytes.len() <= 32, "MODEL-LIMIT: from_bytes_le_slice longer than 32 bytes");
        let mut buf = [0u8; 32];
        let mut i = 0;
        while i < bytes.len() {
            buf[31 - i] = bytes[i];
            i += 1;
        }
        Self::from_bytes_be(&buf)
    }
    pub fn bits(&self) -> usize {
        if self.is_zero() {
            0
        } else {
            fc::bit_len(&self.0) as usize
        }
    }
    pub fn to_bits_le(&self) -> [bool; 256] {
        let mut o = [false; 256];
        let mut i = 0;
        while i < 256 {
            o[i] = (self.0[i / 64] >> (i % 64)) & 1 == 1;
            i += 1;
        }
        o
    }
    pub fn to_bits_be(&self) -> [bool; 256] {
        let mut o = self.to_bits_le();
        o.reverse();
        o
    }
    pub fn square(&self) -> Self {
        Self::mul_raw(*self, *self)
    }
    pub fn double(&self) -> Self {
        add_f(*self, *self)
    }
    pub fn inverse(&self) -> Option<Self> {
        if self.is_zero() {
            None
        } else {
            Some(Felt::ONE.field_div(&NonZeroFelt(*self)))
        }
    }
    pub fn mod_floor(&self, n: &NonZeroFelt) -> Self {
        self.div_rem(n).1
    }
    pub fn to_hex_string(&self) -> alloc::string::String {
        alloc::format!("{:#x}", self)
    }
    pub fn to_fixed_hex_string(&self) -> alloc::string::String {
        alloc::format!("0x{:016x}{:016x}{:016x}{:016x}", self.0[3], self.0[2], self.0[1], self.0[0])
    }
    pub fn from_hex(hex_string: &str) -> Result<Self, FromStrError> {
        let b = hex_string.as_bytes();
        let mut i = 0;
        if b.len() >= 2 && b[0] == b'0' && (b[1] == b'x' || b[1] == b'X') {
            i = 2;
        }
        if b.len() - i > 64 || b.len() == i {
            return Err(FromStrError);
        }
        let mut w: W = [0; 4];
        while i < b.len() {
            let v = match b[i] {
                b'0'..=b'9' => (b[i] - b'0') as u64,
                b'a'..=b'f' => (b[i] - b'a' + 10) as u64,
                b'A'..=b'F' => (b[i] - b'A' + 10) as u64,
                _ => return Err(FromStrError),
            };
            w = [(w[0] << 4) | v, (w[1] << 4) | (w[0] >> 60), (w[2] << 4) | (w[1] >> 60), (w[3] << 4) | (w[2] >> 60)];
            i += 1;
        }
        Ok(Felt(fc::reduce(&w)))
    }
    pub fn from_dec_str(dec_string: &str) -> Result<Self, FromStrError> {
        let mut acc = Felt::ZERO;
        let b = dec_string.as_bytes();
        if b.is_empty() {
            return Err(FromStrError);
        }
        let mut i = 0;
        while i < b.len() {
            if b[i] < b'0' || b[i] > b'9' {
                return Err(FromStrError);
            }
            acc = Felt(fc::mul_small(10, 4, &acc.0));
            acc = add_f(acc, Felt::from((b[i] - b'0') as u64));
            i += 1;
        }
        Ok(acc)
    }
}
impl core::iter::Sum for Felt {
    fn sum<I: Iterator<Item = Self>>(iter: I) -> Self {
        let mut a = Felt::ZERO;
        for x in iter {
            a = add_f(a, x);
        }
        a
    }
}
impl<'a> core::iter::Sum<&'a Felt> for Felt {
    fn sum<I: Iterator<Item = &'a Felt>>(iter: I) -> Self {
        let mut a = Felt::ZERO;
        for x in iter {
            a = add_f(a, *x);
        }
        a
    }
}
impl core::str::FromStr for Felt {
    type Err = FromStrError;
    fn from_str(s: &str) -> Result<Self, Self::Err> {
        if s.starts_with("0x") {
            Felt::from_hex(s)
        } else {
            Felt::from_dec_str(s)
        }
    }
}
impl core::fmt::LowerHex for Felt {
    fn fmt(&self, f: &mut core::fmt::Formatter<'_>) -> core::fmt::Result {
        if f.alternate() {
            write!(f, "0x")?;
        }
        write!(f, "{:x}{:016x}{:016x}{:016x}", self.0[3], self.0[2], self.0[1], self.0[0])
    }
}
impl AsRef<Felt> for Felt {
    fn as_ref(&self) -> &Felt {
        self
    }
}


macro_rules! from_uint { ($($t:ty),*) => { $( impl From<$t> for Felt { #[inline(always)] fn from(v: $t) -> Self { Felt(fc::from_u128(v as u128)) } } )* } }
from_uint!(u8, u16, u32, u64, u128, usize);
macro_rules! from_int { ($($t:ty),*) => { $( impl From<$t> for Felt { fn from(v: $t) -> Self { if v >= 0 { Felt(fc::from_u128(v as u128)) } else { Felt(fc::neg_mod(&fc::from_u128((v as i128).unsigned_abs()))) } } } )* } }
from_int!(i8, i16, i32, i64, i128, isize);
impl From<bool> for Felt {
    fn from(v: bool) -> Self {
        Felt([v as u64, 0, 0, 0])
    }
}
impl TryFrom<Felt> for NonZeroFelt {
    type Error = FeltIsZeroError;
    fn try_from(v: Felt) -> Result<Self, Self::Error> {
        if v.is_zero() {
            Err(FeltIsZeroError)
        } else {
            Ok(NonZeroFelt(v))
        }
    }
}
impl TryFrom<&Felt> for NonZeroFelt {
    type Error = FeltIsZeroError;
    fn try_from(v: &Felt) -> Result<Self, Self::Error> {
        NonZeroFelt::try_from(*v)
    }
}
impl From<NonZeroFelt> for Felt {
    fn from(v: NonZeroFelt) -> Self {
        v.0
    }
}
impl NonZeroFelt {
    pub const ONE: Self = NonZeroFelt(Felt::ONE);
    pub const TWO: Self = NonZeroFelt(Felt::TWO);
    pub const THREE: Self = NonZeroFelt(Felt::THREE);
    pub const fn from_felt_unchecked(v: Felt) -> Self {
        NonZeroFelt(v)
    }
}
macro_rules! binop { ($tr:ident, $m:ident, $f:expr) => {
    impl ops::$tr<Felt> for Felt { type Output = Felt; #[inline(always)] fn $m(self, r: Felt) -> Felt { $f(self, r) } }
    impl ops::$tr<&Felt> for Felt { type Output = Felt; #[inline(always)] fn $m(self, r: &Felt) -> Felt { $f(self, *r) } }
    impl ops::$tr<Felt> for &Felt { type Output = Felt; #[inline(always)] fn $m(self, r: Felt) -> Felt { $f(*self, r) } }
    impl ops::$tr<&Felt> for &Felt { type Output = Felt; #[inline(always)] fn $m(self, r: &Felt) -> Felt { $f(*self, *r) } }
} }
fn add_f(a: Felt, b: Felt) -> Felt {
    Felt(fc::add_mod(&a.0, &b.0))
}
fn sub_f(a: Felt, b: Felt) -> Felt {
    Felt(fc::sub_mod(&a.0, &b.0))
}
binop!(Add, add, add_f);
binop!(Sub, sub, sub_f);
binop!(Mul, mul, Felt::mul_raw);
impl ops::Add<u64> for Felt { type Output = Felt; fn add(self, r: u64) -> Felt { add_f(self, Felt::from(r)) } }
impl ops::Add<u64> for &Felt { type Output = Felt; fn add(self, r: u64) -> Felt { add_f(*self, Felt::from(r)) } }
impl ops::Sub<u64> for Felt { type Output = Felt; fn sub(self, r: u64) -> Felt { sub_f(self, Felt::from(r)) } }
impl ops::Sub<u64> for &Felt { type Output = Felt; fn sub(self, r: u64) -> Felt { sub_f(*self, Felt::from(r)) } }
impl ops::AddAssign<Felt> for Felt { fn add_assign(&mut self, r: Felt) { *self = add_f(*self, r) } }
impl ops::AddAssign<&Felt> for Felt { fn add_assign(&mut self, r: &Felt) { *self = add_f(*self, *r) } }
impl ops::SubAssign<Felt> for Felt { fn sub_assign(&mut self, r: Felt) { *self = sub_f(*self, r) } }
impl ops::SubAssign<&Felt> for Felt { fn sub_assign(&mut self, r: &Felt) { *self = sub_f(*self, *r) } }
impl ops::MulAssign<Felt> for Felt { fn mul_assign(&mut self, r: Felt) { *self = Felt::mul_raw(*self, r) } }
impl ops::MulAssign<&Felt> for Felt { fn mul_assign(&mut self, r: &Felt) { *self = Felt::mul_raw(*self, *r) } }
impl ops::Neg for Felt { type Output = Felt; fn neg(self) -> Felt { Felt(fc::neg_mod(&self.0)) } }
impl ops::Neg for &Felt { type Output = Felt; fn neg(self) -> Felt { Felt(fc::neg_mod(&self.0)) } }
impl core::fmt::Display for Felt {
    fn fmt(&self, f: &mut core::fmt::Formatter<'_>) -> core::fmt::Result {
        write!(f, "0x{:x}:{:x}:{:x}:{:x}", self.0[3], self.0[2], self.0[1], self.0[0])
    }
}
impl core::fmt::Debug for Felt {
    fn fmt(&self, f: &mut core::fmt::Formatter<'_>) -> core::fmt::Result {
        core::fmt::Display::fmt(self, f)
    }
}
impl serde::Serialize for Felt {
    fn serialize<S: serde::Serializer>(&self, s: S) -> Result<S::Ok, S::Error> {
        s.serialize_bytes(&self.to_bytes_be())
    }
}
impl<'de> serde::Deserialize<'de> for Felt {
    fn deserialize<D: serde::Deserializer<'de>>(_d: D) -> Result<Self, D::Error> {
        Err(serde::de::Error::custom("model Felt cannot be deserialised"))
    }
}
