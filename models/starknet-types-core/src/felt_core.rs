//! Dependency-free exact kernels over `[u64; 4]` (little-endian limbs).  This file is also
//! `#[path]`-included by the native fidelity test, which compares every function here with
//! the real `starknet-types-core` on boundary and seeded values.
pub type W = [u64; 4];
pub const P: W = [1, 0, 0, 0x0800000000000011];
pub const ZERO: W = [0, 0, 0, 0];
pub const ONE: W = [1, 0, 0, 0];

#[inline(always)]
pub fn eq(a: &W, b: &W) -> bool {
    a[0] == b[0] && a[1] == b[1] && a[2] == b[2] && a[3] == b[3]
}
/// a < b as 256-bit unsigned integers
#[inline(always)]
pub fn lt(a: &W, b: &W) -> bool {
    if a[3] != b[3] {
        return a[3] < b[3];
    }
    if a[2] != b[2] {
        return a[2] < b[2];
    }
    if a[1] != b[1] {
        return a[1] < b[1];
    }
    a[0] < b[0]
}
#[inline(always)]
pub fn ge_p(a: &W) -> bool {
    !lt(a, &P)
}
#[inline(always)]
pub fn add256(a: &W, b: &W) -> (W, bool) {
    let (r0, c0) = a[0].overflowing_add(b[0]);
    let (t1, c1a) = a[1].overflowing_add(b[1]);
    let (r1, c1b) = t1.overflowing_add(c0 as u64);
    let (t2, c2a) = a[2].overflowing_add(b[2]);
    let (r2, c2b) = t2.overflowing_add((c1a | c1b) as u64);
    let (t3, c3a) = a[3].overflowing_add(b[3]);
    let (r3, c3b) = t3.overflowing_add((c2a | c2b) as u64);
    ([r0, r1, r2, r3], c3a | c3b)
}
#[inline(always)]
pub fn sub256(a: &W, b: &W) -> (W, bool) {
    let (r0, b0) = a[0].overflowing_sub(b[0]);
    let (t1, b1a) = a[1].overflowing_sub(b[1]);
    let (r1, b1b) = t1.overflowing_sub(b0 as u64);
    let (t2, b2a) = a[2].overflowing_sub(b[2]);
    let (r2, b2b) = t2.overflowing_sub((b1a | b1b) as u64);
    let (t3, b3a) = a[3].overflowing_sub(b[3]);
    let (r3, b3b) = t3.overflowing_sub((b2a | b2b) as u64);
    ([r0, r1, r2, r3], b3a | b3b)
}
/// (a + b) mod p for canonical a, b
pub fn add_mod(a: &W, b: &W) -> W {
    let (s, _) = add256(a, b); // a + b < 2p < 2^253: no carry out
    if ge_p(&s) {
        sub256(&s, &P).0
    } else {
        s
    }
}
pub fn neg_mod(a: &W) -> W {
    if eq(a, &ZERO) {
        ZERO
    } else {
        sub256(&P, a).0
    }
}
pub fn sub_mod(a: &W, b: &W) -> W {
    let (d, borrow) = sub256(a, b);
    if borrow {
        add256(&d, &P).0
    } else {
        d
    }
}
/// reduce an arbitrary 256-bit value mod p (value < 2^256 < 32 p)
pub fn reduce(a: &W) -> W {
    let mut v = *a;
    // p ~ 2^251, so at most 31 subtractions; do it by conditional subtraction of 16p,8p,4p,2p,p
    let mut k: u32 = 5;
    while k > 0 {
        k -= 1;
        // m = p << k  (p < 2^252 so p<<4 < 2^256)
        let m = shl_small(&P, k);
        if !lt(&v, &m) {
            v = sub256(&v, &m).0;
        }
    }
    // one more: values in [16p, 2^256) need 16p subtracted possibly twice (2^256/p ~ 31.99)
    if ge_p(&v) {
        v = sub256(&v, &P).0;
    }
    v
}
#[inline(always)]
fn shl_small(a: &W, k: u32) -> W {
    if k == 0 {
        *a
    } else {
        [
            a[0] << k,
            (a[1] << k) | (a[0] >> (64 - k)),
            (a[2] << k) | (a[1] >> (64 - k)),
            (a[3] << k) | (a[2] >> (64 - k)),
        ]
    }
}
pub const fn hexval(c: u8) -> u64 {
    match c {
        b'0'..=b'9' => (c - b'0') as u64,
        b'a'..=b'f' => (c - b'a' + 10) as u64,
        b'A'..=b'F' => (c - b'A' + 10) as u64,
        _ => panic!("malformed hex string"),
    }
}
/// Same contract as lambdaworks' `from_hex_unchecked`: no reduction, optional 0x prefix.
pub const fn from_hex(val: &str) -> W {
    let b = val.as_bytes();
    let mut i = 0;
    if b.len() >= 2 && b[0] == b'0' && (b[1] == b'x' || b[1] == b'X') {
        i = 2;
    }
    let mut w: W = [0; 4];
    while i < b.len() {
        w = [
            (w[0] << 4) | hexval(b[i]),
            (w[1] << 4) | (w[0] >> 60),
            (w[2] << 4) | (w[1] >> 60),
            (w[3] << 4) | (w[2] >> 60),
        ];
        i += 1;
    }
    w
}
pub fn to_bytes_be(a: &W) -> [u8; 32] {
    let mut out = [0u8; 32];
    let b3 = a[3].to_be_bytes();
    let b2 = a[2].to_be_bytes();
    let b1 = a[1].to_be_bytes();
    let b0 = a[0].to_be_bytes();
    let mut i = 0;
    while i < 8 {
        out[i] = b3[i];
        out[8 + i] = b2[i];
        out[16 + i] = b1[i];
        out[24 + i] = b0[i];
        i += 1;
    }
    out
}
pub fn word_from_be32(bytes: &[u8; 32]) -> W {
    let mut l = [0u64; 4];
    let mut i = 0;
    while i < 4 {
        let mut v: u64 = 0;
        let mut j = 0;
        while j < 8 {
            v = (v << 8) | bytes[i * 8 + j] as u64;
            j += 1;
        }
        l[3 - i] = v;
        i += 1;
    }
    l
}
/// 2^e for e < 252 (canonical, no reduction needed below 2^251; 2^251 < p)
pub fn pow2(e: u32) -> W {
    let mut w = ZERO;
    w[(e / 64) as usize] = 1u64 << (e % 64);
    w
}
#[inline(always)]
pub fn is_pow2(a: &W) -> bool {
    // exactly one bit set
    let c = a[0].count_ones() + a[1].count_ones() + a[2].count_ones() + a[3].count_ones();
    c == 1
}
#[inline(always)]
pub fn trailing_zeros(a: &W) -> u32 {
    if a[0] != 0 {
        a[0].trailing_zeros()
    } else if a[1] != 0 {
        64 + a[1].trailing_zeros()
    } else if a[2] != 0 {
        128 + a[2].trailing_zeros()
    } else {
        192 + a[3].trailing_zeros()
    }
}
/// a >> k for k < 256
pub fn shr(a: &W, k: u32) -> W {
    let limbs = (k / 64) as usize;
    let bits = k % 64;
    let mut t = ZERO;
    let mut i = 0;
    while i < 4 {
        if i + limbs < 4 {
            t[i] = a[i + limbs];
        }
        i += 1;
    }
    if bits == 0 {
        t
    } else {
        [
            (t[0] >> bits) | (t[1] << (64 - bits)),
            (t[1] >> bits) | (t[2] << (64 - bits)),
            (t[2] >> bits) | (t[3] << (64 - bits)),
            t[3] >> bits,
        ]
    }
}
/// a mod 2^k for k < 256
pub fn low_bits(a: &W, k: u32) -> W {
    let limbs = (k / 64) as usize;
    let bits = k % 64;
    let mut t = ZERO;
    let mut i = 0;
    while i < 4 {
        if i < limbs {
            t[i] = a[i];
        } else if i == limbs && bits != 0 {
            t[i] = a[i] & ((1u64 << bits) - 1);
        }
        i += 1;
    }
    t
}
#[inline(always)]
pub fn fits64(a: &W) -> bool {
    a[1] == 0 && a[2] == 0 && a[3] == 0
}
#[inline(always)]
pub fn fits128(a: &W) -> bool {
    a[2] == 0 && a[3] == 0
}
#[inline(always)]
pub fn from_u128(v: u128) -> W {
    [v as u64, (v >> 64) as u64, 0, 0]
}
#[inline(always)]
pub fn to_u128(a: &W) -> u128 {
    (a[0] as u128) | ((a[1] as u128) << 64)
}
/// small * any, by double-and-add over the bits of `s` (s < 2^bits)
pub fn mul_small(s: u64, bits: u32, b: &W) -> W {
    let mut acc = ZERO;
    let mut i = bits;
    while i > 0 {
        i -= 1;
        acc = add_mod(&acc, &acc);
        if (s >> i) & 1 == 1 {
            acc = add_mod(&acc, b);
        }
    }
    acc
}
/// number of significant bits
#[inline(always)]
pub fn bit_len(a: &W) -> u32 {
    if a[3] != 0 {
        256 - a[3].leading_zeros()
    } else if a[2] != 0 {
        192 - a[2].leading_zeros()
    } else if a[1] != 0 {
        128 - a[1].leading_zeros()
    } else {
        64 - a[0].leading_zeros()
    }
}
/// a << k for k < 256 (bits shifted out are lost)
pub fn shl(a: &W, k: u32) -> W {
    let limbs = (k / 64) as usize;
    let bits = k % 64;
    let mut t = ZERO;
    let mut i = 0;
    while i < 4 {
        if i >= limbs {
            t[i] = a[i - limbs];
        }
        i += 1;
    }
    if bits == 0 {
        t
    } else {
        [
            t[0] << bits,
            (t[1] << bits) | (t[0] >> (64 - bits)),
            (t[2] << bits) | (t[1] >> (64 - bits)),
            (t[3] << bits) | (t[2] >> (64 - bits)),
        ]
    }
}
