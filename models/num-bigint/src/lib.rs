//! Kani model of the `num-bigint` API subset used by swiftness: fixed 512-bit magnitudes.
//! Exact: conversions to/from machine integers, comparison, `to_bytes_be` (see note),
//! division by a power of two or between 64-bit values, products of 64-bit values.
//! Anything else panics with a `MODEL-LIMIT` message (reported as inconclusive, never as a
//! pass).  Note: `to_bytes_be` returns the value zero-padded to 32 (or 64) bytes instead of
//! the minimal length; its only consumer in swiftness is `Felt::from_bytes_be_slice`,
//! for which both give the same element.
#![no_std]
extern crate alloc;
use alloc::vec::Vec;
use core::cmp::Ordering;
use core::marker::PhantomData;

#[derive(Clone, Debug, PartialEq, Eq)]
pub struct BigUint {
    pub l: [u64; 8],
}
#[derive(Clone, Copy, Debug, PartialEq, Eq)]
pub enum Sign {
    Minus,
    NoSign,
    Plus,
}
#[derive(Clone, Debug, PartialEq, Eq)]
pub struct BigInt {
    pub neg: bool,
    pub mag: BigUint,
}

pub struct TryFromBigIntError<T> {
    _p: PhantomData<T>,
}
impl<T> TryFromBigIntError<T> {
    fn new() -> Self {
        Self { _p: PhantomData }
    }
}
impl<T> core::fmt::Debug for TryFromBigIntError<T> {
    fn fmt(&self, f: &mut core::fmt::Formatter<'_>) -> core::fmt::Result {
        f.write_str("TryFromBigIntError")
    }
}
impl<T> core::fmt::Display for TryFromBigIntError<T> {
    fn fmt(&self, f: &mut core::fmt::Formatter<'_>) -> core::fmt::Result {
        f.write_str("out of range conversion regarding big integer attempted")
    }
}

impl BigUint {
    pub const ZERO: BigUint = BigUint { l: [0; 8] };
    pub fn from_limbs4(w: [u64; 4]) -> Self {
        BigUint { l: [w[0], w[1], w[2], w[3], 0, 0, 0, 0] }
    }
    pub fn is_zero(&self) -> bool {
        self.hi_zero_from(0)
    }
    #[inline(always)]
    fn hi_zero_from(&self, k: usize) -> bool {
        let mut i = k;
        let mut z = true;
        while i < 8 {
            z = z && self.l[i] == 0;
            i += 1;
        }
        z
    }
    fn is_pow2(&self) -> bool {
        let mut c = 0;
        let mut i = 0;
        while i < 8 {
            c += self.l[i].count_ones();
            i += 1;
        }
        c == 1
    }
    fn trailing_zeros_(&self) -> u32 {
        let mut i = 0;
        while i < 8 {
            if self.l[i] != 0 {
                return (i as u32) * 64 + self.l[i].trailing_zeros();
            }
            i += 1;
        }
        512
    }
    fn shr_(&self, k: u32) -> BigUint {
        let limbs = (k / 64) as usize;
        let bits = k % 64;
        let mut t = [0u64; 8];
        let mut i = 0;
        while i < 8 {
            if i + limbs < 8 {
                t[i] = self.l[i + limbs];
            }
            i += 1;
        }
        if bits != 0 {
            let mut r = [0u64; 8];
            let mut i = 0;
            while i < 8 {
                let hi = if i + 1 < 8 { t[i + 1] << (64 - bits) } else { 0 };
                r[i] = (t[i] >> bits) | hi;
                i += 1;
            }
            t = r;
        }
        BigUint { l: t }
    }
    /// zero-padded big-endian bytes (32 bytes when the value fits 256 bits, else 64)
    pub fn to_bytes_be(&self) -> Vec<u8> {
        let n = if self.hi_zero_from(4) { 4 } else { 8 };
        let mut v = Vec::with_capacity(n * 8);
        let mut i = n;
        while i > 0 {
            i -= 1;
            v.extend_from_slice(&self.l[i].to_be_bytes());
        }
        v
    }
    pub fn to_u64_digits(&self) -> Vec<u64> {
        let mut v = Vec::new();
        let mut n = 8;
        while n > 0 && self.l[n - 1] == 0 {
            n -= 1;
        }
        let mut i = 0;
        while i < n {
            v.push(self.l[i]);
            i += 1;
        }
        v
    }
}
impl PartialOrd for BigUint {
    fn partial_cmp(&self, o: &Self) -> Option<Ordering> {
        Some(self.cmp(o))
    }
}
impl Ord for BigUint {
    fn cmp(&self, o: &Self) -> Ordering {
        let mut i = 8;
        while i > 0 {
            i -= 1;
            if self.l[i] < o.l[i] {
                return Ordering::Less;
            }
            if self.l[i] > o.l[i] {
                return Ordering::Greater;
            }
        }
        Ordering::Equal
    }
}
macro_rules! from_prim { ($($t:ty),*) => { $(
    impl From<$t> for BigUint { fn from(v: $t) -> Self { let v = v as u128; BigUint { l: [v as u64, (v >> 64) as u64, 0, 0, 0, 0, 0, 0] } } }
    impl From<$t> for BigInt { fn from(v: $t) -> Self { BigInt { neg: false, mag: BigUint::from(v) } } }
)* } }
from_prim!(u8, u16, u32, u64, u128, usize);

macro_rules! try_small { ($($t:ty),*) => { $(
    impl TryFrom<BigUint> for $t {
        type Error = TryFromBigIntError<BigUint>;
        fn try_from(v: BigUint) -> Result<$t, Self::Error> {
            if v.hi_zero_from(1) && v.l[0] <= <$t>::MAX as u64 { Ok(v.l[0] as $t) } else { Err(TryFromBigIntError::new()) }
        }
    }
    impl TryFrom<&BigUint> for $t {
        type Error = TryFromBigIntError<()>;
        fn try_from(v: &BigUint) -> Result<$t, Self::Error> {
            if v.hi_zero_from(1) && v.l[0] <= <$t>::MAX as u64 { Ok(v.l[0] as $t) } else { Err(TryFromBigIntError::new()) }
        }
    }
    impl TryFrom<BigInt> for $t {
        type Error = TryFromBigIntError<BigInt>;
        fn try_from(v: BigInt) -> Result<$t, Self::Error> {
            if (!v.neg || v.mag.is_zero()) && v.mag.hi_zero_from(1) && v.mag.l[0] <= <$t>::MAX as u64 { Ok(v.mag.l[0] as $t) } else { Err(TryFromBigIntError::new()) }
        }
    }
)* } }
try_small!(u8, u16, u32, u64, usize);
impl TryFrom<BigUint> for u128 {
    type Error = TryFromBigIntError<BigUint>;
    fn try_from(v: BigUint) -> Result<u128, Self::Error> {
        if v.hi_zero_from(2) {
            Ok((v.l[0] as u128) | ((v.l[1] as u128) << 64))
        } else {
            Err(TryFromBigIntError::new())
        }
    }
}
impl TryFrom<BigInt> for u128 {
    type Error = TryFromBigIntError<BigInt>;
    fn try_from(v: BigInt) -> Result<u128, Self::Error> {
        if (!v.neg || v.mag.is_zero()) && v.mag.hi_zero_from(2) {
            Ok((v.mag.l[0] as u128) | ((v.mag.l[1] as u128) << 64))
        } else {
            Err(TryFromBigIntError::new())
        }
    }
}
impl From<BigUint> for BigInt {
    fn from(v: BigUint) -> Self {
        BigInt { neg: false, mag: v }
    }
}
impl BigInt {
    pub fn sign(&self) -> Sign {
        if self.mag.is_zero() {
            Sign::NoSign
        } else if self.neg {
            Sign::Minus
        } else {
            Sign::Plus
        }
    }
    pub fn magnitude(&self) -> &BigUint {
        &self.mag
    }
}
impl PartialOrd for BigInt {
    fn partial_cmp(&self, o: &Self) -> Option<Ordering> {
        Some(self.cmp(o))
    }
}
impl Ord for BigInt {
    fn cmp(&self, o: &Self) -> Ordering {
        let sz = self.mag.is_zero();
        let oz = o.mag.is_zero();
        let sn = self.neg && !sz;
        let on = o.neg && !oz;
        if sn && !on {
            Ordering::Less
        } else if !sn && on {
            Ordering::Greater
        } else if sn {
            o.mag.cmp(&self.mag)
        } else {
            self.mag.cmp(&o.mag)
        }
    }
}
fn div_mag(a: &BigUint, b: &BigUint) -> BigUint {
    assert!(!b.is_zero(), "attempt to divide by zero");
    if b.is_pow2() {
        return a.shr_(b.trailing_zeros_());
    }
    if a.hi_zero_from(1) && b.hi_zero_from(1) {
        return BigUint::from(a.l[0] / b.l[0]);
    }
    if a < b {
        return BigUint::ZERO;
    }
    panic!("MODEL-LIMIT: BigUint division by a divisor that is neither a power of two nor 64-bit");
}
fn mul_mag(a: &BigUint, b: &BigUint) -> BigUint {
    if a.is_zero() || b.is_zero() {
        return BigUint::ZERO;
    }
    if a.hi_zero_from(1) && b.hi_zero_from(1) && a.l[0] < (1 << 32) && b.l[0] < (1 << 32) {
        return BigUint::from(a.l[0] * b.l[0]);
    }
    if a.is_pow2() {
        return shl_mag(b, a.trailing_zeros_());
    }
    if b.is_pow2() {
        return shl_mag(a, b.trailing_zeros_());
    }
    panic!("MODEL-LIMIT: BigUint product of two large values");
}
fn shl_mag(a: &BigUint, k: u32) -> BigUint {
    assert!(k < 256 && a.hi_zero_from(4), "MODEL-LIMIT: BigUint shift overflow");
    let limbs = (k / 64) as usize;
    let bits = k % 64;
    let mut t = [0u64; 8];
    let mut i = 0;
    while i < 8 {
        if i >= limbs {
            t[i] = a.l[i - limbs];
        }
        i += 1;
    }
    if bits != 0 {
        let mut r = [0u64; 8];
        let mut i = 0;
        while i < 8 {
            let lo = if i > 0 { t[i - 1] >> (64 - bits) } else { 0 };
            r[i] = (t[i] << bits) | lo;
            i += 1;
        }
        t = r;
    }
    BigUint { l: t }
}
macro_rules! ubin { ($tr:ident, $m:ident, $f:ident) => {
    impl core::ops::$tr<BigUint> for BigUint { type Output = BigUint; fn $m(self, r: BigUint) -> BigUint { $f(&self, &r) } }
    impl core::ops::$tr<&BigUint> for BigUint { type Output = BigUint; fn $m(self, r: &BigUint) -> BigUint { $f(&self, r) } }
    impl core::ops::$tr<BigUint> for &BigUint { type Output = BigUint; fn $m(self, r: BigUint) -> BigUint { $f(self, &r) } }
    impl core::ops::$tr<&BigUint> for &BigUint { type Output = BigUint; fn $m(self, r: &BigUint) -> BigUint { $f(self, r) } }
} }
ubin!(Div, div, div_mag);
ubin!(Mul, mul, mul_mag);
fn mul_int(a: &BigInt, b: &BigInt) -> BigInt {
    BigInt { neg: a.neg != b.neg, mag: mul_mag(&a.mag, &b.mag) }
}
impl core::ops::Mul<BigInt> for BigInt {
    type Output = BigInt;
    fn mul(self, r: BigInt) -> BigInt {
        mul_int(&self, &r)
    }
}
impl core::ops::Mul<&BigInt> for &BigInt {
    type Output = BigInt;
    fn mul(self, r: &BigInt) -> BigInt {
        mul_int(self, r)
    }
}
impl core::fmt::Display for BigUint {
    fn fmt(&self, f: &mut core::fmt::Formatter<'_>) -> core::fmt::Result {
        write!(f, "BigUint({:x?})", self.l)
    }
}
impl core::fmt::Display for BigInt {
    fn fmt(&self, f: &mut core::fmt::Formatter<'_>) -> core::fmt::Result {
        write!(f, "BigInt({}, {:x?})", self.neg, self.mag.l)
    }
}
