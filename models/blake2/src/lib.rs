//! Kani model of `blake2::Blake2s256` (see the sha3 model).
#![no_std]
extern crate alloc;
pub use verif_uf::digest_model::Digest;
pub type Blake2s256 = verif_uf::digest_model::Hasher<1>;
