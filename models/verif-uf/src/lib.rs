//! Uninterpreted-function tables for the Kani models (Ackermann style).
//!
//! Every call appends exactly one row `(tag, a, b, out)` with `out` nondeterministic and
//! `assume`s functional consistency (and, for the hash table, injectivity) against all
//! earlier rows.  The row counter therefore depends only on the *number* of calls, which
//! harnesses keep equal on both sides of data-dependent branches.
//!
//! Two tables:
//!  * HASH  — collision-free across *all* hash tags (domain separated): distinct
//!            (tag,a,b) keys give outputs that differ on their low 160 bits when either row
//!            is a truncated byte-hash row, and differ as 256-bit words otherwise.
//!  * ARITH — field operations that are not computed exactly (mul, pow, div): functional
//!            consistency plus the cancellation laws of a field, selected per tag.
#![no_std]
extern crate alloc;

pub type W = [u64; 4];

#[inline(always)]
pub fn weq(a: &W, b: &W) -> bool {
    a[0] == b[0] && a[1] == b[1] && a[2] == b[2] && a[3] == b[3]
}
#[inline(always)]
fn low160_eq(a: &W, b: &W) -> bool {
    a[0] == b[0] && a[1] == b[1] && (a[2] as u32) == (b[2] as u32)
}

pub const P: W = [1, 0, 0, 0x0800000000000011];
#[inline(always)]
pub fn lt_p(a: &W) -> bool {
    a[3] < P[3] || (a[3] == P[3] && a[2] == 0 && a[1] == 0 && a[0] == 0)
}

#[cfg(kani)]
pub fn any_word() -> W {
    [kani::any(), kani::any(), kani::any(), kani::any()]
}
#[cfg(kani)]
pub fn any_felt_word() -> W {
    let w = any_word();
    kani::assume(lt_p(&w));
    w
}

// ---------------------------------------------------------------- hash table
pub const HCAP: usize = 96;
// All mutable model state lives in ONE static per table whose initial content is unique
// (magic words).  Kani 0.68 was observed to share the allocation of a zero-initialised
// `static mut` with an unrelated constant of equal content (alloc::raw_vec ZERO_CAP and a
// `static mut N: usize = 0`): bumping the counter changed `Vec::new()`'s capacity.
struct HashTab {
    magic: u64,
    n: usize,
    tag: [u8; HCAP],
    a: [W; HCAP],
    b: [W; HCAP],
    v: [W; HCAP],
    trunc: [bool; HCAP],
    magic2: u64,
}
static mut HT: HashTab = HashTab {
    magic: 0x5eed_7ab1_e000_0001,
    n: 0,
    tag: [0; HCAP],
    a: [[0; 4]; HCAP],
    b: [[0; 4]; HCAP],
    v: [[0; 4]; HCAP],
    trunc: [false; HCAP],
    magic2: 0x5eed_7ab1_e000_0002,
};

pub mod tag {
    pub const POSEIDON2: u8 = 1;
    pub const PEDERSEN: u8 = 2;
    pub const POSEIDON_MANY_STEP: u8 = 3;
    pub const POSEIDON_MANY_END: u8 = 4;
    pub const KECCAK64: u8 = 5;
    pub const KECCAK_STEP: u8 = 6;
    pub const KECCAK_END: u8 = 7;
    pub const BLAKE64: u8 = 8;
    pub const BLAKE_STEP: u8 = 9;
    pub const BLAKE_END: u8 = 10;
    // arithmetic
    pub const MUL: u8 = 32;
    pub const POW: u8 = 33;
    pub const DIV: u8 = 34;
}

/// `felt_out`: output constrained to a canonical field element (< p).
/// `trunc`: byte-hash digest of which callers keep only the low 160/248 bits; injectivity
/// is then assumed on the low 160 bits.
#[cfg(kani)]
pub fn hash2(t: u8, a: W, b: W, felt_out: bool, trunc: bool) -> W {
    unsafe {
        let out = if felt_out { any_felt_word() } else { any_word() };
        let n = HT.n;
        assert!(n < HCAP, "MODEL-LIMIT: hash UF table full");
        let mut i = 0;
        while i < n {
            let same = HT.tag[i] == t && weq(&HT.a[i], &a) && weq(&HT.b[i], &b);
            if same {
                kani::assume(weq(&HT.v[i], &out));
            } else if trunc || HT.trunc[i] {
                kani::assume(!low160_eq(&HT.v[i], &out));
            } else {
                kani::assume(!weq(&HT.v[i], &out));
            }
            i += 1;
        }
        HT.tag[n] = t;
        HT.a[n] = a;
        HT.b[n] = b;
        HT.v[n] = out;
        HT.trunc[n] = trunc;
        HT.n = n + 1;
        out
    }
}
pub fn hash_calls() -> usize {
    unsafe { HT.n }
}

// --------------------------------------------------------------- arith table
pub const ACAP: usize = 64;
struct ArithTab {
    magic: u64,
    cheap_mul: bool,
    n: usize,
    tag: [u8; ACAP],
    a: [W; ACAP],
    b: [W; ACAP],
    v: [W; ACAP],
    magic2: u64,
}
static mut AT: ArithTab = ArithTab {
    magic: 0x5eed_7ab1_e000_0003,
    cheap_mul: false,
    n: 0,
    tag: [0; ACAP],
    a: [[0; 4]; ACAP],
    b: [[0; 4]; ACAP],
    v: [[0; 4]; ACAP],
    magic2: 0x5eed_7ab1_e000_0004,
};

const ZERO: W = [0; 4];

/// Every call appends a row (callers always call, also for operands whose result they know
/// exactly, and then `assume` the exact value) so the row count is path independent.
/// Laws assumed: functional consistency; MUL: `out == 0 <=> a == 0 || b == 0`, cancellation
/// on a shared non-zero operand (operands arrive ordered a <= b); DIV (b != 0 guaranteed by
/// the caller): `out == 0 <=> a == 0`, cancellation on a shared non-zero operand.
#[cfg(kani)]
pub fn arith2(t: u8, a: W, b: W) -> W {
    unsafe {
        let out = any_felt_word();
        let az = weq(&a, &ZERO);
        let bz = weq(&b, &ZERO);
        if t == tag::MUL {
            kani::assume(weq(&out, &ZERO) == (az || bz));
        } else if t == tag::DIV {
            kani::assume(weq(&out, &ZERO) == az);
        }
        let n = AT.n;
        assert!(n < ACAP, "MODEL-LIMIT: arith UF table full");
        let mut i = 0;
        while i < n {
            if AT.tag[i] == t {
                let ea = weq(&AT.a[i], &a);
                let eb = weq(&AT.b[i], &b);
                if ea && eb {
                    kani::assume(weq(&AT.v[i], &out));
                } else if t == tag::MUL {
                    let xa = weq(&AT.a[i], &b);
                    let xb = weq(&AT.b[i], &a);
                    if (ea && !az) || (eb && !bz) || (xa && !bz) || (xb && !az) {
                        kani::assume(!weq(&AT.v[i], &out));
                    }
                } else if t == tag::DIV {
                    if (ea && !az) || eb {
                        kani::assume(!weq(&AT.v[i], &out));
                    }
                }
            }
            i += 1;
        }
        AT.tag[n] = t;
        AT.a[n] = a;
        AT.b[n] = b;
        AT.v[n] = out;
        AT.n = n + 1;
        out
    }
}
/// Harness switch: when set, products by powers of two / small constants are NOT computed
/// exactly (they stay uninterpreted, which over-approximates the real product: proofs remain
/// sound, counterexamples must replay).  For structural harnesses over fully symbolic felts.
pub fn set_cheap_mul(b: bool) {
    unsafe { AT.cheap_mul = b }
}
pub fn cheap_mul() -> bool {
    unsafe { AT.cheap_mul }
}
pub fn arith_calls() -> usize {
    unsafe { AT.n }
}

// ------------------------------------------------------------ byte-hash model
pub mod digest_model {
    extern crate alloc;
    use super::{tag, W};
    use alloc::vec::Vec;

    /// FAMILY 0 = Keccak-256, 1 = Blake2s-256
    pub struct Hasher<const FAMILY: u8> {
        data: Vec<u8>,
    }
    pub struct Output(pub [u8; 32]);
    impl Output {
        pub fn as_slice(&self) -> &[u8] {
            &self.0
        }
        pub fn to_vec(&self) -> Vec<u8> {
            self.0.to_vec()
        }
    }
    impl core::ops::Deref for Output {
        type Target = [u8];
        fn deref(&self) -> &[u8] {
            &self.0
        }
    }
    pub trait Digest {
        fn new() -> Self;
        fn update(&mut self, data: impl AsRef<[u8]>);
        fn finalize(self) -> Output;
    }
    fn word_at(d: &[u8], off: usize) -> W {
        // big-endian 32-byte word, zero padded on the right if the data ends early
        let mut l = [0u64; 4];
        let mut i = 0;
        while i < 4 {
            let mut v: u64 = 0;
            let mut j = 0;
            while j < 8 {
                let k = off + i * 8 + j;
                let b = if k < d.len() { d[k] } else { 0 };
                v = (v << 8) | b as u64;
                j += 1;
            }
            l[3 - i] = v;
            i += 1;
        }
        l
    }
    fn word_bytes(a: &W) -> [u8; 32] {
        let mut out = [0u8; 32];
        let mut i = 0;
        while i < 4 {
            let b = a[3 - i].to_be_bytes();
            let mut j = 0;
            while j < 8 {
                out[i * 8 + j] = b[j];
                j += 1;
            }
            i += 1;
        }
        out
    }
    impl<const FAMILY: u8> Digest for Hasher<FAMILY> {
        fn new() -> Self {
            Hasher { data: Vec::new() }
        }
        fn update(&mut self, data: impl AsRef<[u8]>) {
            self.data.extend_from_slice(data.as_ref());
        }
        #[cfg(kani)]
        fn finalize(self) -> Output {
            let (t64, tstep, tend) = if FAMILY == 0 {
                (tag::KECCAK64, tag::KECCAK_STEP, tag::KECCAK_END)
            } else {
                (tag::BLAKE64, tag::BLAKE_STEP, tag::BLAKE_END)
            };
            let d = &self.data;
            let n = d.len();
            if n == 64 {
                let w = super::hash2(t64, word_at(d, 0), word_at(d, 32), false, true);
                return Output(word_bytes(&w));
            }
            let mut h: W = [0; 4];
            let mut off = 0;
            while off < n {
                h = super::hash2(tstep, h, word_at(d, off), false, true);
                off += 32;
            }
            let w = super::hash2(tend, h, [n as u64, 0, 0, 0], false, true);
            Output(word_bytes(&w))
        }
        #[cfg(not(kani))]
        fn finalize(self) -> Output {
            let _ = (tag::KECCAK64, word_bytes(&[0; 4]), word_at(&self.data, 0));
            unimplemented!("symbolic-only model")
        }
    }
}
