//! Uninterpreted-function tables for the Kani models (Ackermann style).
//!
//! Every call appends exactly one row `(tag, a, b, out)` with `out` nondeterministic and
//! `assume`s functional consistency (and, for the hash table, injectivity) against all
//! earlier rows.  The row counter therefore depends only on the *number* of calls, which
//! harnesses keep equal on both sides of data-dependent branches.
//!
//! Two tables:
//!  * HASH  — collision-free across *all* hash tags (domain separated): distinct
//!            (tag,a,b) keys give outputs that differ on their low 160 bits when either row
//!            is a truncated byte-hash row, and differ as 256-bit words otherwise.
//!  * ARITH — field operations that are not computed exactly (mul, pow, div): functional
//!            consistency plus the cancellation laws of a field, selected per tag.
#![no_std]
extern crate alloc;

pub type W = [u64; 4];

#[inline(always)]
pub fn weq(a: &W, b: &W) -> bool {
    a[0] == b[0] && a[1] == b[1] && a[2] == b[2] && a[3] == b[3]
}
#[inline(always)]
fn low160_eq(a: &W, b: &W) -> bool {
    a[0] == b[0] && a[1] == b[1] && (a[2] as u32) == (b[2] as u32)
}

pub const P: W = [1, 0, 0, 0x0800000000000011];
#[inline(always)]
pub fn lt_p(a: &W) -> bool {
    a[3] < P[3] || (a[3] == P[3] && a[2] == 0 && a[1] == 0 && a[0] == 0)
}

#[cfg(kani)]
pub fn any_word() -> W {
    [kani::any(), kani::any(), kani::any(), kani::any()]
}
#[cfg(kani)]
pub fn any_felt_word() -> W {
    let w = any_word();
    kani::assume(lt_p(&w));
    w
}

// ---------------------------------------------------------------- hash table
pub const HCAP: usize = 96;
static mut HN: usize = 0;
static mut HTAG: [u8; HCAP] = [0; HCAP];
static mut HA: [W; HCAP] = [[0; 4]; HCAP];
static mut HB: [W; HCAP] = [[0; 4]; HCAP];
static mut HV: [W; HCAP] = [[0; 4]; HCAP];
static mut HTRUNC: [bool; HCAP] = [false; HCAP];

pub mod tag {
    pub const POSEIDON2: u8 = 1;
    pub const PEDERSEN: u8 = 2;
    pub const POSEIDON_MANY_STEP: u8 = 3;
    pub const POSEIDON_MANY_END: u8 = 4;
    pub const KECCAK64: u8 = 5;
    pub const KECCAK_STEP: u8 = 6;
    pub const KECCAK_END: u8 = 7;
    pub const BLAKE64: u8 = 8;
    pub const BLAKE_STEP: u8 = 9;
    pub const BLAKE_END: u8 = 10;
    // arithmetic
    pub const MUL: u8 = 32;
    pub const POW: u8 = 33;
    pub const DIV: u8 = 34;
}

/// `felt_out`: output constrained to a canonical field element (< p).
/// `trunc`: byte-hash digest of which callers keep only the low 160/248 bits; injectivity
/// is then assumed on the low 160 bits.
#[cfg(kani)]
pub fn hash2(t: u8, a: W, b: W, felt_out: bool, trunc: bool) -> W {
    unsafe {
        let out = if felt_out { any_felt_word() } else { any_word() };
        let n = HN;
        assert!(n < HCAP, "MODEL-LIMIT: hash UF table full");
        let mut i = 0;
        while i < n {
            let same = HTAG[i] == t && weq(&HA[i], &a) && weq(&HB[i], &b);
            if same {
                kani::assume(weq(&HV[i], &out));
            } else if trunc || HTRUNC[i] {
                kani::assume(!low160_eq(&HV[i], &out));
            } else {
                kani::assume(!weq(&HV[i], &out));
            }
            i += 1;
        }
        HTAG[n] = t;
        HA[n] = a;
        HB[n] = b;
        HV[n] = out;
        HTRUNC[n] = trunc;
        HN = n + 1;
        out
    }
}
pub fn hash_calls() -> usize {
    unsafe { HN }
}

// --------------------------------------------------------------- arith table
pub const ACAP: usize = 64;
static mut AN: usize = 0;
static mut ATAG: [u8; ACAP] = [0; ACAP];
static mut AA: [W; ACAP] = [[0; 4]; ACAP];
static mut AB: [W; ACAP] = [[0; 4]; ACAP];
static mut AV: [W; ACAP] = [[0; 4]; ACAP];

const ZERO: W = [0; 4];

/// Every call appends a row (callers always call, also for operands whose result they know
/// exactly, and then `assume` the exact value) so the row count is path independent.
/// Laws assumed: functional consistency; MUL: `out == 0 <=> a == 0 || b == 0`, cancellation
/// on a shared non-zero operand (operands arrive ordered a <= b); DIV (b != 0 guaranteed by
/// the caller): `out == 0 <=> a == 0`, cancellation on a shared non-zero operand.
#[cfg(kani)]
pub fn arith2(t: u8, a: W, b: W) -> W {
    unsafe {
        let out = any_felt_word();
        let az = weq(&a, &ZERO);
        let bz = weq(&b, &ZERO);
        if t == tag::MUL {
            kani::assume(weq(&out, &ZERO) == (az || bz));
        } else if t == tag::DIV {
            kani::assume(weq(&out, &ZERO) == az);
        }
        let n = AN;
        assert!(n < ACAP, "MODEL-LIMIT: arith UF table full");
        let mut i = 0;
        while i < n {
            if ATAG[i] == t {
                let ea = weq(&AA[i], &a);
                let eb = weq(&AB[i], &b);
                if ea && eb {
                    kani::assume(weq(&AV[i], &out));
                } else if t == tag::MUL {
                    let xa = weq(&AA[i], &b);
                    let xb = weq(&AB[i], &a);
                    if (ea && !az) || (eb && !bz) || (xa && !bz) || (xb && !az) {
                        kani::assume(!weq(&AV[i], &out));
                    }
                } else if t == tag::DIV {
                    if (ea && !az) || eb {
                        kani::assume(!weq(&AV[i], &out));
                    }
                }
            }
            i += 1;
        }
        ATAG[n] = t;
        AA[n] = a;
        AB[n] = b;
        AV[n] = out;
        AN = n + 1;
        out
    }
}
pub fn arith_calls() -> usize {
    unsafe { AN }
}

// ------------------------------------------------------------ byte-hash model
pub mod digest_model {
    extern crate alloc;
    use super::{tag, W};
    use alloc::vec::Vec;

    /// FAMILY 0 = Keccak-256, 1 = Blake2s-256
    pub struct Hasher<const FAMILY: u8> {
        data: Vec<u8>,
    }
    pub struct Output(pub [u8; 32]);
    impl Output {
        pub fn as_slice(&self) -> &[u8] {
            &self.0
        }
        pub fn to_vec(&self) -> Vec<u8> {
            self.0.to_vec()
        }
    }
    impl core::ops::Deref for Output {
        type Target = [u8];
        fn deref(&self) -> &[u8] {
            &self.0
        }
    }
    pub trait Digest {
        fn new() -> Self;
        fn update(&mut self, data: impl AsRef<[u8]>);
        fn finalize(self) -> Output;
    }
    fn word_at(d: &[u8], off: usize) -> W {
        // big-endian 32-byte word, zero padded on the right if the data ends early
        let mut l = [0u64; 4];
        let mut i = 0;
        while i < 4 {
            let mut v: u64 = 0;
            let mut j = 0;
            while j < 8 {
                let k = off + i * 8 + j;
                let b = if k < d.len() { d[k] } else { 0 };
                v = (v << 8) | b as u64;
                j += 1;
            }
            l[3 - i] = v;
            i += 1;
        }
        l
    }
    fn word_bytes(a: &W) -> [u8; 32] {
        let mut out = [0u8; 32];
        let mut i = 0;
        while i < 4 {
            let b = a[3 - i].to_be_bytes();
            let mut j = 0;
            while j < 8 {
                out[i * 8 + j] = b[j];
                j += 1;
            }
            i += 1;
        }
        out
    }
    impl<const FAMILY: u8> Digest for Hasher<FAMILY> {
        fn new() -> Self {
            Hasher { data: Vec::new() }
        }
        fn update(&mut self, data: impl AsRef<[u8]>) {
            self.data.extend_from_slice(data.as_ref());
        }
        #[cfg(kani)]
        fn finalize(self) -> Output {
            let (t64, tstep, tend) = if FAMILY == 0 {
                (tag::KECCAK64, tag::KECCAK_STEP, tag::KECCAK_END)
            } else {
                (tag::BLAKE64, tag::BLAKE_STEP, tag::BLAKE_END)
            };
            let d = &self.data;
            let n = d.len();
            if n == 64 {
                let w = super::hash2(t64, word_at(d, 0), word_at(d, 32), false, true);
                return Output(word_bytes(&w));
            }
            let mut h: W = [0; 4];
            let mut off = 0;
            while off < n {
                h = super::hash2(tstep, h, word_at(d, off), false, true);
                off += 32;
            }
            let w = super::hash2(tend, h, [n as u64, 0, 0, 0], false, true);
            Output(word_bytes(&w))
        }
        #[cfg(not(kani))]
        fn finalize(self) -> Output {
            let _ = (tag::KECCAK64, word_bytes(&[0; 4]), word_at(&self.data, 0));
            unimplemented!("symbolic-only model")
        }
    }
}
