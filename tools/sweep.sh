#!/bin/bash
# Run every claimed check's quick command on /repo, sequentially; summary in /tmp/sweep.txt
cd /verif
: > /tmp/sweep.txt
for p in $(python3 -c "import json;print(' '.join(c['property_id'] for c in json.load(open('MANIFEST.json'))['checks']))"); do
  s=$(date +%s)
  ./check $p --tier ${1:-quick} > /tmp/sweep_$p.log 2>&1
  rc=$?
  e=$(date +%s)
  echo "$p exit=$rc secs=$((e-s))" >> /tmp/sweep.txt
done
