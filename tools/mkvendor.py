import os, sys, hashlib, json, shutil, glob
out = sys.argv[1]
os.makedirs(out, exist_ok=True)
reg = os.path.expanduser('~/.cargo/registry')
n=0
for srcdir in sorted(glob.glob(reg+'/src/*')):
    tag = os.path.basename(srcdir)
    for d in sorted(os.listdir(srcdir)):
        crate = os.path.join(reg,'cache',tag,d+'.crate')
        if not os.path.exists(crate): continue
        dst = os.path.join(out,d)
        if os.path.exists(dst): continue
        shutil.copytree(os.path.join(srcdir,d), dst, symlinks=True)
        h = hashlib.sha256(open(crate,'rb').read()).hexdigest()
        json.dump({"files":{}, "package":h}, open(os.path.join(dst,'.cargo-checksum.json'),'w'))
        n+=1
print(n)
