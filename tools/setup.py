#!/usr/bin/env python3
"""setup_cmd tail: sanity-check the tool chain and pre-build the default Kani workspace."""
import os, sys
sys.path.insert(0, os.path.join(os.path.dirname(os.path.abspath(__file__)), "..", "lib"))
from common import *
import e1
ensure_vendor()
ok, msg = e1.fidelity_gate()
print(msg)
if not ok:
    sys.exit(1)
ws = e1.workspace("kani", e1.DEFAULT_FEATURES)
rc, out, secs = sh(["cargo", "kani", "--features", e1.DEFAULT_FEATURES, "--only-codegen"], cwd=ws, timeout=1800)
print("kani codegen rc=%s in %.0fs" % (rc, secs))
if rc != 0:
    print("\n".join(out.splitlines()[-40:]))
    sys.exit(1)
