#!/usr/bin/env python3
"""Confirm a seeded change (seeded/<id>/patch.diff + demo_*.rs) in a scratch worktree, then run
our checks against it.   usage: seedcheck.py <seed-dir-name> <demo-crate-dir> [--checks "C05 --only length" ...]
 1. worktree of /repo HEAD under /tmp, apply patch
 2. existing suite passes with the patch;  demo fails with the patch, passes without
 3. each check must exit 1 (VIOLATION) with VERIF_REPO pointing to the patched worktree
The worktree and its build output are removed at the end."""
import json, os, shutil, subprocess, sys, time
V = os.path.dirname(os.path.dirname(os.path.abspath(__file__)))
def sh(cmd, cwd=None, env=None, timeout=7200):
    p = subprocess.run(cmd, cwd=cwd, env=env, shell=isinstance(cmd, str), stdout=subprocess.PIPE, stderr=subprocess.STDOUT, timeout=timeout)
    return p.returncode, p.stdout.decode("utf-8", "replace")
def main():
    seed = sys.argv[1]
    crate = sys.argv[2]            # e.g. crates/commitment
    checks = []
    feats = ""
    a = sys.argv[3:]
    skip_confirm = False
    while a:
        if a[0] == "--checks":
            checks = a[1:]
            break
        if a[0] == "--features":
            feats = a[1]; a = a[2:]; continue
        if a[0] == "--skip-confirm":
            skip_confirm = True; a = a[1:]; continue
        a = a[1:]
    sd = os.path.join(V, "seeded", seed)
    wt = "/tmp/seed_wt_%s" % seed
    sh("git -C /repo worktree remove --force %s" % wt)
    rc, out = sh("git -C /repo worktree add -f %s HEAD" % wt)
    assert rc == 0, out
    res = {"seed": seed, "ran": []}
    try:
        rc, out = sh("git apply %s/patch.diff" % sd, cwd=wt)
        assert rc == 0, "patch does not apply: " + out
        demos = [f for f in os.listdir(sd) if f.startswith("demo_") and f.endswith(".rs")]
        if not skip_confirm:
            rc, out = sh("cargo test --workspace --offline 2>&1 | grep -E '^test result|FAILED|error'", cwd=wt)
            ok_suite = "test result: FAILED" not in out and "error[" not in out and "could not compile" not in out and "test result: ok" in out
            res["suite_with_patch_passes"] = ok_suite
            res["ran"].append("cargo test --workspace --offline (patched): " + ("pass" if ok_suite else "FAIL"))
            os.makedirs(os.path.join(wt, crate, "tests"), exist_ok=True)
            for d in demos:
                shutil.copy(os.path.join(sd, d), os.path.join(wt, crate, "tests", d))
            pkg = {"crates/commitment": "swiftness_commitment", "crates/fri": "swiftness_fri", "crates/stark": "swiftness_stark", "crates/air": "swiftness_air", "crates/pow": "swiftness_pow", "crates/transcript": "swiftness_transcript"}[crate]
            fl = (" --features " + feats) if feats else ""
            for d in demos:
                t = d[:-3]
                rc1, out1 = sh("cargo test -p %s --offline --test %s%s 2>&1 | tail -5" % (pkg, t, fl), cwd=wt)
                fails_with = "test result: FAILED" in out1 or "panicked" in out1
                sh("git apply -R %s/patch.diff" % sd, cwd=wt)
                rc2, out2 = sh("cargo test -p %s --offline --test %s%s 2>&1 | tail -5" % (pkg, t, fl), cwd=wt)
                passes_without = "test result: ok" in out2
                sh("git apply %s/patch.diff" % sd, cwd=wt)
                res["demo_%s_fails_with_patch" % t] = fails_with
                res["demo_%s_passes_without_patch" % t] = passes_without
                res["ran"].append("cargo test -p %s --test %s%s: with patch %s, without patch %s" % (pkg, t, fl, "FAIL" if fails_with else "pass(!)", "pass" if passes_without else "FAIL(!)"))
                os.remove(os.path.join(wt, crate, "tests", d))
        env = dict(os.environ); env["VERIF_REPO"] = wt
        res["checks"] = []
        for c in checks:
            t0 = time.time()
            rc, out = sh(os.path.join(V, "check") + " " + c, cwd=V, env=env)
            lines = [l for l in out.splitlines() if l.startswith("VIOLATION") or "violated" in l or "inconclusive" in l or "INCONCLUSIVE" in l]
            res["checks"].append({"cmd": "./check " + c, "exit": rc, "s": round(time.time() - t0), "lines": lines[:8]})
            res["ran"].append("VERIF_REPO=<patched> ./check %s -> exit %d" % (c, rc))
    finally:
        sh("git -C /repo worktree remove --force %s" % wt)
        shutil.rmtree(wt, ignore_errors=True)
        # remove the workspaces built for this scratch tree
        import glob
        for d in glob.glob(os.path.join(V, ".build", "ws", "*")):
            try:
                if wt in open(os.path.join(d, "Cargo.toml")).read():
                    shutil.rmtree(d, ignore_errors=True)
            except Exception:
                pass
    print(json.dumps(res, indent=1))
main()
