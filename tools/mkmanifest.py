#!/usr/bin/env python3
"""Regenerate /verif/MANIFEST.json from lib/props.py (claimed checks) and NOT_APPLICABLE below."""
import json, os, sys
sys.path.insert(0, os.path.join(os.path.dirname(os.path.abspath(__file__)), "..", "lib"))
import props

ALL = ["C%02d" % i for i in range(1, 20)]
NOT_APPLICABLE = {
    "C03": "statement about ~25 concrete proof files x a build matrix: no symbolic input to quantify over and the real hashes cannot be encoded; the symbolic fragments it rests on are claimed under C04/C05/C09/C13/C14 (DESIGN.md C03)",
    "C19": "regex/serde_json/string parsing in proof_parser and cli (which do not even build offline here): text-processing loops behind library internals are out of reach of bounded symbolic execution; nothing arithmetic for the SMT route (DESIGN.md C19)",
}
NOT_READY = set()   # obligations still being built (E2s); remove when smt/run.py serves them
PENDING = "check not built yet in this session (claimed in DESIGN.md; will move to checks when its harness is committed)"

def main():
    checks = []
    for pid in ALL:
        if pid not in props.PROPS or pid in NOT_READY:
            continue
        P = props.PROPS[pid]
        engines = sorted({o["engine"] for o in P["obligations"]})
        checks.append({
            "property_id": pid,
            "quick_cmd": "./check %s --tier quick" % pid,
            "thorough_cmd": "./check %s --tier thorough" % pid,
            "evidence_file": "evidence/%s.json" % pid,
            "replay_cmd_template": "./check --replay {path}",
            "engine": "+".join("kani-model" if e == "e1" else "felt-smt" for e in engines),
            "level_claimed": {
                "category": P["level"],
                "text": P.get("level_text", "Bounded symbolic verification: every obligation is a solver verdict (CBMC/SAT through Kani on the compiled real crates, or z3 on terms regenerated from the source) over ALL inputs within the stated bounds, with unwinding assertions and a reachability witness; counterexamples are replayed natively. Outside the bounds nothing is claimed."),
                "design_ref": "DESIGN.md section 2, " + pid,
            },
            "level_note": P.get("level_note", "Trusted base: the model libraries under /verif/models (hashes and general field mul/pow/div are uninterpreted functions with stated laws; exact kernels checked differentially), Kani/CBMC/z3, the stated shape bounds. Clauses outside the claim are listed in the evidence file."),
            "technique": P.get("technique", "bounded model checking of the real Rust code with Kani/CBMC (SAT), symbolic inputs, model libraries for field arithmetic and hashes"),
        })
    na = []
    for pid in ALL:
        if pid in props.PROPS and pid not in NOT_READY:
            continue
        na.append({"property_id": pid, "reason": NOT_APPLICABLE.get(pid, PENDING)})
    m = {
        "version": 1,
        "setup_cmd": "python3 tools/mkvendor.py .vendor && python3 tools/setup.py",
        "hooks": {
            "guard": "swiftness_verif",
            "enable": "no source hooks are needed: harnesses live out of tree (/verif/harness) and reach the code through pub items; the guard name is reserved",
            "baseline_off_cmd": "cd /repo && cargo test --workspace --no-fail-fast --offline",
            "source_commits": [],
            "add_only": True,
        },
        "engines": [
            {"name": "kani-model", "path": "harness/ models/ lib/e1.py", "serves_properties": [c["property_id"] for c in checks if "kani" in c["engine"]],
             "kind_free_text": "Kani 0.68 / CBMC 6.11 (CaDiCaL) over the real swiftness crates via path dependencies, linked against model crates for field arithmetic, big integers and hashes; native replay crate against the real libraries"},
            {"name": "felt-smt", "path": "smt/", "serves_properties": [c["property_id"] for c in checks if "smt" in c["engine"]],
             "kind_free_text": "Python front end that parses a Rust subset from /repo on every run and decides ring identities with z3 (cvc5 cross-check), native replay through replay_e2"},
        ],
        "checks": checks,
        "not_applicable": na,
        "notes": "See DESIGN.md. exit 0 = held within bounds; exit 1 = VIOLATION (natively reproduced); exit 2 = inconclusive (timeout, model limit, non-reproducing counterexample).",
    }
    json.dump(m, open(os.path.join(os.path.dirname(os.path.abspath(__file__)), "..", "MANIFEST.json"), "w"), indent=1)
    print("claimed:", [c["property_id"] for c in checks])

main()
