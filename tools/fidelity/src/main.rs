//! Differential test of the exact kernels of the Kani model Felt (models/starknet-types-core/
//! src/felt_core.rs, included verbatim) against the REAL starknet-types-core, on boundary values
//! and VERIF_SEED-seeded values.  Exit 0 = all agree.
#[path = "../../../models/starknet-types-core/src/felt_core.rs"]
#[allow(dead_code)]
mod fc;
use fc::W;
use starknet_types_core::felt::{Felt, NonZeroFelt};

fn to_real(w: &W) -> Felt {
    Felt::from_bytes_be(&fc::to_bytes_be(w))
}
fn from_real(f: &Felt) -> W {
    fc::word_from_be32(&f.to_bytes_be())
}
fn main() {
    let seed: u64 = std::env::var("VERIF_SEED").ok().and_then(|s| s.parse().ok()).unwrap_or(0);
    let mut rng = seed ^ 0x9e3779b97f4a7c15;
    let mut next = move || {
        rng ^= rng << 13;
        rng ^= rng >> 7;
        rng ^= rng << 17;
        rng
    };
    let p = fc::P;
    let mut vals: Vec<W> = vec![[0, 0, 0, 0], [1, 0, 0, 0], [2, 0, 0, 0], [3, 0, 0, 0]];
    vals.push(fc::sub256(&p, &[1, 0, 0, 0]).0);
    vals.push(fc::sub256(&p, &[2, 0, 0, 0]).0);
    for k in [1u32, 16, 31, 32, 33, 63, 64, 65, 127, 128, 129, 191, 192, 193, 250, 251] {
        let t = fc::pow2(k);
        vals.push(t);
        vals.push(fc::sub256(&t, &[1, 0, 0, 0]).0);
        if k < 251 {
            vals.push(fc::add256(&t, &[1, 0, 0, 0]).0);
        }
    }
    for _ in 0..200 {
        let w = [next(), next(), next(), next() & 0x07ff_ffff_ffff_ffff];
        vals.push(w);
    }
    let mut n = 0u64;
    let mut bad = 0u64;
    let mut chk = |name: &str, ok: bool| {
        n += 1;
        if !ok {
            bad += 1;
            eprintln!("MISMATCH {}", name);
        }
    };
    for a in &vals {
        assert!(fc::lt(a, &p));
        let ra = to_real(a);
        chk("roundtrip", from_real(&ra) == *a);
        chk("neg", from_real(&(-ra)) == fc::neg_mod(a));
        chk("bits", ra.bits() == if *a == [0, 0, 0, 0] { 0 } else { fc::bit_len(a) as usize });
        for k in [0u32, 1, 5, 63, 64, 65, 128, 200, 251] {
            let d = NonZeroFelt::try_from(to_real(&fc::pow2(k))).unwrap();
            let (q, r) = ra.div_rem(&d);
            chk("shr", from_real(&q) == fc::shr(a, k));
            chk("low_bits", from_real(&r) == fc::low_bits(a, k));
            if fc::bit_len(a) + k <= 251 {
                chk("shl", from_real(&(ra * to_real(&fc::pow2(k)))) == fc::shl(a, k));
            }
            chk("pow2", from_real(&Felt::TWO.pow(k as u128)) == fc::pow2(k));
        }
        for s in [0u64, 1, 2, 3, 5, 16, 2048, 65535] {
            chk("mul_small", from_real(&(ra * Felt::from(s))) == fc::mul_small(s, 16, a));
        }
        // reduce on arbitrary 256-bit patterns derived from a
        let wide = [a[0], a[1], a[2], a[3] | 0xf000_0000_0000_0000];
        chk("reduce", from_real(&Felt::from_bytes_be(&fc::to_bytes_be(&wide))) == fc::reduce(&wide));
        for b in vals.iter().take(40) {
            let rb = to_real(b);
            chk("add", from_real(&(ra + rb)) == fc::add_mod(a, b));
            chk("sub", from_real(&(ra - rb)) == fc::sub_mod(a, b));
            chk("lt", (ra < rb) == fc::lt(a, b));
            chk("eq", (ra == rb) == fc::eq(a, b));
        }
    }
    chk("hex", from_real(&Felt::from_hex_unchecked("0x7FFFFFFFFFFFDF0FFFFFFFFFFFFFFFFFFFFFFFFFFFFFFFFFFFFFFFFFFFFFFE1"))
        == fc::from_hex("0x7FFFFFFFFFFFDF0FFFFFFFFFFFFFFFFFFFFFFFFFFFFFFFFFFFFFFFFFFFFFFE1"));
    chk("hex2", from_real(&Felt::from_hex_unchecked("800000000000011000000000000000000000000000000000000000000000000"))
        == fc::from_hex("800000000000011000000000000000000000000000000000000000000000000"));
    println!("fidelity: {} comparisons, {} mismatches (seed {})", n, bad, seed);
    std::process::exit(if bad == 0 { 0 } else { 1 });
}
