"""Engine E2 (felt-smt): run /verif/smt/run.py for a property and fold its obligations into
the property's result list."""
import json, os, sys, time
from common import *

def run(pid, tier, o, results, violations, known, known_hits, inconclusive):
    prop = o.get("prop", pid)
    out = os.path.join(BUILD, "e2", "%s-%s.json" % (prop, tier))
    os.makedirs(os.path.dirname(out), exist_ok=True)
    if os.path.exists(out):
        os.remove(out)
    env = base_env()
    env["VERIF_REPO"] = repo_path()
    env["VERIF_SEED"] = str(seed())
    log("[e2] %s: smt/run.py %s --tier %s" % (pid, prop, tier))
    cmd = ["python3-vt", os.path.join(VERIF, "smt", "run.py"), prop, "--tier", tier, "--out", out]
    if o.get("args"):
        cmd += o["args"]
    rc, txt, secs = sh(cmd, env=env, timeout=o.get("timeout", 3600))
    if rc != 0 or not os.path.exists(out):
        rec = dict(id="%s.e2" % pid, engine="felt-smt", verdict="inconclusive", wall_s=secs,
                   detail="smt/run.py failed rc=%s: %s" % (rc, txt[-1500:]))
        results.append(rec)
        inconclusive.append(rec)
        return
    j = json.load(open(out))
    o.setdefault("_assumptions", []).extend(j.get("assumptions", []))
    for ob in j["obligations"]:
        oid = ob["id"] if ob["id"].startswith(pid) else "%s.%s" % (pid, ob["id"])
        rec = dict(id=oid, engine="felt-smt", desc=ob.get("desc"), functions=ob.get("functions"),
                   bounds=ob.get("bounds"), solver=ob.get("solver"), queries=ob.get("queries"),
                   wall_s=ob.get("solver_s"), detail=(ob.get("detail") or "")[:600])
        v = ob["verdict"]
        if v == "holds":
            rec["verdict"] = "holds"
        elif v == "violated":
            rp = ob.get("replay") or {}
            rec["cex"] = ob.get("cex")
            rec["replay"] = {k: rp.get(k) for k in ("reproduced", "real_output", "expected")}
            if rp.get("reproduced"):
                from check_known import known_match
                k = known_match(known, pid, oid, ob.get("detail") or "", "")
                if k:
                    rec["verdict"] = "known-finding"
                    known_hits.append("%s: %s" % (oid, k.get("what", "")))
                else:
                    rec["verdict"] = "violated"
                    os.makedirs(os.path.join(REPLAYS, pid), exist_ok=True)
                    path = os.path.join(REPLAYS, pid, oid + ".json")
                    json.dump(dict(property=pid, obligation=oid, engine="felt-smt", repo=repo_path(),
                                   detail=ob.get("detail"), cex=ob.get("cex"), replay=rp,
                                   replay_cmd="VERIF_REPO=%s python3-vt smt/run.py %s --tier %s --out /tmp/e2.json" % (repo_path(), prop, tier)),
                              open(path, "w"), indent=1, default=str)
                    violations.append((oid, ob.get("detail"), path))
            else:
                rec["verdict"] = "inconclusive"
                rec["detail"] = "solver reports a violation that was not reproduced natively: " + rec["detail"]
                inconclusive.append(rec)
        else:
            rec["verdict"] = "inconclusive"
            inconclusive.append(rec)
        results.append(rec)
