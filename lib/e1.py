"""Engine E1: Kani/CBMC over the real swiftness crates linked against the model libraries,
with native replay of counterexamples against the real libraries."""
import json, os, re, shutil, time
from common import *

MODELS = os.path.join(VERIF, "models")
HARNESS = os.path.join(VERIF, "harness")
PATCH = "[patch.crates-io]\n" + "".join(
    '%s = { path = "%s/%s" }\n' % (c, MODELS, c)
    for c in ["starknet-types-core", "starknet-crypto", "starknet-core", "num-bigint", "sha3", "blake2"])
CARGO_CFG = '[source.crates-io]\nreplace-with = "vendored"\n[source.vendored]\ndirectory = "%s"\n[net]\noffline = true\n' % VENDOR
BIN = '[[bin]]\nname = "replay"\npath = "%s/src/bin/replay.rs"\nrequired-features = ["native"]\n' % HARNESS

KANI_FLAGS = ["--no-memory-safety-checks", "--no-overflow-checks", "--no-undefined-function-checks",
              "--no-assertion-reach-checks"]
DEFAULT_FEATURES = "recursive,keccak_160_lsb,stone5"

def workspace(kind, features):
    """kind: 'kani' | 'native'.  One workspace (and target dir) per (kind, repo, features)."""
    ensure_vendor()
    repo = repo_path()
    d = os.path.join(BUILD, "ws", "%s-%s" % (kind, key_of(kind, repo, features)))
    os.makedirs(os.path.join(d, ".cargo"), exist_ok=True)
    t = open(os.path.join(HARNESS, "Cargo.toml.in")).read()
    t = t.replace("@SRC@", os.path.join(HARNESS, "src")).replace("@REPO@", repo)
    if kind == "kani":
        t = t.replace("@BIN@", "").replace("@PATCH@", PATCH)
        t = t.replace("@EXTRA_DEPS@", 'verif-uf = { path = "%s/verif-uf" }' % MODELS)
    else:
        t = t.replace("@BIN@", BIN).replace("@PATCH@", "").replace("@EXTRA_DEPS@", "")
    p = os.path.join(d, "Cargo.toml")
    if not os.path.exists(p) or open(p).read() != t:
        open(p, "w").write(t)
    # Kani's cargo cannot see the pinned toolchain's registry cache -> merged vendor dir;
    # the native build uses the pinned toolchain and its own registry cache, like /repo's tests
    open(os.path.join(d, ".cargo", "config.toml"), "w").write(CARGO_CFG if kind == "kani" else "[net]\noffline = true\n")
    lock = os.path.join(d, "Cargo.lock")
    if not os.path.exists(lock):
        shutil.copy(os.path.join(repo, "Cargo.lock"), lock)
    return d

def _norm(h):
    return h if h.startswith("proofs::") else "proofs::" + h

KANI_LIB_C = os.path.expanduser("~/.kani/kani-0.68.0/library/kani/kani_lib.c")
CBMC_FLAGS = ["--no-malloc-may-fail", "--no-undefined-shift-check", "--no-signed-overflow-check",
              "--no-bounds-check", "--no-pointer-check", "--no-div-by-zero-check",
              "--no-self-loops-to-assumptions", "--no-pointer-primitive-check", "--object-bits", "16",
              "--sat-solver", "cadical", "--slice-formula", "--verbosity", "8", "--trace"]

def codegen(features, harnesses):
    """Compile /repo + harness crate with Kani and produce one linked goto binary per harness.
    Returns ({harness: (goto_path, unwind)}, error_text_or_None)."""
    import glob, fcntl
    ws = workspace("kani", features)
    # concurrent checks share the workspace: serialise codegen, keep per-run goto binaries
    lock = open(os.path.join(ws, ".verif.lock"), "w")
    fcntl.flock(lock, fcntl.LOCK_EX)
    try:
        return _codegen_locked(ws, features, harnesses)
    finally:
        fcntl.flock(lock, fcntl.LOCK_UN)
        lock.close()

def _codegen_locked(ws, features, harnesses):
    import glob
    rundir = os.path.join(ws, "goto", "%d-%s" % (os.getpid(), key_of(*harnesses, str(time.time()))))
    os.makedirs(rundir, exist_ok=True)
    cmd = ["cargo", "kani", "--features", features, "--only-codegen", "--exact", "--no-assertion-reach-checks"]
    for h in harnesses:
        cmd += ["--harness", _norm(h)]
    rc, out, secs = sh(cmd, cwd=ws, timeout=3600)
    if rc != 0:
        return {}, "kani codegen failed (rc=%s):\n%s" % (rc, "\n".join(l for l in out.splitlines() if "register_tool" not in l and "unstable" not in l)[-6000:])
    # one output directory per harness selection (the selection is part of the rustc arguments):
    # take the metadata whose harness list is exactly the requested set (newest if several)
    metas = sorted(glob.glob(os.path.join(ws, "target/kani/*/debug/build/vh/*/out/*.kani-metadata.json")), key=os.path.getmtime)
    meta = None
    want = set(harnesses)
    for mf in reversed(metas):
        try:
            m = json.load(open(mf))
        except Exception:
            continue
        names = {ph["pretty_name"].replace("proofs::", "") for ph in m.get("proof_harnesses", [])}
        if names == want:
            meta = m
            break
    if meta is None:
        return {}, "no kani metadata for the requested harness set %s" % sorted(want)
    r = {}
    for ph in meta.get("proof_harnesses", []):
        name = ph["pretty_name"].replace("proofs::", "")
        if name not in harnesses:
            continue
        sym = ph["goto_file"]
        mangled = ph["mangled_name"]
        goto = os.path.join(rundir, name + ".goto")
        steps = [["goto-cc", sym, KANI_LIB_C, "-o", goto],
                 ["goto-cc", goto, "--function", mangled, "-o", goto],
                 ["goto-instrument", "--drop-unused-functions", goto, goto],
                 ["goto-instrument", "--ensure-one-backedge-per-target", goto, goto]]
        for st in steps:
            rc, o, _ = sh(st, timeout=1200)
            if rc != 0:
                return {}, "goto pipeline failed: %s\n%s" % (" ".join(st), o[-2000:])
        r[name] = (goto, ph["attributes"].get("unwind_value") or 1)
    missing = [h for h in harnesses if h not in r]
    if missing:
        return r, "harnesses not found in kani metadata: %s" % missing
    return r, None

RES_RE = re.compile(r"^\[(.+)\.([a-z_]+)\.(\d+)\] line (\d+) (.*): (SUCCESS|FAILURE|UNKNOWN|ERROR)$")

def parse_cbmc(text):
    checks = []
    cur_file = cur_func = None
    for line in text.splitlines():
        if " function " in line and not line.startswith("["):
            parts = line.rsplit(" function ", 1)
            if len(parts) == 2 and not parts[0].startswith(" "):
                cur_file, cur_func = parts[0].strip(), parts[1].strip()
                continue
        m = RES_RE.match(line)
        if m:
            func, cls, n, ln, desc, st = m.groups()
            desc = re.sub(r"^\[KANI_CHECK_ID_[^\]]*\]\s*", "", desc)
            checks.append(dict(name="%s.%s.%s" % (func, cls, n), function=func, cls=cls, line=ln, description=desc,
                               status=st, file=cur_file))
    stats = {}
    m = re.search(r"size of program expression: (\d+) steps", text)
    if m:
        stats["program_steps"] = int(m.group(1))
    vc = re.findall(r"(\d+) variables, (\d+) clauses", text)
    if vc:
        stats["sat_variables"] = int(vc[0][0])
        stats["sat_clauses"] = int(vc[0][1])
        stats["sat_calls"] = len(vc)
    for k, pat in (("symex_s", r"Runtime Symex: ([0-9.e+-]+)s"), ("convert_s", r"Runtime Convert SSA: ([0-9.e+-]+)s")):
        m = re.search(pat, text)
        if m:
            stats[k] = float(m.group(1))
    stats["solver_s"] = round(sum(float(x) for x in re.findall(r"Runtime Solver: ([0-9.e+-]+)s", text)), 3)
    m = re.search(r"Generated (\d+) VCC\(s\), (\d+) remaining", text)
    if m:
        stats["vccs"] = int(m.group(1))
        stats["vccs_remaining"] = int(m.group(2))
    # traces: "Trace for <property>:" blocks; the scenario input is the harness local `raw`
    traces = {}
    blocks = re.split(r"^Trace for (.+):$", text, flags=re.M)
    for k in range(1, len(blocks) - 1, 2):
        prop = blocks[k].strip()
        blk = blocks[k + 1]
        ms = re.findall(r"^\s*raw=\{ ([^}]*) \}", blk, flags=re.M)
        if ms:
            ws = [int(x.strip().rstrip("ul")) for x in ms[-1].split(",")]
            traces[prop] = ",".join("%x" % w for w in ws)
            continue
        # small arrays are field-sensitive: one assignment per element inside kani::any_raw_array
        el = {}
        in_any = False
        for line in blk.splitlines():
            if line.startswith("State "):
                in_any = "function kani::any_raw_array::<u64" in line
                continue
            if in_any:
                m = re.match(r"^\s*var_0\[(\d+)l?\]=(\d+)ul", line)
                if m and int(m.group(1)) not in el:
                    el[int(m.group(1))] = int(m.group(2))
        if el:
            # CBMC leaves out elements the property does not depend on (sliced): any value does
            m = re.search(r"function kani::any_raw_array::<u64, (\d+)>", blk)
            n = int(m.group(1)) if m else max(el) + 1
            traces[prop] = ",".join("%x" % el.get(i, 0) for i in range(n))
    done = ("VERIFICATION SUCCESSFUL" in text) or ("VERIFICATION FAILED" in text)
    return checks, stats, traces, done

def loops_of(goto):
    """[(loop id, file, function)] of a goto binary."""
    rc, out, _ = sh(["cbmc", "--show-loops", goto], timeout=300)
    r = []
    cur = None
    for line in out.splitlines():
        m = re.match(r"^Loop (\S+):$", line)
        if m:
            cur = m.group(1)
            continue
        m = re.match(r"^\s+file (\S+) line \d+.* function (.*)$", line)
        if m and cur:
            r.append((cur, m.group(1), m.group(2).strip()))
            cur = None
    return r

def run_cbmc(goto, unwind, timeout_s, mem_gb=24, unwindset=None):
    """unwindset: {substring of the function's pretty name: bound} — per-loop bounds (all loops
    of matching functions); every other loop uses the harness-wide bound.  Unwinding assertions
    are on (CBMC 6 default), so a bound that is too small is reported, never silently truncating."""
    cmd = ["cbmc"] + CBMC_FLAGS + ["--unwind", str(unwind)]
    if unwindset:
        sel = []
        for (lid, _file, func) in loops_of(goto):
            for sub, n in unwindset.items():
                if sub in func:
                    sel.append("%s:%d" % (lid, n))
                    break
        # recursion bounds: keyed by the function symbol itself
        rc, out, _ = sh(["cbmc", "--list-goto-functions", goto], timeout=300)
        for line in out.splitlines():
            m = re.match(r"^(.*\S)\s+/\* (\S+) \*/$", line)
            if not m:
                continue
            for sub, n in unwindset.items():
                if sub.startswith("rec:") and sub[4:] in m.group(1):
                    sel.append("%s:%d" % (m.group(2), n))
                    break
        if sel:
            cmd += ["--unwindset", ",".join(sel)]
    cmd += [goto]
    rc, out, secs = sh(cmd, timeout=timeout_s, mem_gb=mem_gb)
    return rc, out, secs

import threading
class _MemBudget:
    """CBMC runs are memory bound: admit jobs while the sum of their limits fits the budget."""
    def __init__(self, total):
        self.total = total
        self.used = 0
        self.cv = threading.Condition()
    def acquire(self, n):
        n = min(n, self.total)
        with self.cv:
            while self.used + n > self.total:
                self.cv.wait()
            self.used += n
        return n
    def release(self, n):
        with self.cv:
            self.used -= n
            self.cv.notify_all()
_BUDGET = _MemBudget(int(os.environ.get("VERIF_MEM_GB", "48")))

def run_kani(features, harnesses, timeout_s, jobs=None, unwindsets=None, mems=None):
    """Decide each harness with CBMC.  Returns (dict harness -> result dict, raw text)."""
    from concurrent.futures import ThreadPoolExecutor
    harnesses = list(harnesses)
    res = {}
    t0 = time.time()
    gotos, err = codegen(features, harnesses)
    cg = time.time() - t0
    if err:
        for h in harnesses:
            res[h] = {"status": "error", "detail": err, "wall_s": cg}
        return res, err
    jobs = jobs or min(len(harnesses), int(os.environ.get("VERIF_JOBS", "12")))
    tmo = timeout_s if isinstance(timeout_s, dict) else {h: timeout_s for h in harnesses}
    def one(h):
        goto, unwind = gotos[h]
        want = (mems or {}).get(h) or 8
        got = _BUDGET.acquire(want)
        try:
            rc, out, secs = run_cbmc(goto, unwind, tmo[h], mem_gb=got, unwindset=(unwindsets or {}).get(h))
        finally:
            _BUDGET.release(got)
        return h, rc, out, secs
    raw = []
    with ThreadPoolExecutor(max_workers=jobs) as ex:
        for h, rc, out, secs in ex.map(one, harnesses):
            checks, stats, traces, done = parse_cbmc(out)
            raw.append(out[-3000:])
            r = {"wall_s": round(secs, 1), "cbmc": stats, "n_checks": len([c for c in checks if c["cls"] != "reachability_check"])}
            if rc == -9 and secs >= tmo[h] - 1:
                r.update(status="timeout", detail="cbmc exceeded %ds" % tmo[h])
            elif rc == -9:
                r.update(status="error", detail="cbmc was killed (SIGKILL after %.0fs): out of memory" % secs)
            elif not done:
                tail = "\n".join(out.splitlines()[-15:])
                r.update(status="error", detail="cbmc did not finish (rc=%s; out of memory?)\n%s" % (rc, tail))
            else:
                failed, wit, unwindf, unsupported = [], [], [], []
                wit_input = None
                for c in checks:
                    if c["cls"] == "reachability_check":
                        continue
                    if c["cls"] == "cover":
                        if c["description"] == "witness":
                            wit.append("Satisfied" if c["status"] == "FAILURE" else "Unsatisfiable")
                            if c["status"] == "FAILURE":
                                wit_input = traces.get(c["name"])
                        continue
                    if c["status"] == "SUCCESS":
                        continue
                    if c["cls"] == "unwind" or "unwinding assertion" in c["description"]:
                        unwindf.append(c)
                    elif c["cls"] == "unsupported_construct":
                        unsupported.append(c)
                    else:
                        failed.append(c)
                funcs = sorted({c["function"] for c in checks if (c.get("file") or "").startswith(repo_path())})
                r.update(witness=wit, functions=funcs, witness_input=wit_input)
                if unwindf:
                    r.update(status="failure", failed=[dict(description="unwinding assertion: " + c["description"], function=c["function"],
                                                            file=c["file"], line=c["line"], category="unwind", name=c["name"],
                                                            input=traces.get(c["name"])) for c in unwindf] +
                                                      [dict(description=c["description"], function=c["function"], file=c["file"],
                                                            line=c["line"], category=c["cls"], name=c["name"],
                                                            input=traces.get(c["name"])) for c in failed])
                elif unsupported:
                    r.update(status="error", detail="reachable unsupported construct: " + "; ".join(c["description"] for c in unsupported)[:500])
                elif failed:
                    r.update(status="failure", failed=[dict(description=c["description"], function=c["function"], file=c["file"],
                                                            line=c["line"], category=c["cls"], name=c["name"],
                                                            input=traces.get(c["name"])) for c in failed])
                else:
                    r.update(status="success", failed=[])
            res[h] = r
    return res, "\n".join(raw)

def build_native(features):
    ws = workspace("native", features)
    env = base_env()
    env["RUSTUP_TOOLCHAIN"] = "1.82.0"
    rc, out, secs = sh(["cargo", "build", "--offline", "--features", features + ",native", "--bin", "replay"],
                       cwd=ws, env=env, timeout=1800)
    if rc != 0:
        return None, out
    return os.path.join(ws, "target", "debug", "replay"), out

def native_hang(features, scenario, words, seconds=20):
    """True if the scenario does not finish natively within `seconds` on this input."""
    exe, out = build_native(features)
    if exe is None:
        return False
    rc, out, secs = sh([exe, scenario, words, "0", "0"], timeout=seconds)
    return rc == -9 and secs >= seconds - 1

def native_replay(features, scenario, hexbytes, tries=300):
    """Run the scenario natively against the real libraries.
    Returns (verdict, json-or-text) with verdict in holds/violated/panic/assumption/error."""
    exe, out = build_native(features)
    if exe is None:
        return "error", "native build failed:\n" + "\n".join(out.splitlines()[-40:])
    rc, out, _ = sh([exe, scenario, hexbytes, str(tries), str(seed())], timeout=900)
    line = out.strip().splitlines()[-1] if out.strip() else ""
    try:
        j = json.loads(line)
        return j.get("verdict", "error"), j
    except Exception:
        return "error", out[-2000:]

def scenario_len(features, scenario):
    """Input length (u64 words) of a scenario, asked from the native replay binary."""
    exe, out = build_native(features)
    if exe is None:
        raise RuntimeError("native build failed:\n" + "\n".join(out.splitlines()[-40:]))
    rc, out, _ = sh([exe, "--len", scenario])
    return int(out.strip().splitlines()[-1])

def cleanup_run_dirs():
    """remove this process's per-run goto binaries"""
    import glob
    for d in glob.glob(os.path.join(BUILD, "ws", "kani-*", "goto", "%d-*" % os.getpid())):
        shutil.rmtree(d, ignore_errors=True)

_FID = {}
def fidelity_gate():
    """Differential test of the model Felt's exact kernels against the real crate (once per run)."""
    if "ok" in _FID:
        return _FID["ok"], _FID["msg"]
    d = os.path.join(VERIF, "tools", "fidelity")
    env = base_env()
    env["RUSTUP_TOOLCHAIN"] = "1.82.0"
    env["VERIF_SEED"] = str(seed())
    lock = os.path.join(d, "Cargo.lock")
    if not os.path.exists(lock):
        shutil.copy(os.path.join(repo_path(), "Cargo.lock"), lock)
    rc, out, _ = sh(["cargo", "run", "--offline", "--target-dir", os.path.join(BUILD, "fidelity")], cwd=d, env=env, timeout=1200)
    line = [l for l in out.splitlines() if l.startswith("fidelity:")]
    _FID["ok"] = (rc == 0)
    _FID["msg"] = line[-1] if line else out[-800:]
    return _FID["ok"], _FID["msg"]
