"""Engine E1: Kani/CBMC over the real swiftness crates linked against the model libraries,
with native replay of counterexamples against the real libraries."""
import json, os, re, shutil, time
from common import *

MODELS = os.path.join(VERIF, "models")
HARNESS = os.path.join(VERIF, "harness")
PATCH = "[patch.crates-io]\n" + "".join(
    '%s = { path = "%s/%s" }\n' % (c, MODELS, c)
    for c in ["starknet-types-core", "starknet-crypto", "starknet-core", "num-bigint", "sha3", "blake2"])
CARGO_CFG = '[source.crates-io]\nreplace-with = "vendored"\n[source.vendored]\ndirectory = "%s"\n[net]\noffline = true\n' % VENDOR
BIN = '[[bin]]\nname = "replay"\npath = "%s/src/bin/replay.rs"\nrequired-features = ["native"]\n' % HARNESS

KANI_FLAGS = ["--no-memory-safety-checks", "--no-overflow-checks", "--no-undefined-function-checks",
              "--no-assertion-reach-checks"]
DEFAULT_FEATURES = "recursive,keccak_160_lsb,stone5"

def workspace(kind, features):
    """kind: 'kani' | 'native'.  One workspace (and target dir) per (kind, repo, features)."""
    ensure_vendor()
    repo = repo_path()
    d = os.path.join(BUILD, "ws", "%s-%s" % (kind, key_of(kind, repo, features)))
    os.makedirs(os.path.join(d, ".cargo"), exist_ok=True)
    t = open(os.path.join(HARNESS, "Cargo.toml.in")).read()
    t = t.replace("@SRC@", os.path.join(HARNESS, "src")).replace("@REPO@", repo)
    if kind == "kani":
        t = t.replace("@BIN@", "").replace("@PATCH@", PATCH)
        t = t.replace("@EXTRA_DEPS@", 'verif-uf = { path = "%s/verif-uf" }' % MODELS)
    else:
        t = t.replace("@BIN@", BIN).replace("@PATCH@", "").replace("@EXTRA_DEPS@", "")
    p = os.path.join(d, "Cargo.toml")
    if not os.path.exists(p) or open(p).read() != t:
        open(p, "w").write(t)
    # Kani's cargo cannot see the pinned toolchain's registry cache -> merged vendor dir;
    # the native build uses the pinned toolchain and its own registry cache, like /repo's tests
    open(os.path.join(d, ".cargo", "config.toml"), "w").write(CARGO_CFG if kind == "kani" else "[net]\noffline = true\n")
    lock = os.path.join(d, "Cargo.lock")
    if not os.path.exists(lock):
        shutil.copy(os.path.join(repo, "Cargo.lock"), lock)
    return d

def _norm(h):
    return h if h.startswith("proofs::") else "proofs::" + h

def run_kani(features, harnesses, timeout_s, jobs=None, playback=False):
    """Returns dict harness -> result dict."""
    ws = workspace("kani", features)
    jobs = jobs or min(len(harnesses), int(os.environ.get("VERIF_JOBS", "14")))
    jpath = os.path.join(ws, "kani-%s.json" % key_of(*harnesses, str(playback), str(time.time())))
    cmd = ["cargo", "kani", "--features", features, "--exact", "-Z", "unstable-options",
           "--export-json", jpath, "--output-format", "terse"] + KANI_FLAGS
    for h in harnesses:
        cmd += ["--harness", _norm(h)]
    if jobs > 1 and not playback:
        cmd += ["-j", str(jobs)]
    if playback:
        cmd += ["-Z", "concrete-playback", "--concrete-playback=print"]
    cmd += ["--harness-timeout", "%ds" % timeout_s]
    rc, out, secs = sh(cmd, cwd=ws, timeout=timeout_s + 600)
    res = {}
    data = None
    if os.path.exists(jpath):
        try:
            data = json.load(open(jpath))
        except Exception:
            data = None
        os.remove(jpath)
    if data is None:
        tail = "\n".join(out.splitlines()[-60:])
        for h in harnesses:
            res[h] = {"status": "error", "detail": "kani produced no result (rc=%s)\n%s" % (rc, tail), "wall_s": secs}
        return res, out
    stats = {c["harness_id"]: c.get("cbmc_stats", {}) for c in data.get("cbmc", [])}
    errs = {e["harness_id"]: e for e in data.get("error_details", [])}
    got = {}
    for r in data.get("verification_results", {}).get("results", []):
        got[r["harness_id"]] = r
    for h in harnesses:
        hid = _norm(h)
        r = got.get(hid)
        if r is None:
            res[h] = {"status": "error", "detail": "harness missing from kani results: " + json.dumps(errs.get(hid)),
                      "wall_s": secs}
            continue
        checks = r.get("checks", [])
        failed = [c for c in checks if c["status"] in ("Failure",)]
        undet = [c for c in checks if c["status"] in ("Undetermined", "Unknown")]
        covers = [c for c in checks if c.get("category") == "cover" or c["status"] in ("Satisfied", "Unsatisfiable", "Unreachable") and "witness" in c.get("description", "")]
        wit = [c for c in checks if c.get("description") == "witness"]
        funcs = sorted({c["function"] for c in checks if c.get("location", {}).get("file", "").startswith(repo_path())})
        st = "success" if r["status"] == "Success" else "failure"
        e = errs.get(hid, {})
        if st == "failure" and not failed:
            st = "error"
        if e.get("error_type") in ("timeout",) or "timeout" in json.dumps(e).lower():
            st = "timeout"
        res[h] = {
            "status": st,
            "failed": [{"description": c["description"], "function": c["function"],
                        "file": c.get("location", {}).get("file"), "line": c.get("location", {}).get("line"),
                        "category": c.get("category")} for c in failed],
            "undetermined": len(undet),
            "witness": [c["status"] for c in wit],
            "n_checks": len(checks),
            "functions": funcs,
            "cbmc": stats.get(hid, {}),
            "wall_s": r.get("duration_ms", 0) / 1000.0,
            "error": e if e.get("has_errors") else None,
        }
    return res, out

PB_RE = re.compile(r"Check for `(\w+)`: \"(.*?)\"\s*\n#\[test\]\nfn (\w+)\(\) \{\n\s*let concrete_vals: Vec<Vec<u8>> = vec!\[(.*?)\n\s*\];", re.S)

def parse_playback(out, nbytes=None):
    """Returns list of (category, description, hexbytes) from --concrete-playback=print output."""
    r = []
    for m in PB_RE.finditer(out):
        cat, desc, _fn, body = m.groups()
        vecs = re.findall(r"vec!\[([0-9, ]*)\]", body)
        bs = []
        for v in vecs:
            xs = [int(x) for x in v.split(",") if x.strip() != ""]
            if len(xs) != 1:
                break          # the scenario input is the leading run of 1-byte values
            bs.append(xs[0])
        r.append((cat, desc, bytes(bs).hex() if bs else None))
    return r

def build_native(features):
    ws = workspace("native", features)
    env = base_env()
    env["RUSTUP_TOOLCHAIN"] = "1.82.0"
    rc, out, secs = sh(["cargo", "build", "--offline", "--features", features + ",native", "--bin", "replay"],
                       cwd=ws, env=env, timeout=1800)
    if rc != 0:
        return None, out
    return os.path.join(ws, "target", "debug", "replay"), out

def native_replay(features, scenario, hexbytes, tries=300):
    """Run the scenario natively against the real libraries.
    Returns (verdict, json-or-text) with verdict in holds/violated/panic/assumption/error."""
    exe, out = build_native(features)
    if exe is None:
        return "error", "native build failed:\n" + "\n".join(out.splitlines()[-40:])
    rc, out, _ = sh([exe, scenario, hexbytes, str(tries), str(seed())], timeout=900)
    line = out.strip().splitlines()[-1] if out.strip() else ""
    try:
        j = json.loads(line)
        return j.get("verdict", "error"), j
    except Exception:
        return "error", out[-2000:]

def scenario_len(scenario):
    """Input length of a scenario, read from the registry table."""
    t = open(os.path.join(HARNESS, "src", "registry_table.rs")).read()
    m = re.search(r"\b%s\s*:\s*([^=]+?)=>" % re.escape(scenario), t)
    return m.group(1).strip() if m else None
