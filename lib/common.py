"""Shared plumbing for /verif/check: paths, subprocess helpers, evidence writer."""
import hashlib, json, os, subprocess, sys, time

VERIF = os.path.dirname(os.path.dirname(os.path.abspath(__file__)))
BUILD = os.path.join(VERIF, ".build")
VENDOR = os.path.join(VERIF, ".vendor")
EVIDENCE = os.path.join(VERIF, "evidence")
REPLAYS = os.path.join(VERIF, "replays") if os.path.abspath(os.environ.get("VERIF_REPO", "/repo")) == "/repo" else os.path.join(BUILD, "replays-scratch")
KNOWN = os.path.join(VERIF, "known_findings.json")

def repo_path():
    return os.path.abspath(os.environ.get("VERIF_REPO", "/repo"))

def seed():
    try:
        return int(os.environ.get("VERIF_SEED", "0"))
    except ValueError:
        return 0

def base_env():
    e = dict(os.environ)
    e["CARGO_NET_OFFLINE"] = "true"
    # glibc malloc tuning: CBMC is mmap/brk heavy and mmap is slow in this VM
    e.setdefault("MALLOC_TRIM_THRESHOLD_", "100000000000")
    e.setdefault("MALLOC_TOP_PAD_", "536870912")
    e.setdefault("MALLOC_MMAP_THRESHOLD_", "1073741824")
    e.pop("RUSTUP_TOOLCHAIN", None)
    return e

def log(*a):
    print(*a, file=sys.stderr, flush=True)

def sh(cmd, cwd=None, env=None, timeout=None, mem_gb=None):
    """Run a command, return (rc, stdout+stderr, seconds).  rc = -9 on timeout."""
    t0 = time.time()
    pre = None
    if mem_gb:
        import resource
        lim = int(mem_gb * (1 << 30))
        def pre():
            resource.setrlimit(resource.RLIMIT_AS, (lim, lim))
    try:
        p = subprocess.run(cmd, cwd=cwd, env=env or base_env(), stdout=subprocess.PIPE,
                           stderr=subprocess.STDOUT, timeout=timeout, preexec_fn=pre)
        return p.returncode, p.stdout.decode("utf-8", "replace"), time.time() - t0
    except subprocess.TimeoutExpired as ex:
        out = (ex.stdout or b"").decode("utf-8", "replace")
        return -9, out, time.time() - t0

def ensure_vendor():
    if os.path.isdir(VENDOR) and len(os.listdir(VENDOR)) > 300:
        return
    log("[setup] building merged vendor directory", VENDOR)
    rc, out, _ = sh([sys.executable, os.path.join(VERIF, "tools", "mkvendor.py"), VENDOR])
    if rc != 0:
        raise SystemExit("vendor setup failed:\n" + out)

def key_of(*parts):
    return hashlib.sha256("|".join(parts).encode()).hexdigest()[:12]

def load_known():
    if not os.path.exists(KNOWN):
        return {"findings": [], "fixed": []}
    return json.load(open(KNOWN))

def write_evidence(pid, tier, level, coverage, assumptions, wall_s, violations, partial=False):
    # evidence/ is only for complete runs against /repo itself; runs against a scratch tree
    # (VERIF_REPO=...) or restricted with --only go to .build/evidence-scratch/
    global EVIDENCE
    ev_dir = EVIDENCE
    if repo_path() != "/repo" or partial:
        ev_dir = os.path.join(BUILD, "evidence-scratch")
    os.makedirs(ev_dir, exist_ok=True)
    ev = {
        "property_id": pid,
        "tier": tier,
        "seed": seed(),
        "level": level,
        "coverage": coverage,
        "assumptions": assumptions,
        "wall_s": round(wall_s, 2),
        "violations": violations,
    }
    p = os.path.join(ev_dir, pid + ".json")
    with open(p, "w") as f:
        json.dump(ev, f, indent=1, sort_keys=False)
    return p
