def known_match(known, pid, ob_id, desc, func):
    """A finding suppresses exactly what it names: property, then (obligation | obligation_prefix),
    then optional substrings of the failure description / function."""
    for f in known.get("findings", []):
        if f.get("property") != pid:
            continue
        if f.get("obligation") and f["obligation"] != ob_id:
            continue
        if f.get("obligation_prefix") and not (ob_id or "").startswith(f["obligation_prefix"]):
            continue
        if f.get("description") and f["description"] not in (desc or ""):
            continue
        if f.get("function") and f["function"] not in (func or ""):
            continue
        return f
    return None
