"""Property table: which obligations decide which property, per tier.

An E1 obligation: dict(id, engine='e1', harness, features, tier, bounds, desc, timeout)
An E2 obligation group: dict(engine='e2', prop) -> delegated to smt/run.py
"""
from e1 import DEFAULT_FEATURES as DF

Q, T = "quick", "thorough"

# per-loop bounds for library/model loops whose trip count is fixed by a byte width or by the
# number of UF rows; the harness-wide bound (kani::unwind) then only has to cover the loops
# and the recursion of the code under test.  Unwinding assertions stay on.
DEFAULT_UNWINDSET = {"poseidon_hash_many": 8, "from_bytes_be_slice": 34, "to_bytes_be": 10, "word_from_be32": 10,
                     "word_at": 10, "word_bytes": 10, "verif_uf::hash2": 40, "verif_uf::arith2": 40, "hi_zero_from": 10,
                     "felt_core::reduce": 7, "felt_core::from_hex": 68, "felt_core::shr": 6, "felt_core::shl": 6, "felt_core::low_bits": 6, "felt_core::mul_small": 18,
                     "num_bigint": 10, "Hasher": 10}

def e1(id, harness, bounds, desc, tier=Q, features=DF, timeout=900, witness=True, unwindset=None, mem=8):
    us = dict(DEFAULT_UNWINDSET)
    us.update(unwindset or {})
    unwindset = us
    return dict(id=id, engine="e1", harness=harness, features=features, tier=tier, bounds=bounds,
                desc=desc, timeout=timeout, witness=witness, unwindset=unwindset, mem=mem)

BLAKE = "recursive,blake2s_248_lsb,stone6"
K248 = "recursive,keccak_248_lsb,stone5"
B160 = "recursive,blake2s_160_lsb,stone5"

COMMON_ASSUMPTIONS = [
    "E1 trusted base: model crates under /verif/models replace starknet-types-core, starknet-crypto, starknet-core, num-bigint, sha3, blake2 (DESIGN.md 1.1); exact kernels validated differentially against the real crates (tools/fidelity)",
    "hash functions (Poseidon, Pedersen, Keccak-256, Blake2s-256) are uninterpreted: deterministic and collision-free on the queried points (byte hashes: on the low 160 bits)",
    "general field mul/pow/div are uninterpreted functions with field laws (consistency, zero, cancellation); exact for small operands",
    "Kani memory-safety/overflow instrumentation of CBMC disabled (safe Rust; Rust's own overflow/bounds panics are still checked as assertions); unwinding assertions ON",
    "counterexamples are replayed natively against the real libraries before a VIOLATION is printed",
]

PROPS = {}

PROPS["C09"] = dict(
    title="Proof of work accepted exactly when the hash has the required zero bits",
    level="model_checking",
    obligations=[
        e1("C09.iff.keccak", "c09_pow_iff", "digest: any 32 bytes; nonce: any u64; n_bits: 0..=128", "verify_pow(d,n,nonce).is_ok() <=> bit-level oracle", timeout=600),
        e1("C09.config", "c09_pow_config", "n_bits: any u8", "pow Config::validate is Ok exactly for 20..=50", timeout=120),
        e1("C09.commit.keccak", "c09_pow_commit", "transcript (digest,counter): any felts; nonce any u64; n_bits 0..=128", "commit checks PoW on the pre-absorb digest, then absorbs the nonce", timeout=900),
        e1("C09.iff.blake2s", "c09_pow_iff", "as C09.iff.keccak, Blake2s build", "verify_pow <=> oracle (blake2s feature)", features=BLAKE, timeout=600),
        e1("C09.commit.blake2s", "c09_pow_commit", "as C09.commit.keccak, Blake2s build", "commit order (blake2s feature)", tier=T, features=BLAKE, timeout=900),
    ],
    outside=["n_bits > 128 (panics: `128 - n_bits` underflow; recorded under C18)",
             "the hash functions themselves (uninterpreted)"],
)

PROPS["C11"] = dict(
    title="Config validation accepts exactly consistent, sufficiently secure configs",
    level="model_checking",
    obligations=[
        e1("C11.exact.3steps_2inner", "c11_exact_3_2", "every number an arbitrary field element (n_bits any u8); 3 step sizes, 2 inner-layer configs supplied; layout column counts 1..=128", "StarkConfig::validate(..).is_ok() <=> integer predicate of the statement", timeout=1500, unwindset={"swiftness_fri::config::Config::validate": 5, "scen::c11::oracle": 5}),
        e1("C11.exact.2steps_1inner", "c11_exact_2_1", "as above with 2 step sizes, 1 inner layer", "validate <=> predicate", timeout=1500, unwindset={"swiftness_fri::config::Config::validate": 4, "scen::c11::oracle": 5}),
        e1("C11.exact.0steps_0inner", "c11_exact_0_0", "as above with empty vectors", "validate <=> predicate (must reject)", timeout=600, unwindset={"swiftness_fri::config::Config::validate": 2, "scen::c11::oracle": 5}, witness=False),
        e1("C11.exact.3steps_1inner", "c11_exact_3_1", "vector lengths inconsistent (3 steps, 1 inner)", "validate <=> predicate", timeout=1500, unwindset={"swiftness_fri::config::Config::validate": 5, "scen::c11::oracle": 5}),
        e1("C11.exact.2steps_2inner", "c11_exact_2_2", "vector lengths inconsistent (2 steps, 2 inner: surplus inner config)", "validate <=> predicate", timeout=1500, unwindset={"swiftness_fri::config::Config::validate": 4, "scen::c11::oracle": 5}),
        e1("C11.exact.4steps_3inner", "c11_exact_4_3", "4 step sizes, 3 inner layers", "validate <=> predicate", tier=T, timeout=2400, mem=24, unwindset={"swiftness_fri::config::Config::validate": 6, "scen::c11::oracle": 6}),
    ],
    outside=["more than 5 FRI layers supplied (the loop body is uniform; 6..15 layers are outside the bound)",
             "layout column counts outside 1..=128 (none of the seven layouts)"],
)

def e2(prop=None, timeout=3600, args=None):
    return dict(engine="e2", id="e2:" + str(prop), prop=prop, timeout=timeout, args=args, tier=Q)

E2_ASSUMPTIONS = [
    "E2 trusted base: the Python front end under /verif/smt (parser + symbolic executor of a Rust subset; leaving the subset is reported inconclusive), validated per run by pushing seeded concrete field points through both the encoding and the real function (replay_e2)",
    "ring identities with integer coefficients decided over the rationals (z3 reals) hold in F_p; roots of unity are formal powers of t in Z[t]/(t^8+1) after the concrete lemmas on the parsed literals",
]

E2S_ASSUMPTIONS = E2_ASSUMPTIONS + [
    "felt-sx (structural) encoding: field elements are integers mod p; general mul/pow/div and all hashes are uninterpreted; hashes are collision-free (injectivity through companion inverse functions) and domain separated",
    "vector LENGTHS are enumerated (concrete per query), contents symbolic; the Rust subset executed is listed in smt/README.md - leaving it is inconclusive",
]
PROPS["C15"] = dict(
    title="Closed-form AIR boundary values equal their defining products",
    level="model_checking",
    technique="source-to-SMT translation of the real functions (parsed from /repo each run), z3 over reals/bit-vectors, native replay",
    obligations=[e2("C15"),
                 e1("C15.memory_product.kani.m1_h1", "c15_memprod_1_1", "1 main-page cell, 1 continuous page header, z, alpha: any felts (products uninterpreted)", "get_public_memory_product == product over every cell and every page product, length = cells + page sizes (compiled real code)", timeout=1200, mem=10),
                 e1("C15.memory_product.kani.m2_h2", "c15_memprod_2_2", "2 cells, 2 headers", "as above", tier=T, timeout=5400, mem=10)],
    assumptions=E2_ASSUMPTIONS,
    outside=["n_bits > 16 / spacing > 4 for the ruler structure (the inductive step covers any n_bits)", "pages longer than the stated bound"],
)
PROPS["C16"] = dict(
    title="Constraints and DEEP terms get independent random coefficients",
    level="model_checking",
    technique="source-to-SMT translation of the generated evaluators (hash-consed DAG), z3 linearity/non-vanishing queries, native replay with unit vectors",
    obligations=[e2("C16")],
    assumptions=E2_ASSUMPTIONS,
    outside=["quick tier: dex, recursive, recursive_with_poseidon, small, starknet; thorough adds starknet_with_keccak and dynamic (12 flag vectors)",
             "powers_array (the coefficients are powers of one challenge): see C08"],
)
PROPS["C12"] = dict(
    title="Evaluation and trace domains have generators of exactly the right order",
    level="other",
    level_text="Structural solver check that StarkDomains::new computes the defining formula for every (t,c) (parsed source, uninterpreted pow/div), an integer SMT query for the exponent relation, plus a finite concrete table (orders of 3^((p-1)/2^k), k=0..192) that has no symbolic variable and is reported as a table, not as a solver result.",
    technique="source-to-SMT (z3) for the formula structure and exponent relation + exhaustive concrete big-integer table for the 193 orders",
    obligations=[e2("C12"),
                 e1("C12.domains.kani", "c12_domains", "log trace size t and blow-up exponent c any with t + c <= 192", "StarkDomains::new: sizes are the powers of two, both generators are 3^((p-1)/size) (compiled real code; pow uninterpreted, exponent exact)", timeout=900, mem=8)],
    assumptions=E2_ASSUMPTIONS,
    outside=[],
)

PROPS["C10"] = dict(
    title="Query indices are in range, strictly increasing, and map to the right points",
    level="model_checking",
    obligations=[
        e1("C10.generate.n%d" % n, "c10_generate_%d" % n,
           "transcript state (digest, counter): any felts; domain size 2^k, k any in 1..=64; query count n = %d (concrete per instance)" % n,
           "generate_queries == sort+dedup(low128(challenge_i) mod 2^k): in range, strictly increasing, at most n, deterministic, transcript advanced by n squeezes",
           tier=(Q if n <= 2 else T), timeout=1800, witness=(n <= 1), mem=(8 if n <= 2 else 24))
        for n in range(0, 4)
    ] + [
        e1("C10.generate.n3.small_domain", "c10_generate_3_small", "as C10.generate.n3 with domain size 2^k, k in 1..=3 (collisions are the interesting case and do not depend on k)", "generate_queries == sort+dedup(...) for 3 queries over tiny domains", timeout=1200, witness=False, mem=20),
        e2("C10S"),
        e1("C10.points.consecutive", "c10_points2", "log domain size any in 2..=64, generator any felt, two consecutive indices q, q+1 with q any", "each of two adjacent queries is mapped to 3 * w^bitreverse(index) independently", timeout=1800, mem=10),
        e1("C10.points", "c10_points", "log domain size any in 1..=64, generator any felt, index any < 2^log (one query)", "queries_to_points: index -> 3 * w^bitreverse_log(index) (w^e an uninterpreted pow, bit reversal exact)", timeout=1200),
    ],
    outside=["query counts above 3 (sorting code is std's; the loop body is uniform)", "agreement with the indices the prover logged on recorded proofs (concrete file replay)",
             "domain sizes above 2^64 (queries_to_points asserts; recorded under C18)"],
)
def _hist(name, seq, diff, tier=Q):
    return e1("C08.history.%s.diff%d" % (seq, diff), name, "operation sequence %s (A absorb felt, V absorb 2-vector, U absorb u64, S squeeze), initial digest and all messages any felts; two runs differing exactly in the message of operation %d" % (seq, diff),
              "challenges before the changed message are equal, all later ones differ; challenges drawn without an intervening message are pairwise different", tier=tier, timeout=900)
PROPS["C08"] = dict(
    title="Fiat-Shamir challenges depend on exactly the messages sent before them",
    level="model_checking",
    obligations=[
        e1("C08.step.squeeze", "c08_step_laws_0", "state (digest, counter) any felts", "squeeze = Poseidon(digest, counter), counter+1, digest kept"),
        e1("C08.step.absorb_felt_u64", "c08_step_laws_1", "state and message any", "absorb = Poseidon_many(digest+1, msg), counter reset; u64 absorbed as its felt"),
        e1("C08.step.absorb_vec2", "c08_step_laws_2", "state any, vector of 2 any felts", "absorb vector = Poseidon_many(digest+1, v...), counter reset", unwindset={"poseidon_hash_many": 5}),
        e1("C08.step.absorb_vec0", "c08_step_laws_3", "state any, empty vector", "absorb of the empty vector"),
        e1("C08.n_squeezes.2", "c08_n_squeezes_2", "state any; n = 2", "random_felts_to_prover(n) = n successive squeezes"),
        e1("C08.n_squeezes.0", "c08_n_squeezes_0", "state any; n = 0", "random_felts_to_prover(0) = nothing", tier=T),
        e1("C08.n_squeezes.3", "c08_n_squeezes_3", "state any; n = 3", "random_felts_to_prover(3)", tier=T),
        _hist("c08_hist_ass_0", "ASS", 0), _hist("c08_hist_sas_1", "SAS", 1), _hist("c08_hist_aass_1", "AASS", 1),
        _hist("c08_hist_vsas_0", "VSAS", 0), _hist("c08_hist_uss_0", "USS", 0), _hist("c08_hist_svss_1", "SVSS", 1),
        e2("C08S"),
        _hist("c08_hist_avus_2", "AVUS", 2, T), _hist("c08_hist_asas_2", "ASAS", 2, T), _hist("c08_hist_ssuss_2", "SSUSS", 2, T), _hist("c08_hist_vvss_0", "VVSS", 0, T),
    ],
    outside=["agreement with the V->P lines of recorded Stone annotations (concrete file replay, not a solver question)",
             "histories longer than 5 operations are covered only through the inductive step laws (C08.step.*)",
             "commit-phase ordering (stark_commit / fri_commit / traces_commit): see the C08.order.* obligations when present"],
)

REC = "rec:vector::decommit::compute_root_from_queries"
def _c04(kind, h, k, tier, feats=DF, tag=""):
    name = "c04_%s_h%d_k%d" % (kind, h, k)
    desc = {"bind": "root of a tree over arbitrary leaves; ANY claimed values and authentication nodes: Ok => each value is the committed leaf at its index",
            "complete": "honest leaves + honest sibling nodes (independent builder) are accepted for the tree's root (root computed in the scenario: replays natively)",
            "wrongroot": "honest leaves + honest sibling nodes are rejected for any commitment other than the tree's root"}[kind]
    return e1("C04.%s.h%d.k%d%s" % (kind, h, k, tag), name,
              "height %d (%d leaves, any felts), %d sorted distinct query indices (symbolic), friendly-layer count any in 0..=%d, authentication vector of %d arbitrary felts" % (h, 1 << h, k, h + 1, h * k),
              desc, tier=tier, features=feats, timeout=2400, unwindset={REC: h * k + 2}, mem=(8 if h * k <= 2 else 24))
def _c04c(h, tier, feats=DF, tag=""):
    return e1("C04.corrupt_auth.h%d%s" % (h, tag), "c04_corrupt_h%d" % h, "height %d, one query (index symbolic), one authentication node replaced by any different value (position symbolic) / last node missing" % h,
              "a changed or missing sibling node is rejected", tier=tier, features=feats, timeout=2400, unwindset={REC: h + 2}, mem=16)
PROPS["C04"] = dict(
    title="Merkle vector decommitment is complete and binding for all shapes",
    level="model_checking",
    obligations=[
        e2("C04S"),
        _c04("bind", 1, 1, Q), _c04("bind", 2, 1, Q), _c04("complete", 2, 1, Q), _c04("complete", 2, 2, T), _c04c(1, Q),
        _c04("bind", 2, 1, Q, BLAKE, ".blake2s_248"),
        _c04c(2, T), _c04("complete", 2, 1, T, BLAKE, ".blake2s_248"),
        _c04("bind", 2, 2, T), _c04("bind", 2, 2, T, BLAKE, ".blake2s_248"), _c04("complete", 2, 2, T, BLAKE, ".blake2s_248"),
        _c04("wrongroot", 2, 1, Q), _c04("wrongroot", 2, 2, T),
        _c04("bind", 2, 2, T, K248, ".keccak_248"),
        _c04("bind", 2, 2, T, B160, ".blake2s_160"),
    ],
    assumptions=E2S_ASSUMPTIONS,
    technique="bounded model checking of the compiled real code with Kani/CBMC (heights <= 2, <= 2 symbolic indices) + source-level symbolic execution with z3 and uninterpreted collision-free hashes (heights <= 3; quick: Keccak-160 masking, thorough: all four hash variants, every sorted index set of <= 3 queries)",
    outside=["tree heights above 4 and more than 3 queries (the queue algorithm is a uniform recursion; that induction is not made here)",
             "collision resistance of the hashes (assumed: uninterpreted collision-free functions)"],
)
def _c05(id, harness, bounds, desc, tier=Q, feats=DF, depth=3, mem=20, timeout=2400):
    return e1(id, harness, bounds, desc, tier=tier, features=feats, timeout=timeout, unwindset={REC: depth}, mem=mem)
PROPS["C05"] = dict(
    title="Table decommitment binds every cell of every queried row",
    level="model_checking",
    obligations=[
        e2("C05S"),
        _c05("C05.row.cols1", "c05_row_1_f1", "1 column, 1 row (vector height 0); cell, commitment any felts", "Ok <=> commitment == the cell in Montgomery form (single-column rows unhashed); a different cell is rejected", depth=1),
        _c05("C05.row.cols2.friendly", "c05_row_2_f1", "2 columns, 1 row; cells and commitment any felts; friendly-layer count 1 = height+1", "Ok <=> commitment == Poseidon row hash of the cells*R; a row differing in any cell is rejected", depth=1),
        _c05("C05.length.0", "c05_length_0", "2 columns, 1 query, 0 cells", "cell count != columns x queries is rejected", depth=1),
        _c05("C05.length.1", "c05_length_1", "2 columns, 1 query, 1 cell", "cell count != columns x queries is rejected", depth=1),
        _c05("C05.length.3", "c05_length_3", "2 columns, 1 query, 3 cells", "cell count != columns x queries is rejected", depth=1),
        _c05("C05.length.2", "c05_length_2", "2 columns, 1 query, 2 cells (accepted)", "exact cell count accepted", tier=T, depth=1),
        _c05("C05.delegate.f2", "c05_delegate_f2", "2 columns x 2 rows (vector height 1), both rows queried, cells any felts, friendly-layer count 2 (row and node hash Poseidon), the 24 permutations of the 4 cells (symbolic)", "accepted iff the cells are the committed ones in their rows and columns", tier=T, depth=3, mem=24, timeout=3600),
        _c05("C05.row.cols4.friendly", "c05_row_4_f1", "4 columns, 1 row, Poseidon", "row hash over 4 cells", tier=T, depth=1),
        _c05("C05.row.cols3.friendly", "c05_row_3_f1", "3 columns, 1 row, Poseidon", "row hash over 3 cells", tier=T, depth=1),
        _c05("C05.row.cols1.f0", "c05_row_1_f0", "1 column, friendly-layer count 0", "single cell unhashed regardless of the friendly rule", tier=T, depth=1),
    ],
    assumptions=E2S_ASSUMPTIONS,
    technique="bounded model checking of the compiled real code with Kani/CBMC + source-level symbolic execution with z3 and uninterpreted collision-free hashes (up to 4 columns quick / 16 thorough, heights <= 2)",
    outside=["more than 16 columns (e.g. trace tables of up to 128 columns) and heights above 2", "x -> x*R injective: a field law (R != 0) assumed through the cancellation law of the mul UF"],
)

PROPS["C13"] = dict(
    title="The public-input digest binds every field of the public input",
    level="model_checking",
    technique="symbolic execution of the real get_hash (parsed from /repo each run) into z3 terms with uninterpreted collision-free hashes; native replay through replay_e2",
    obligations=[e2("C13")],
    assumptions=E2S_ASSUMPTIONS,
    outside=["main pages longer than 2 cells / more than 1 continuous header (uniform chain)", "agreement of the seed with the prover's first challenges on recorded proofs (concrete file replay)",
             "an E1 (Kani) harness for get_hash exists (harness/src/scen/c13.rs) but its symex needs > 3M steps because of vec!/flat_map churn; it is not registered"],
)
PROPS["C14"] = dict(
    title="Public-input validation and returned hashes follow the memory layout",
    level="model_checking",
    technique="symbolic execution of the real validate_public_input / verify_public_input (z3, integers mod p, uninterpreted Pedersen) against an independent integer predicate and an address-based oracle; Kani cross-check of validate for the recursive layout in the thorough tier",
    obligations=[
        e2("C14"),
        e1("C14.page_layout.kani.m3", "c14_page_layout_3", "main page of 3 cells with any addresses; initial pc, output start any felts; program / output lengths 0..=3",
           "check_main_page_layout Ok => enough cells, program cells at initial_pc+i, output cells at output_start+j (full field equality) (compiled real code)", timeout=900, mem=10),
        e1("C14.page_layout.kani.m4", "c14_page_layout_4", "as above with 4 cells", "as above", tier=T, timeout=1800, mem=10),
        e1("C14.validate.recursive.kani", "c14_validate", "layout recursive: log_n_steps, range-check bounds, layout code, all 6 segment bounds any felts; trace length 2^t, t any in 0..=120",
           "validate_public_input(..).is_ok() <=> the statement's predicate (usage = stop - begin in the field)", tier=T, timeout=5400, mem=16),
    ],
    assumptions=E2S_ASSUMPTIONS,
    outside=["quick tier: layout recursive only (thorough: all layouts the executor can run)", "main pages longer than 6 cells"],
)
PROPS["C06"] = dict(
    title="FRI accepts every polynomial below the bound; folding is polynomial folding",
    level="model_checking",
    technique="source-to-SMT: the parsed fri_formula executed over Z[t]/(t^8+1) (z3 polynomial identity, all polynomials/challenges/coset points), group and constant lemmas by concrete big-integer evaluation, Horner identity; symbolic execution of the real compute_next_layer / compute_coset_elements against the coset index geometry for every query set of the enumerated shapes (z3 integers, native replay)",
    obligations=[e2("C06"), e2("C06S")],
    assumptions=E2S_ASSUMPTIONS,
    outside=["end-to-end fri_commit+fri_verify completeness over all step lists of 2..15 layers against a coefficient-space prover (concrete-run technique); small-shape completeness is decided under C07 (C07S obligations) when present",
             "Merkle completeness: C04/C05"],
)

PROPS["C07"] = dict(
    title="FRI rejects inconsistent layers and functions above the degree bound",
    level="model_checking",
    technique="symbolic execution of the real fri_verify / fri_verify_layers / compute_next_layer / table_decommit (z3, uninterpreted collision-free hashes) on small enumerated shapes + z3 polynomial identity for the last-layer perturbation; native replay",
    obligations=[e2("C07"), e2("C07S")] + [
        e1("C07.last_layer_length.kani.len%d" % l, "c07_last_len_%d" % l, "fri_verify on the one-layer instance (no inner layers), one query, %d last-layer coefficients (any felts), log bound any in 0..=3" % l,
           "Ok => the number of coefficients is exactly 2^bound (compiled real code: no parser subset)", tier=(Q if l in (2, 3) else T), timeout=900, witness=(l in (1, 2, 4)), mem=10)
        for l in range(0, 6)] + [
        e1("C07.last_layer_value.kani.len%d" % l, "c07_last_value_%d" % l, "fri_verify on the one-layer instance, one query, %d coefficients (any felts), query value any felt different from the polynomial's value at the query point" % l,
           "a query value inconsistent with the last-layer polynomial is rejected (compiled real code)", tier=(Q if l == 1 else T), timeout=(1200 if l == 1 else 3600), mem=10)
        for l in (1, 2)],
    assumptions=E2S_ASSUMPTIONS,
    outside=["'a function of degree >= bound is rejected except with small probability': a probabilistic statement over the query randomness - no solver here can quantify over provers",
             "queried input values / evaluation points: they are recomputed or absorbed; that a changed challenge makes a later check fail is probabilistic",
             "more than 3 layers / 2 queries"],
)
PROPS["C18"] = dict(
    title="Malformed proofs are reported as errors, not crashes",
    level="model_checking",
    technique="symbolic execution of each entry point with panics as outcomes (index/slice/unwrap/assert/usize arithmetic/division by zero), vector lengths enumerated 0..=3, contents symbolic; z3 decides feasibility of every panic path under 'config accepted by the real validate'; native replay under catch_unwind",
    obligations=[e2("C18")],
    assumptions=E2S_ASSUMPTIONS,
    outside=["StarkProof::verify::<RealLayout> end to end with the generated evaluators (their index preconditions are C01's index-set obligations)", "allocation failure, stack depth",
             "vector lengths above 3"],
)

C11_MAIN = [o for o in PROPS["C11"]["obligations"] if o["id"] == "C11.exact.3steps_2inner"][0]
def _ref(o, pid):
    d = dict(o)
    d["id"] = pid + ".via." + o["id"]
    return d
PROPS["C01"] = dict(
    title="No proof is accepted for a trace that violates the AIR",
    level="model_checking",
    technique="structural necessary conditions decided by solver: generated evaluators' index sets (z3), OODS coupling and no-ignored-decommitment by symbolic execution of the real stark_commit/stark_verify/fri_verify with abstract layout (z3, UF hashes), configuration exactness by Kani/CBMC",
    level_text="Partial by nature: the probabilistic soundness theorem itself (adaptive prover, FRI proximity, DEEP-ALI) cannot be quantified by any solver here. What IS decided, within bounds, are the structural necessary conditions the statement spells out: the composition values checked are the ones opened (OODS length and index coupling), FRI/domain parameters are tied to the trace (C11 exactness), and no decommitment result is ignored.",
    obligations=[e2("C01"), e2("C01S"), e2("C07S"), _ref(C11_MAIN, "C01")],
    assumptions=E2S_ASSUMPTIONS,
    outside=["the soundness theorem itself (probability over verifier randomness, adaptive prover)", "that each layout's constraint system is the Cairo AIR", "shapes beyond the stated bounds"],
)
PROPS["C02"] = dict(
    title="Accepted proofs are tamper-evident at every position",
    level="model_checking",
    technique="per position class: shape-bound positions by symbolic execution with one element deleted (z3), Merkle-bound positions by the binding obligations of C04/C05/C07, transcript-bound positions by C08/C13 injectivity, configuration numbers by C11 exactness (Kani/CBMC)",
    obligations=[e2("C02S"), e2("C07S"), e2("C13"), _ref(C11_MAIN, "C02")],
    assumptions=E2S_ASSUMPTIONS,
    outside=["that a changed Fiat-Shamir challenge makes a later check fail (probabilistic)", "Merkle-bound positions are decided under C04/C05 (bind obligations) and are not re-run here",
             "StarkProof::verify on a real layout end to end"],
)
PROPS["C17"] = dict(
    title="Verification work is bounded by the size of the proof",
    level="model_checking",
    technique="loop-site classification by symbolic execution; value-bounded loops decided by z3 under 'config accepted by the real validate'; Kani unwinding assertions + native hang detection for generate_queries",
    obligations=[e2("C17"),
                 e1("C17.generate_queries.terminates", "c10_generate_3_small", "3 queries, domain 2^1..2^3, transcript state symbolic", "generate_queries runs its loop exactly n times (unwinding assertions; a native run that does not terminate is a violation)", timeout=1200, witness=False, mem=20)],
    assumptions=E2S_ASSUMPTIONS,
    outside=["wall-clock time and peak memory of a verifier process (a measurement, not a solver question)", "library internals (pow, hash functions): O(log) / fixed by inspection"],
)
