"""Property table: which obligations decide which property, per tier.

An E1 obligation: dict(id, engine='e1', harness, features, tier, bounds, desc, timeout)
An E2 obligation group: dict(engine='e2', prop) -> delegated to smt/run.py
"""
from e1 import DEFAULT_FEATURES as DF

Q, T = "quick", "thorough"

def e1(id, harness, bounds, desc, tier=Q, features=DF, timeout=900, witness=True, unwindset=None):
    return dict(id=id, engine="e1", harness=harness, features=features, tier=tier, bounds=bounds,
                desc=desc, timeout=timeout, witness=witness, unwindset=unwindset)

BLAKE = "recursive,blake2s_248_lsb,stone6"
K248 = "recursive,keccak_248_lsb,stone5"
B160 = "recursive,blake2s_160_lsb,stone5"

COMMON_ASSUMPTIONS = [
    "E1 trusted base: model crates under /verif/models replace starknet-types-core, starknet-crypto, starknet-core, num-bigint, sha3, blake2 (DESIGN.md 1.1); exact kernels validated differentially against the real crates (tools/fidelity)",
    "hash functions (Poseidon, Pedersen, Keccak-256, Blake2s-256) are uninterpreted: deterministic and collision-free on the queried points (byte hashes: on the low 160 bits)",
    "general field mul/pow/div are uninterpreted functions with field laws (consistency, zero, cancellation); exact for small operands",
    "Kani memory-safety/overflow instrumentation of CBMC disabled (safe Rust; Rust's own overflow/bounds panics are still checked as assertions); unwinding assertions ON",
    "counterexamples are replayed natively against the real libraries before a VIOLATION is printed",
]

PROPS = {}

PROPS["C09"] = dict(
    title="Proof of work accepted exactly when the hash has the required zero bits",
    level="model_checking",
    obligations=[
        e1("C09.iff.keccak", "c09_pow_iff", "digest: any 32 bytes; nonce: any u64; n_bits: 0..=128", "verify_pow(d,n,nonce).is_ok() <=> bit-level oracle", timeout=600),
        e1("C09.config", "c09_pow_config", "n_bits: any u8", "pow Config::validate is Ok exactly for 20..=50", timeout=120),
        e1("C09.commit.keccak", "c09_pow_commit", "transcript (digest,counter): any felts; nonce any u64; n_bits 0..=128", "commit checks PoW on the pre-absorb digest, then absorbs the nonce", timeout=900),
        e1("C09.iff.blake2s", "c09_pow_iff", "as C09.iff.keccak, Blake2s build", "verify_pow <=> oracle (blake2s feature)", features=BLAKE, timeout=600),
        e1("C09.commit.blake2s", "c09_pow_commit", "as C09.commit.keccak, Blake2s build", "commit order (blake2s feature)", tier=T, features=BLAKE, timeout=900),
    ],
    outside=["n_bits > 128 (panics: `128 - n_bits` underflow; recorded under C18)",
             "the hash functions themselves (uninterpreted)"],
)

PROPS["C11"] = dict(
    title="Config validation accepts exactly consistent, sufficiently secure configs",
    level="model_checking",
    obligations=[
        e1("C11.exact.3steps_2inner", "c11_exact_3_2", "every number an arbitrary field element (n_bits any u8); 3 step sizes, 2 inner-layer configs supplied; layout column counts 1..=128", "StarkConfig::validate(..).is_ok() <=> integer predicate of the statement", timeout=1500, unwindset={"swiftness_fri::config::Config::validate": 5, "scen::c11::oracle": 5}),
        e1("C11.exact.2steps_1inner", "c11_exact_2_1", "as above with 2 step sizes, 1 inner layer", "validate <=> predicate", timeout=1500, unwindset={"swiftness_fri::config::Config::validate": 4, "scen::c11::oracle": 5}),
        e1("C11.exact.0steps_0inner", "c11_exact_0_0", "as above with empty vectors", "validate <=> predicate (must reject)", timeout=600, unwindset={"swiftness_fri::config::Config::validate": 2, "scen::c11::oracle": 5}, witness=False),
        e1("C11.exact.3steps_1inner", "c11_exact_3_1", "vector lengths inconsistent (3 steps, 1 inner)", "validate <=> predicate", timeout=1500, unwindset={"swiftness_fri::config::Config::validate": 5, "scen::c11::oracle": 5}),
        e1("C11.exact.2steps_2inner", "c11_exact_2_2", "vector lengths inconsistent (2 steps, 2 inner: surplus inner config)", "validate <=> predicate", timeout=1500, unwindset={"swiftness_fri::config::Config::validate": 4, "scen::c11::oracle": 5}),
        e1("C11.exact.4steps_3inner", "c11_exact_4_3", "4 step sizes, 3 inner layers", "validate <=> predicate", tier=T, timeout=3600, unwindset={"swiftness_fri::config::Config::validate": 6, "scen::c11::oracle": 6}),
        e1("C11.exact.5steps_4inner", "c11_exact_5_4", "5 step sizes, 4 inner layers", "validate <=> predicate", tier=T, timeout=7200, unwindset={"swiftness_fri::config::Config::validate": 7, "scen::c11::oracle": 7}),
    ],
    outside=["more than 5 FRI layers supplied (the loop body is uniform; 6..15 layers are outside the bound)",
             "layout column counts outside 1..=128 (none of the seven layouts)"],
)

def e2(prop=None, timeout=3600, args=None):
    return dict(engine="e2", id="e2", prop=prop, timeout=timeout, args=args, tier=Q)

E2_ASSUMPTIONS = [
    "E2 trusted base: the Python front end under /verif/smt (parser + symbolic executor of a Rust subset; leaving the subset is reported inconclusive), validated per run by pushing seeded concrete field points through both the encoding and the real function (replay_e2)",
    "ring identities with integer coefficients decided over the rationals (z3 reals) hold in F_p; roots of unity are formal powers of t in Z[t]/(t^8+1) after the concrete lemmas on the parsed literals",
]

PROPS["C15"] = dict(
    title="Closed-form AIR boundary values equal their defining products",
    level="model_checking",
    technique="source-to-SMT translation of the real functions (parsed from /repo each run), z3 over reals/bit-vectors, native replay",
    obligations=[e2("C15")],
    assumptions=E2_ASSUMPTIONS,
    outside=["n_bits > 16 / spacing > 4 for the ruler structure (the inductive step covers any n_bits)", "pages longer than the stated bound"],
)
PROPS["C16"] = dict(
    title="Constraints and DEEP terms get independent random coefficients",
    level="model_checking",
    technique="source-to-SMT translation of the generated evaluators (hash-consed DAG), z3 linearity/non-vanishing queries, native replay with unit vectors",
    obligations=[e2("C16")],
    assumptions=E2_ASSUMPTIONS,
    outside=["quick tier: dex, recursive, recursive_with_poseidon, small, starknet; thorough adds starknet_with_keccak and dynamic (12 flag vectors)",
             "powers_array (the coefficients are powers of one challenge): see C08"],
)
PROPS["C12"] = dict(
    title="Evaluation and trace domains have generators of exactly the right order",
    level="other",
    level_text="Structural solver check that StarkDomains::new computes the defining formula for every (t,c) (parsed source, uninterpreted pow/div), an integer SMT query for the exponent relation, plus a finite concrete table (orders of 3^((p-1)/2^k), k=0..192) that has no symbolic variable and is reported as a table, not as a solver result.",
    technique="source-to-SMT (z3) for the formula structure and exponent relation + exhaustive concrete big-integer table for the 193 orders",
    obligations=[e2("C12")],
    assumptions=E2_ASSUMPTIONS,
    outside=[],
)
